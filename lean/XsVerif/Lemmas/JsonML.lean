/-
  JsonML converter: one-level round trip (element_encode ∘ element_decode).
-/
import XsVerif.Lemmas.Converters

namespace XsVerif.Conv.JsonML
open XsVerif.Conv

/-- what `element_decode` may be given for a valid element (one level) -/
structure WF1 {α : Type} (m : Mapper) (useNs : Bool) (f : Facts) (hd : Hd) (its : List (Item α)) : Prop where
  tag : m.um (m.mp hd.tag) = hd.tag
  attrsUm : ∀ kv ∈ hd.attrs, m.umA (m.mpA kv.1) = kv.1
  attrsNodup : ((attrPairs m hd).map (·.1)).Nodup
  attrsNodup' : (hd.attrs.map (·.1)).Nodup
  attrsNotXmlns : ∀ kv ∈ hd.attrs, isXmlnsKey (m.mpA kv.1) = false
  xmlnsNodup : ((xmlnsEntries "" hd.xmlns).map (·.1)).Nodup
  textOk : ∀ t, hd.text = some t → t.isMap = false ∧ t.isNull = false
  textStr : ∀ t, hd.text = some t → f.simple = false → t.isSeq = false
  textAlone : hd.text.isSome = true → its = []
  groupIff : f.hasGroup = !f.simple
  simpleNoItems : f.simple = true → its = []
  emptyNoItems : f.emptyContent = true → its = []
  cdataStr : ∀ i v, Item.cdata i v ∈ its → v.isSeq = false ∧ v.isMap = false
  kidsUm : ∀ nm s v, Item.child nm s v ∈ its → m.um (m.mp nm) = nm

/-- every converted child is a JsonML list headed by its own mapped name -/
def Inv (m : Mapper) (nm : String) (v : J) : Prop := ∃ rest, v = .list (.atom "s" (m.mp nm) :: rest)

def Kids (m : Mapper) (its : List (Item J)) : Prop := ∀ nm s v, Item.child nm s v ∈ its → Inv m nm v

/-- the text of a mixed element with a non-empty content model comes back as the first cdata part
    (same thing for `XsdGroup.raw_encode`, groups.py:1113, 1140-1143) -/
def shift (f : Facts) (hd : Hd) : Bool :=
  hd.text.isSome && !(f.simple || (f.emptyContent && f.mixed))

/-- documented normalisations of one level: cdata renumbered from 1, `single` flags cleared, xmlns kept
    only when the converter uses namespaces, text shifted into the content for mixed models -/
def norm1 (useNs : Bool) {α : Type} (f : Facts) (hd : Hd) (its : List (Item α)) : Hd × List (Item α) :=
  let x := if useNs then hd.xmlns else []
  if shift f hd then
    ({ hd with text := none, xmlns := x },
     match hd.text with | some t => [.cdata 1 t] | none => [])
  else ({ hd with xmlns := x }, renum 1 its)

theorem xmlnsX_keys (x : List (String × String)) :
    ∀ kv ∈ xmlnsEntries "" x, isXmlnsKey kv.1 = true := by
  intro kv hkv
  simp only [xmlnsEntries, List.mem_map] at hkv
  obtain ⟨p, _, rfl⟩ := hkv
  exact isXmlnsKey_entry p

/-- the xmlns part of the attribute dict -/
def xpart (useNs : Bool) (hd : Hd) : List (String × J) :=
  if !hd.xmlns.isEmpty && useNs then xmlnsEntries "" hd.xmlns else []

theorem decAttrs_eq {α : Type} {m useNs f hd} {its : List (Item α)} (w : WF1 m useNs f hd its) :
    decAttrs m useNs hd = attrPairs m hd ++ xpart useNs hd := by
  unfold decAttrs xpart
  rw [dictUpdate_nil _ w.attrsNodup]
  split
  · apply dictUpdate_fresh _ _ _ w.xmlnsNodup
    intro kv hkv kv' hkv' he
    have h1 := xmlnsX_keys hd.xmlns kv hkv
    simp only [attrPairs, List.mem_map] at hkv'
    obtain ⟨a, ha, rfl⟩ := hkv'
    have h2 := w.attrsNotXmlns a ha
    simp only at he
    rw [he] at h2
    simp [h1] at h2
  · simp

theorem filter_attrs {α : Type} {m useNs f hd} {its : List (Item α)} (w : WF1 m useNs f hd its) :
    ((attrPairs m hd ++ xpart useNs hd).filter fun kv => !isXmlnsKey kv.1) = attrPairs m hd := by
  rw [List.filter_append]
  have h1 : (attrPairs m hd).filter (fun kv => !isXmlnsKey kv.1) = attrPairs m hd := by
    apply List.filter_eq_self.mpr
    intro kv hkv
    simp only [attrPairs, List.mem_map] at hkv
    obtain ⟨a, ha, rfl⟩ := hkv
    simp [w.attrsNotXmlns a ha]
  have h2 : (xpart useNs hd).filter (fun kv => !isXmlnsKey kv.1) = [] := by
    apply List.filter_eq_nil_iff.mpr
    intro kv hkv
    unfold xpart at hkv
    split at hkv
    · simp [xmlnsX_keys hd.xmlns kv hkv]
    · simp at hkv
  rw [h1, h2, List.append_nil]

theorem unmap_attrs {α : Type} {m useNs f hd} {its : List (Item α)} (w : WF1 m useNs f hd its) :
    dictUpdate [] ((attrPairs m hd).map fun kv => (m.umA kv.1, kv.2)) = hd.attrs := by
  have : ((attrPairs m hd).map fun kv => (m.umA kv.1, kv.2)) = hd.attrs := by
    unfold attrPairs
    rw [List.map_map]
    conv => rhs; rw [← List.map_id hd.attrs]
    apply List.map_congr_left
    intro kv hkv
    simp [w.attrsUm kv hkv]
  rw [this]
  exact dictUpdate_nil _ w.attrsNodup'

theorem xmlnsOf_entries (x : List (String × String)) :
    (xmlnsEntries "" x).filterMap xmlnsOfKv = x := by
  induction x with
  | nil => rfl
  | cons a x ih =>
    obtain ⟨p, u⟩ := a
    simp only [xmlnsEntries, List.map_cons, List.filterMap_cons] at ih ⊢
    by_cases hp : p = ""
    · subst hp
      simp [xmlnsOfKv]
      simpa [xmlnsEntries] using ih
    · have hne : ¬ ("xmlns:" ++ p = "xmlns") := by
        intro h; have := congrArg String.toList h; simp at this
      simp [xmlnsOfKv, hp, hasPrefix, dropN, hne]
      simpa [xmlnsEntries] using ih

theorem xmlnsOf_attrs {α : Type} {m useNs f hd} {its : List (Item α)} (w : WF1 m useNs f hd its) :
    (attrPairs m hd).filterMap xmlnsOfKv = [] := by
  apply List.filterMap_eq_nil_iff.mpr
  intro kv hkv
  simp only [attrPairs, List.mem_map] at hkv
  obtain ⟨a, ha, rfl⟩ := hkv
  have h := w.attrsNotXmlns a ha
  simp only [isXmlnsKey, Bool.or_eq_false_iff] at h
  unfold xmlnsOfKv
  cases a.2 <;> simp [h.1, h.2]

theorem number_items {m : Mapper} {useNs : Bool} (its : List (Item J)) (k : Nat)
    (hc : ∀ i v, Item.cdata i v ∈ its → v.isSeq = false ∧ v.isMap = false)
    (hk : ∀ nm s v, Item.child nm s v ∈ its →
      (∃ rest, v = .list (.atom "s" (m.mp nm) :: rest)) ∧ m.um (m.mp nm) = nm) :
    number m useNs k (its.map (itemJ m)) = .ok (renum k its) := by
  induction its generalizing k with
  | nil => rfl
  | cons a its ih =>
    have ih' := fun k => ih k (fun i v h => hc i v (by simp [h])) (fun nm s v h => hk nm s v (by simp [h]))
    cases a with
    | cdata i v =>
      obtain ⟨h1, h2⟩ := hc i v (by simp)
      cases v <;> simp [J.isSeq] at h1 <;>
        simp [itemJ, number, ih', renum, bind, Except.bind, pure, Except.pure]
    | child nm s v =>
      obtain ⟨⟨rest, hv⟩, hum⟩ := hk nm s v (by simp)
      subst hv
      simp [itemJ, J.isNull, number, ih', renum, hum, bind, Except.bind, pure, Except.pure]

/-- what follows the tag (and the attribute dict) in the decoded list -/
def bodyOf (m : Mapper) (f : Facts) (hd : Hd) (its : List (Item J)) : List J :=
  textPart hd ++ (if f.hasGroup then its.map (itemJ m) else [])

theorem itemJ_notMap {m : Mapper} {useNs f hd} {its : List (Item J)} (w : WF1 m useNs f hd its) (hk : Kids m its) :
    ∀ it ∈ its, (itemJ m it).isMap = false := by
  intro it hit
  cases it with
  | cdata i v => exact (w.cdataStr i v hit).2
  | child nm s v =>
    obtain ⟨rest, hv⟩ := hk nm s v hit
    subst hv
    simp [itemJ, J.isNull, J.isMap]

theorem body_head_notMap {m : Mapper} {useNs f hd} {its : List (Item J)} (w : WF1 m useNs f hd its) (hk : Kids m its) :
    ∀ x, (bodyOf m f hd its).head? = some x → x.isMap = false := by
  intro x hx
  unfold bodyOf textPart at hx
  cases ht : hd.text with
  | some t =>
    simp [ht] at hx
    subst hx
    exact (w.textOk t ht).1
  | none =>
    simp only [ht, List.nil_append] at hx
    split at hx
    · cases its with
      | nil => simp at hx
      | cons a its =>
        simp at hx
        subst hx
        exact itemJ_notMap w hk a (by simp)
    · simp at hx

theorem splitAttrs_noDict (m : Mapper) (l : List J) (h : ∀ x, l.head? = some x → x.isMap = false) :
    splitAttrs m l = ([], l) := by
  cases l with
  | nil => rfl
  | cons a l =>
    have := h a (by simp)
    cases a <;> simp [J.isMap] at this <;> rfl

theorem xmlnsOf_noDict (useNs : Bool) (l : List J) (h : ∀ x, l.head? = some x → x.isMap = false) :
    xmlnsOf useNs l = [] := by
  cases l with
  | nil => cases useNs <;> rfl
  | cons a l =>
    have := h a (by simp)
    cases a <;> simp [J.isMap] at this <;> cases useNs <;> rfl

theorem split_rest {m : Mapper} {useNs f hd} {its : List (Item J)} (w : WF1 m useNs f hd its) (hk : Kids m its) :
    splitAttrs m (header m useNs hd ++ bodyOf m f hd its) = (hd.attrs, bodyOf m f hd its) ∧
    xmlnsOf useNs (header m useNs hd ++ bodyOf m f hd its) = (if useNs then hd.xmlns else []) := by
  have hA := decAttrs_eq w
  unfold header
  by_cases he : (decAttrs m useNs hd).isEmpty = true
  · -- no attribute dict
    simp only [he, if_true, List.nil_append]
    rw [hA] at he
    have h0 : attrPairs m hd = [] ∧ xpart useNs hd = [] := by
      simpa [List.isEmpty_iff] using he
    have hattrs : hd.attrs = [] := by
      have := h0.1; unfold attrPairs at this; simpa using this
    refine ⟨?_, ?_⟩
    · rw [splitAttrs_noDict m _ (body_head_notMap w hk), hattrs]
    · rw [xmlnsOf_noDict useNs _ (body_head_notMap w hk)]
      have := h0.2
      unfold xpart at this
      cases useNs <;> simp at this ⊢
      cases hx : hd.xmlns with
      | nil => rfl
      | cons a l => simp [hx, xmlnsEntries] at this
  · rw [if_neg he]
    simp only [List.cons_append, List.nil_append]
    refine ⟨?_, ?_⟩
    · simp only [splitAttrs]
      rw [hA, filter_attrs w, unmap_attrs w]
    · cases useNs with
      | false => rfl
      | true =>
        simp only [xmlnsOf, if_true]
        rw [hA, List.filterMap_append, xmlnsOf_attrs w]
        unfold xpart
        cases hx : hd.xmlns with
        | nil => simp
        | cons a l =>
          simp only [List.isEmpty_cons, Bool.not_false, Bool.and_self, if_true, List.nil_append]
          rw [xmlnsOf_entries]

theorem number_single {m : Mapper} {useNs : Bool} (t : J) (h : t.isSeq = false) :
    number m useNs 1 [t] = .ok [.cdata 1 t] := by
  cases t <;> simp [J.isSeq] at h <;> simp [number, bind, Except.bind, pure, Except.pure]

theorem dec_eq (m : Mapper) (useNs : Bool) (f : Facts) (hd : Hd) (its : List (Item J)) :
    dec m useNs f hd its =
      .list (.atom "s" (m.mp hd.tag) :: (header m useNs hd ++ bodyOf m f hd its)) := by
  simp [dec, bodyOf, List.append_assoc]

/-- encBody on the decoded body -/
theorem encBody_body {m : Mapper} {useNs f hd} {its : List (Item J)} (w : WF1 m useNs f hd its) (hk : Kids m its)
    (x : List (String × String)) :
    encBody m useNs f hd.tag hd.attrs x (bodyOf m f hd its) =
      .ok (if shift f hd then
             ({ hd with text := none, xmlns := x }, match hd.text with | some t => [.cdata 1 t] | none => [])
           else ({ hd with xmlns := x }, renum 1 its)) := by
  obtain ⟨tag, text, attrs, xmlns⟩ := hd
  cases text with
  | some t =>
    have hits : its = [] := w.textAlone (by simp)
    subst hits
    have ht := w.textOk t rfl
    simp only [bodyOf, textPart, List.map_nil, ite_self, List.append_nil, encBody, shift, Option.isSome_some,
      Bool.true_and]
    by_cases hc : (f.simple || (f.emptyContent && f.mixed)) = true
    · simp [hc, ht.2, renum]
    · have hs : f.simple = false := by
        cases h : f.simple <;> simp [h] at hc ⊢
      have hseq := w.textStr t rfl hs
      simp only [hc, Bool.false_eq_true, if_false, Bool.not_false, if_true]
      rw [number_single t hseq]
      rfl
  | none =>
    simp only [bodyOf, textPart, List.nil_append, shift, Option.isSome_none, Bool.false_and, Bool.false_eq_true,
      if_false]
    by_cases hg : f.hasGroup = true
    · simp only [hg, if_true]
      have hsimple : f.simple = false := by
        have := w.groupIff; rw [hg] at this; cases h : f.simple <;> simp [h] at this ⊢
      have hnum := @number_items m useNs its 1 w.cdataStr (fun nm s v h => ⟨hk nm s v h, w.kidsUm nm s v h⟩)
      cases its with
      | nil => simp [encBody, renum]
      | cons a its =>
        have hne : f.emptyContent = false := by
          cases h : f.emptyContent
          · rfl
          · have := w.emptyNoItems h; simp at this
        cases its with
        | nil =>
          simp only [List.map_cons, List.map_nil, encBody, hsimple, hne, Bool.false_and, Bool.or_self,
            Bool.false_eq_true, if_false]
          simp only [List.map_cons, List.map_nil] at hnum
          rw [hnum]; rfl
        | cons b its =>
          simp only [List.map_cons, encBody]
          simp only [List.map_cons] at hnum
          rw [hnum]; rfl
    · have hg' : f.hasGroup = false := by cases h : f.hasGroup <;> simp [h] at hg ⊢
      have hsimple : f.simple = true := by
        have := w.groupIff; rw [hg'] at this; cases h : f.simple <;> simp [h] at this ⊢
      have hits := w.simpleNoItems hsimple
      subst hits
      simp [hg', encBody, renum]

/-- **one level**: `element_encode (element_decode data) = norm1 data` -/
theorem level_roundtrip {m : Mapper} {useNs f hd} {its : List (Item J)} (w : WF1 m useNs f hd its) (hk : Kids m its) :
    enc m useNs f hd.tag (dec m useNs f hd its) = .ok (norm1 useNs f hd its) := by
  rw [dec_eq]
  obtain ⟨hsplit, hx⟩ := split_rest (f := f) w hk
  simp only [enc, beq_self_eq_true, if_true, w.tag, bne_self_eq_false, Bool.false_eq_true, if_false]
  cases hr : header m useNs hd ++ bodyOf m f hd its with
  | nil =>
    -- a bare tag: no attributes, no xmlns kept, no text, no items
    rw [hr] at hsplit hx
    have h1 : hd.attrs = [] := by
      have := congrArg Prod.fst hsplit; simpa [splitAttrs] using this.symm
    have hb : bodyOf m f hd its = [] := by
      have := congrArg Prod.snd hsplit; simpa [splitAttrs] using this.symm
    have h2 : (if useNs then hd.xmlns else []) = [] := by
      rw [← hx]; cases useNs <;> rfl
    have h3 := encBody_body w hk (if useNs then hd.xmlns else [])
    rw [hb, h1, h2] at h3
    simp only [encBody] at h3
    injection h3 with h3
    simp only [norm1, h1, h2]
    rw [← h3]
  | cons a l =>
    simp only
    rw [← hr, hsplit, hx]
    simp only
    rw [encBody_body w hk]
    rfl

end XsVerif.Conv.JsonML
