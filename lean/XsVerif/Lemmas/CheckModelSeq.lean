/-
  C15, M side of the flat-sequence fragment: the verdict of the port of `check_model` on
  `sequence(e1 … en){lo,1}` of plain element particles.  Generic part: the error of the inner loop does
  not depend on the accumulator (`against_snd`).
-/
import XsVerif.Lemmas.FlatSeqLang

set_option linter.unusedSectionVars false

namespace XsVerif.CM
open XsVerif.Wildcard XsVerif.Rx

section generic
variable (M : Ctx)

/-- the error of stage 2 (models.py:169-177), without the accumulator -/
def Ctx.stage2Err (e : Nat) (cp : List Nat) (pe : Nat) (pp : List Nat) : Option CMErr :=
  if M.distinguishable (pp ++ [pe]) (cp ++ [e]) then none
  else if M.v11 && M.isAny pe && !M.isAny e then none
  else if M.v11 && M.isAny e && !M.isAny pe then none
  else some (.upa pe e)

theorem stage2_snd (e : Nat) (cp : List Nat) (pe : Nat) (pp : List Nat) (acc : Acc) :
    (M.stage2 e cp pe pp acc).2 = M.stage2Err e cp pe pp := by
  unfold Ctx.stage2 Ctx.stage2Err
  simp only []
  repeat' split
  all_goals rfl

theorem stage1_shape (e : Nat) (cp : List Nat) (pe : Nat) (pp : List Nat) :
    (∃ err, ∀ acc, M.stage1 e cp pe pp acc = .error err) ∨ (∀ acc, M.stage1 e cp pe pp acc = .ok none) ∨
    (∀ acc, ∃ acc2, M.stage1 e cp pe pp acc = .ok (some acc2)) := by
  unfold Ctx.stage1
  simp only []
  repeat' split
  all_goals first
    | exact .inl ⟨_, fun _ => rfl⟩
    | exact .inr (.inl fun _ => rfl)
    | exact .inr (.inr fun acc => ⟨_, rfl⟩)

theorem upaStep_snd (e : Nat) (cp : List Nat) (pe : Nat) (pp : List Nat) (acc acc' : Acc) :
    (M.upaStep e cp pe pp acc).2 = (M.upaStep e cp pe pp acc').2 := by
  unfold Ctx.upaStep
  rcases stage1_shape M e cp pe pp with ⟨err, h⟩ | h | h
  · rw [h acc, h acc']
  · rw [h acc, h acc']
  · obtain ⟨a1, h1⟩ := h acc
    obtain ⟨a2, h2⟩ := h acc'
    rw [h1, h2]
    simp only [stage2_snd]

/-- the error raised for one entry of `paths` -/
def Ctx.pairErr (e : Nat) (cp : List Nat) (en : Entry) : Option CMErr :=
  if !M.consistent e en.leaf then some (.edc e en.leaf)
  else if (!M.fx.shared && en.leaf == e) || !M.overlap en.leaf e then none
  else (M.upaStep e cp en.leaf en.path {}).2

/-- the inner loop raises the first error of the entries, whatever was accumulated -/
theorem against_snd (e : Nat) (cp : List Nat) : ∀ (d : List Entry) (acc : Acc),
    (M.against e cp d acc).2 = d.findSome? (M.pairErr e cp) := by
  intro d
  induction d with
  | nil => intro acc; simp [Ctx.against]
  | cons en rest ih =>
    intro acc
    unfold Ctx.against
    simp only [List.findSome?_cons, Ctx.pairErr]
    split
    · simp
    · split
      · simp [ih]
      · rw [upaStep_snd M e cp en.leaf en.path {} acc]
        split
        · rename_i h; simp [h]
        · rename_i h; simp [h, ih]

end generic

/-! ### flat sequences -/

/-- `sequence(items){lo,hi}` with root id `r` -/
def flatSeq (r lo : Nat) (hi : Option Nat) (items : List FItem) : Particle :=
  .group r .seq lo hi (mkParticles items)

/-- what the theorem assumes about the context of a flat sequence of plain element particles (either XSD
    version, no substitution groups, same name ⇒ same declaration): the lookups of the port return the
    data of the items; the root has `maxOccurs = 1` -/
structure SeqCtxR (M : Ctx) (r : Nat) (rhi : Option Nat) (items : List FItem) : Prop where
  rootSeq : (M.node r).kind = .seq
  rootHi : (M.node r).hi = rhi
  content : (M.node r).content = items.map (·.id)
  elemK : ∀ it ∈ items, (M.node it.id).kind = .elem
  lo : ∀ it ∈ items, (M.node it.id).lo = it.lo
  hi : ∀ it ∈ items, (M.node it.id).hi = it.hi
  name : ∀ it ∈ items, (M.info it.id).name = it.name
  plain : ∀ it ∈ items, (M.info it.id).sgHead = none
  nosubs : ∀ it ∈ items, (M.info it.id).subs = []
  ids : items.Pairwise fun a b => a.id ≠ b.id
  rootId : ∀ it ∈ items, it.id ≠ r
  sameDecl : ∀ it ∈ items, ∀ jt ∈ items, it.name = jt.name → (M.info it.id).ty = (M.info jt.id).ty

/-- the root has `maxOccurs = 1` -/
abbrev SeqCtx (M : Ctx) (r : Nat) (items : List FItem) : Prop := SeqCtxR M r (some 1) items

variable {M : Ctx} {r : Nat} {rhi : Option Nat} {items : List FItem}

theorem SeqCtxR.isElem (h : SeqCtxR M r rhi items) {it : FItem} (hit : it ∈ items) : M.isElem it.id = true := by
  simp [Ctx.isElem, h.elemK it hit]

theorem SeqCtxR.key (h : SeqCtxR M r rhi items) {it : FItem} (hit : it ∈ items) : M.key it.id = some it.name := by
  rw [key_elem M (h.isElem hit), h.name it hit]

theorem SeqCtxR.emptiable (h : SeqCtxR M r rhi items) {it : FItem} (hit : it ∈ items) :
    M.emptiable it.id = (it.lo == 0) := by
  have hk := h.elemK it hit
  have hl := h.lo it hit
  simp only [Ctx.node] at hk hl
  unfold Ctx.emptiable emptiableF
  simp only [Ctx.node, hk, hl]

theorem SeqCtxR.univocal (h : SeqCtxR M r rhi items) {it : FItem} (hit : it ∈ items) :
    M.univocal it.id = (it.hi == some it.lo) := by
  simp [Ctx.univocal, Ctx.node, ← h.lo it hit, ← h.hi it hit]

theorem SeqCtxR.overlap (h : SeqCtxR M r rhi items) {it jt : FItem} (hit : it ∈ items) (hjt : jt ∈ items) :
    M.overlap it.id jt.id = (it.name == jt.name) := by
  cases hv : M.v11 <;>
    simp [Ctx.overlap, h.isElem hit, h.isElem hjt, Ctx.overlapEE, hv, h.name it hit, h.name jt hjt,
      h.plain it hit, h.plain jt hjt, h.nosubs it hit, h.nosubs jt hjt]

theorem SeqCtxR.consistent (h : SeqCtxR M r rhi items) {it jt : FItem} (hit : it ∈ items) (hjt : jt ∈ items) :
    M.consistent jt.id it.id = true := by
  by_cases hn : jt.name = it.name
  · have := h.sameDecl jt hjt it hit hn
    cases hv : M.v11 <;>
      simp [Ctx.consistent, h.isElem hit, h.isElem hjt, hv, h.name it hit, h.name jt hjt, hn, this]
  · cases hv : M.v11 <;>
      simp [Ctx.consistent, h.isElem hit, h.isElem hjt, hv, h.name it hit, h.name jt hjt, hn,
        h.nosubs it hit, h.nosubs jt hjt]

theorem idxOf_mid {α : Type} [BEq α] [LawfulBEq α] : ∀ (pre : List α) (a : α) (post : List α), a ∉ pre →
    (pre ++ a :: post).idxOf a = pre.length := by
  intro pre
  induction pre with
  | nil => intro a post _; simp
  | cons b pre ih =>
    intro a post hn
    have hb : (b == a) = false := by
      rw [beq_eq_false_iff_ne]
      exact fun h => hn (by simp [h])
    have := ih a post (fun h => hn (by simp [h]))
    simp [List.idxOf_cons, hb, this]

theorem drop_take_mid {α : Type} (a : List α) (x : α) (m c : List α) :
    (((a ++ x :: m) ++ c).drop (a.length + 1)).take ((a ++ x :: m).length - (a.length + 1)) = m := by
  have : (a ++ x :: m) ++ c = (a ++ [x]) ++ (m ++ c) := by simp
  rw [this, List.drop_left' (by simp)]
  have hlen : (a ++ x :: m).length - (a.length + 1) = m.length := by
    simp only [List.length_append, List.length_cons]; omega
  rw [hlen]
  simp

theorem SeqCtxR.anyNonEmptiable (h : SeqCtxR M r rhi items) (l : List FItem) (hl : ∀ m ∈ l, m ∈ items) :
    M.anyNonEmptiable (l.map (·.id)) = l.any fun m => m.lo != 0 := by
  induction l with
  | nil => rfl
  | cons m l ih =>
    have := ih fun k hk => hl k (by simp [hk])
    simp only [Ctx.anyNonEmptiable] at this
    simp [Ctx.anyNonEmptiable, h.emptiable (hl m (by simp)), this, bne]


theorem SeqCtx.distinguishable (h : SeqCtx M r items) {p1 midl p2 : List FItem} {it jt : FItem}
    (hsplit : items = (p1 ++ it :: midl) ++ jt :: p2) (hnu : M.univocal it.id = false) :
    M.distinguishable ([r] ++ [it.id]) ([r] ++ [jt.id]) = midl.any (fun m => m.lo != 0) := by
  have hit : it ∈ items := by rw [hsplit]; simp
  have hjt : jt ∈ items := by rw [hsplit]; simp
  have hids := h.ids
  rw [hsplit] at hids
  have hij : it.id ≠ jt.id := (List.pairwise_append.mp hids).2.2 it (by simp) jt (by simp)
  have hir : it.id ≠ r := h.rootId it hit
  have hjr : jt.id ≠ r := h.rootId jt hjt
  have hcont : (M.node r).content = ((p1.map (·.id) ++ it.id :: midl.map (·.id)) ++ jt.id :: p2.map (·.id)) := by
    rw [h.content, hsplit]; simp
  have hi1 : it.id ∉ p1.map (·.id) := by
    intro hm
    obtain ⟨k, hk, hkid⟩ := List.mem_map.mp hm
    have h1 := (List.pairwise_append.mp hids).1
    exact (List.pairwise_append.mp h1).2.2 k hk it (by simp) hkid
  have hj1 : jt.id ∉ (p1.map (·.id) ++ it.id :: midl.map (·.id)) := by
    intro hm
    have : jt.id ∈ (p1 ++ it :: midl).map (·.id) := by simpa using hm
    obtain ⟨k, hk, hkid⟩ := List.mem_map.mp this
    exact (List.pairwise_append.mp hids).2.2 k hk jt (by simp) hkid
  have hidx1 : M.indexIn r it.id = p1.length := by
    rw [Ctx.indexIn, hcont, List.append_assoc, List.cons_append, idxOf_mid _ _ _ hi1]; simp
  have hidx2 : M.indexIn r jt.id = p1.length + 1 + midl.length := by
    rw [Ctx.indexIn, hcont, idxOf_mid _ _ _ hj1]; simp; omega
  have hmid : M.anyNonEmptiable (((M.node r).content.drop (p1.length + 1)).take (p1.length + 1 + midl.length - (p1.length + 1))) =
      midl.any (fun m => m.lo != 0) := by
    have := drop_take_mid (p1.map (·.id)) it.id (midl.map (·.id)) (jt.id :: p2.map (·.id))
    simp only [List.length_append, List.length_map, List.length_cons] at this
    rw [hcont]
    have e : p1.length + 1 + midl.length - (p1.length + 1) = p1.length + (midl.length + 1) - (p1.length + 1) := by omega
    rw [e, this]
    exact h.anyNonEmptiable midl fun m hm => by rw [hsplit]; simp [hm]
  unfold Ctx.distinguishable
  have hf : ([r] ++ [it.id]).findIdx? (fun e => !([r] ++ [jt.id]).contains e) = some 1 := by
    simp [List.findIdx?_cons, hij, hir]
  rw [hf]
  simp only [Nat.sub_self, List.getD_cons_zero, List.cons_append, List.nil_append, List.getD_cons_succ,
    h.rootHi, h.rootSeq, hidx1, hidx2, hmid, pairsFrom, List.drop_succ_cons, List.drop_zero, List.drop_nil,
    List.zip_nil_right, Ctx.walk, List.getLast?_cons_cons, List.getLast?_singleton, Option.getD_some, hnu]
  simp

theorem SeqCtxR.notAny (h : SeqCtxR M r rhi items) {it : FItem} (hit : it ∈ items) : M.isAny it.id = false := by
  simp [Ctx.isAny, h.elemK it hit]

/-- the verdict of the port for one entry of `paths` on a flat sequence -/
theorem SeqCtx.pairErr_none (h : SeqCtx M r items) {p1 midl p2 : List FItem} {it jt : FItem}
    (hsplit : items = (p1 ++ it :: midl) ++ jt :: p2) :
    M.pairErr jt.id [r] ⟨M.key it.id, it.id, [r]⟩ = none ↔
      ¬ (it.name = jt.name ∧ it.hi ≠ some it.lo ∧ ∀ m ∈ midl, m.lo = 0) := by
  have hit : it ∈ items := by rw [hsplit]; simp
  have hjt : jt ∈ items := by rw [hsplit]; simp
  have hids := h.ids
  rw [hsplit] at hids
  have hij : it.id ≠ jt.id := (List.pairwise_append.mp hids).2.2 it (by simp) jt (by simp)
  unfold Ctx.pairErr
  simp only [h.consistent hit hjt, Bool.not_true, Bool.false_eq_true, if_false, h.overlap hit hjt,
    beq_eq_false_iff_ne.mpr hij, Bool.and_false, Bool.false_or]
  by_cases hn : it.name = jt.name
  · simp only [hn, beq_self_eq_true, Bool.not_true, Bool.false_eq_true, if_false, true_and]
    by_cases hu : M.univocal it.id = true
    · have hu' := hu
      rw [h.univocal hit, beq_iff_eq] at hu'
      simp [Ctx.upaStep, Ctx.stage1, h.rootSeq, h.rootHi, hu, hu']
    · have hu0 : M.univocal it.id = false := by simpa using hu
      have hu' : it.hi ≠ some it.lo := by
        intro hc
        rw [h.univocal hit, hc] at hu0
        simp at hu0
      have hd := h.distinguishable hsplit hu0
      simp only [List.cons_append, List.nil_append] at hd
      simp [Ctx.upaStep, Ctx.stage1, h.rootSeq, h.rootHi, hu0, hu', stage2_snd, Ctx.stage2Err, hd, h.notAny hit, h.notAny hjt]
  · simp [hn]

/-! ### the `paths` dict on a flat sequence -/

/-- `it` is the last live item of its name in `done` -/
def LastOf (done : List FItem) (it : FItem) : Prop :=
  ∃ p1 p2, done = p1 ++ it :: p2 ∧ it.hi ≠ some 0 ∧ ∀ m ∈ p2, m.hi ≠ some 0 → m.name ≠ it.name

/-- the dict holds exactly the last live item of every name -/
def DictInv (M : Ctx) (r : Nat) (done : List FItem) (d : List Entry) : Prop :=
  ∀ en, en ∈ d ↔ ∃ it, LastOf done it ∧ en = entryOf M r it

/-- the pair the port examines when it visits `jt`: the last live item `it` of that name, not univocal,
    only emptiable particles in between -/
def BadLast (done : List FItem) (jt : FItem) : Prop :=
  ∃ p1 it p2, done = p1 ++ it :: p2 ∧ it.hi ≠ some 0 ∧ (∀ m ∈ p2, m.hi ≠ some 0 → m.name ≠ it.name) ∧
    it.name = jt.name ∧ it.hi ≠ some it.lo ∧ ∀ m ∈ p2, m.lo = 0

theorem snoc_split {α : Type} {done p1 p2 : List α} {jt it : α} (h : done ++ [jt] = p1 ++ it :: p2) :
    (p2 = [] ∧ done = p1 ∧ jt = it) ∨ ∃ q, p2 = q ++ [jt] ∧ done = p1 ++ it :: q := by
  rcases List.eq_nil_or_concat p2 with rfl | ⟨q, z, rfl⟩
  · have := List.append_inj' h (by simp)
    exact .inl ⟨rfl, this.1, by simpa using this.2⟩
  · have h' : done ++ [jt] = (p1 ++ it :: q) ++ [z] := by simpa using h
    have := List.append_inj' h' (by simp)
    have hz : jt = z := by simpa using this.2
    subst hz
    exact .inr ⟨q, by simp, this.1⟩

theorem lastOf_snoc_dead {done : List FItem} {jt it : FItem} (hj : jt.hi = some 0) :
    LastOf (done ++ [jt]) it ↔ LastOf done it := by
  constructor
  · rintro ⟨p1, p2, hs, hl, hp⟩
    rcases snoc_split hs with ⟨_, _, rfl⟩ | ⟨q, rfl, rfl⟩
    · exact absurd hj hl
    · exact ⟨p1, q, rfl, hl, fun m hm => hp m (by simp [hm])⟩
  · rintro ⟨p1, p2, rfl, hl, hp⟩
    refine ⟨p1, p2 ++ [jt], by simp, hl, ?_⟩
    intro m hm hml
    rcases List.mem_append.mp hm with hm | hm
    · exact hp m hm hml
    · simp only [List.mem_singleton] at hm; subst hm; exact absurd hj hml

theorem lastOf_snoc_live {done : List FItem} {jt it : FItem} (hj : jt.hi ≠ some 0) :
    LastOf (done ++ [jt]) it ↔ it = jt ∨ (LastOf done it ∧ it.name ≠ jt.name) := by
  constructor
  · rintro ⟨p1, p2, hs, hl, hp⟩
    rcases snoc_split hs with ⟨_, _, rfl⟩ | ⟨q, rfl, rfl⟩
    · exact .inl rfl
    · exact .inr ⟨⟨p1, q, rfl, hl, fun m hm => hp m (by simp [hm])⟩, Ne.symm (hp jt (by simp) hj)⟩
  · rintro (rfl | ⟨⟨p1, p2, rfl, hl, hp⟩, hne⟩)
    · exact ⟨done, [], rfl, hj, fun m hm => nomatch hm⟩
    · refine ⟨p1, p2 ++ [jt], by simp, hl, ?_⟩
      intro m hm hml
      rcases List.mem_append.mp hm with hm | hm
      · exact hp m hm hml
      · simp only [List.mem_singleton] at hm; subst hm; exact Ne.symm hne

theorem SeqCtx.dict_step (h : SeqCtx M r items) {done : List FItem} {jt : FItem} {d : List Entry}
    (hmem : ∀ it ∈ done ++ [jt], it ∈ items) (hj : jt.hi ≠ some 0) (hinv : DictInv M r done d) :
    DictInv M r (done ++ [jt]) (dictSet d ⟨M.key jt.id, jt.id, [r]⟩) := by
  intro en
  rw [mem_dictSet]
  constructor
  · rintro (rfl | ⟨hd, hk⟩)
    · exact ⟨jt, (lastOf_snoc_live hj).mpr (.inl rfl), rfl⟩
    · obtain ⟨it, hlast, rfl⟩ := (hinv en).mp hd
      refine ⟨it, (lastOf_snoc_live hj).mpr (.inr ⟨hlast, ?_⟩), rfl⟩
      intro hn
      apply hk
      obtain ⟨p1, p2, rfl, _, _⟩ := hlast
      simp only [entryOf]
      rw [h.key (hmem it (by simp)), h.key (hmem jt (by simp)), hn]
  · rintro ⟨it, hlast, rfl⟩
    rcases (lastOf_snoc_live hj).mp hlast with rfl | ⟨hl, hne⟩
    · exact .inl rfl
    · refine .inr ⟨(hinv _).mpr ⟨it, hl, rfl⟩, ?_⟩
      obtain ⟨p1, p2, rfl, _, _⟩ := hl
      simp only [entryOf]
      rw [h.key (hmem it (by simp)), h.key (hmem jt (by simp))]
      simpa using hne

/-- visiting `jt` raises nothing iff the last live item of its name is not in conflict with it -/
theorem SeqCtx.against_seq (h : SeqCtx M r items) {done rest : List FItem} {jt : FItem} {d : List Entry}
    (hsplit : items = done ++ jt :: rest) (hinv : DictInv M r done d) (acc : Acc) :
    (M.against jt.id [r] d acc).2 = none ↔ ¬ BadLast done jt := by
  rw [against_snd, List.findSome?_eq_none_iff]
  constructor
  · rintro hall ⟨p1, it, p2, rfl, hl, hp, hn, hu, hm⟩
    have hen := (hinv (entryOf M r it)).mpr ⟨it, ⟨p1, p2, rfl, hl, hp⟩, rfl⟩
    exact (h.pairErr_none (p1 := p1) (midl := p2) (p2 := rest) hsplit).mp (hall _ hen) ⟨hn, hu, hm⟩
  · intro hnb en hen
    obtain ⟨it, ⟨p1, p2, rfl, hl, hp⟩, rfl⟩ := (hinv en).mp hen
    refine (h.pairErr_none (p1 := p1) (midl := p2) (p2 := rest) hsplit).mpr ?_
    rintro ⟨hn, hu, hm⟩
    exact hnb ⟨p1, it, p2, rfl, hl, hp, hn, hu, hm⟩

theorem SeqCtx.outer_seq (h : SeqCtx M r items) : ∀ (todo done : List FItem) (d : List Entry) (acc : Acc),
    items = done ++ todo → DictInv M r done d →
    ((M.outer ((live todo).map fun it => (it.id, [r])) d acc).err = none ↔
      ∀ t1 jt t2, todo = t1 ++ jt :: t2 → jt.hi ≠ some 0 → ¬ BadLast (done ++ t1) jt) := by
  intro todo
  induction todo with
  | nil =>
    intro done d acc _ _
    simp only [live, List.filter_nil, List.map_nil, Ctx.outer, true_iff]
    intro t1 jt t2 hs
    simp at hs
  | cons jt rest ih =>
    intro done d acc hsplit hinv
    have hsplit' : items = (done ++ [jt]) ++ rest := by simp [hsplit]
    have hmem : ∀ it ∈ done ++ [jt], it ∈ items := by
      intro it hit; rw [hsplit']; exact List.mem_append_left _ hit
    -- the splits of `jt :: rest`
    have hsplits : (∀ t1 kt t2, jt :: rest = t1 ++ kt :: t2 → kt.hi ≠ some 0 → ¬ BadLast (done ++ t1) kt) ↔
        ((jt.hi ≠ some 0 → ¬ BadLast done jt) ∧
          ∀ t1 kt t2, rest = t1 ++ kt :: t2 → kt.hi ≠ some 0 → ¬ BadLast ((done ++ [jt]) ++ t1) kt) := by
      constructor
      · intro hall
        refine ⟨fun hj => by simpa using hall [] jt rest rfl hj, ?_⟩
        intro t1 kt t2 hs hk
        have := hall (jt :: t1) kt t2 (by simp [hs]) hk
        simpa using this
      · rintro ⟨h0, hr⟩ t1 kt t2 hs hk
        cases t1 with
        | nil =>
          simp only [List.nil_append, List.cons.injEq] at hs
          obtain ⟨rfl, rfl⟩ := hs
          simpa using h0 hk
        | cons t t1 =>
          simp only [List.cons_append, List.cons.injEq] at hs
          obtain ⟨rfl, rfl⟩ := hs
          simpa using hr t1 kt t2 rfl hk
    rw [hsplits]
    by_cases hj : jt.hi = some 0
    · have hlive : live (jt :: rest) = live rest := by simp [live, hj]
      rw [hlive, ih (done ++ [jt]) d acc hsplit' (fun en => by
        rw [hinv en]; exact exists_congr fun it => and_congr_left fun _ => (lastOf_snoc_dead hj).symm)]
      simp [hj]
    · have hlive : live (jt :: rest) = jt :: live rest := by simp [live, hj]
      rw [hlive]
      simp only [List.map_cons]
      unfold Ctx.outer
      have hag := h.against_seq hsplit hinv acc
      cases hres : M.against jt.id [r] d acc with
      | mk acc' o =>
        rw [hres] at hag
        cases o with
        | some err =>
          simp only at hag
          have : BadLast done jt := by
            apply Classical.byContradiction
            intro hnb
            exact absurd (hag.mpr hnb) (by simp)
          simp [hj, this]
        | none =>
          simp only [true_iff] at hag
          simp only []
          rw [ih (done ++ [jt]) _ acc' hsplit' (h.dict_step hmem hj hinv)]
          simp [hj, hag]

/-- comparing with the *last* live item of the name only loses nothing: if some earlier non-univocal item
    of the name is separated from `jt` by emptiable particles only, so is the last one -/
theorem badLast_of_bad (jt : FItem) : ∀ (ms : List FItem) (p1 : List FItem) (it : FItem) (skipped : List FItem),
    it.hi ≠ some 0 → it.name = jt.name → it.hi ≠ some it.lo →
    (∀ m ∈ skipped, m.lo = 0 ∧ (m.hi ≠ some 0 → m.name ≠ jt.name)) → (∀ m ∈ ms, m.lo = 0) →
    BadLast (p1 ++ it :: (skipped ++ ms)) jt := by
  intro ms
  induction ms with
  | nil =>
    intro p1 it skipped hl hn hu hsk _
    refine ⟨p1, it, skipped, by simp, hl, fun m hm hml => ?_, hn, hu, fun m hm => (hsk m hm).1⟩
    rw [hn]; exact (hsk m hm).2 hml
  | cons m ms ih =>
    intro p1 it skipped hl hn hu hsk hms
    have hm0 : m.lo = 0 := hms m (by simp)
    have hms' : ∀ k ∈ ms, k.lo = 0 := fun k hk => hms k (by simp [hk])
    by_cases hc : m.hi ≠ some 0 ∧ m.name = jt.name
    · have := ih (p1 ++ it :: skipped) m [] hc.1 hc.2 (by rw [hm0]; exact hc.1) (fun k hk => nomatch hk) hms'
      simpa [List.append_assoc] using this
    · have := ih p1 it (skipped ++ [m]) hl hn hu (by
        intro k hk
        rcases List.mem_append.mp hk with hk | hk
        · exact hsk k hk
        · simp only [List.mem_singleton] at hk
          subst hk
          exact ⟨hm0, fun hml hnm => hc ⟨hml, hnm⟩⟩) hms'
      simpa [List.append_assoc] using this

/-- M on the flat-sequence fragment: accepted iff there is no bad pair -/
theorem SeqCtx.accepts_seq (h : SeqCtx M r items) (lo : Nat) :
    M.accepts (flatSeq r lo (some 1) items) = true ↔ ¬ BadS items := by
  have hv : M.visited (flatSeq r lo (some 1) items) = (live items).map fun it => (it.id, [r]) := by
    simp [Ctx.visited, flatSeq, Particle.maxIsZero, Particle.leafPaths, leafPaths_mkParticles, live]
  have hinv : DictInv M r [] [] := by
    intro en
    simp only [List.not_mem_nil, false_iff]
    rintro ⟨it, ⟨p1, p2, hs, _⟩, _⟩
    simp at hs
  have := h.outer_seq items [] [] {} (by simp) hinv
  simp only [Ctx.accepts, Ctx.checkModel, hv, Option.isNone_iff_eq_none, this, List.nil_append]
  constructor
  · rintro hall ⟨p1, it, midl, jt, p2, hs, hn, hu, hl, hj, hm⟩
    have hb := badLast_of_bad jt midl p1 it [] hl hn hu (fun k hk => nomatch hk) hm
    exact hall (p1 ++ it :: midl) jt p2 hs hj (by simpa using hb)
  · rintro hnb t1 jt t2 hs hj ⟨p1, it, p2, rfl, hl, _, hn, hu, hm⟩
    exact hnb ⟨p1, it, p2, jt, t2, hs, hn, hu, hl, hj, hm⟩

end XsVerif.CM
