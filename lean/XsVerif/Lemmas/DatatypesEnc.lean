/-
  Helper lemmas for C02: the rational value and order of `Dec`, and the encoders of Model/DatatypesEnc.lean.
  Core Lean only (`Rat` is in core).
-/
import XsVerif.Model.Datatypes
import XsVerif.Model.DatatypesEnc
import XsVerif.Lemmas.Datatypes
import XsVerif.Lemmas.DatatypesDec
namespace XsVerif.Datatypes

/-- the rational number denoted by a `Decimal` -/
def Dec.toRat (d : Dec) : Rat := (d.toInt : Rat) / (10 : Rat) ^ d.scale

theorem rat_div_lt_div {x y A B : Rat} (hA : 0 < A) (hB : 0 < B) : x / A < y / B ↔ x * B < y * A := by
  rw [Rat.div_lt_iff hA, Rat.div_def, Rat.mul_assoc, Rat.mul_comm B⁻¹ A, ← Rat.mul_assoc, ← Rat.div_def,
    Rat.lt_div_iff hB]

theorem ten_pow_pos (n : Nat) : (0 : Rat) < (10 : Rat) ^ n := Rat.pow_pos (by decide)

theorem cross_cast (x : Int) (n : Nat) : (x : Rat) * (10 : Rat) ^ n = ((x * (10 : Int) ^ n : Int) : Rat) := by
  rw [Rat.intCast_mul, Rat.intCast_pow]; rfl

theorem dec_lt_iff (a b : Dec) : a.lt b = true ↔ a.toRat < b.toRat := by
  unfold Dec.lt Dec.toRat
  rw [rat_div_lt_div (ten_pow_pos _) (ten_pow_pos _), cross_cast, cross_cast, Rat.intCast_lt_intCast]
  simp

theorem dec_le_iff (a b : Dec) : a.le b = true ↔ a.toRat ≤ b.toRat := by
  rw [← Rat.not_lt, ← dec_lt_iff]
  unfold Dec.le Dec.lt
  simp only [decide_eq_true_eq]
  omega

theorem dec_eqv_iff (a b : Dec) : a.eqv b = true ↔ a.toRat = b.toRat := by
  have h1 := dec_le_iff a b
  have h2 := dec_le_iff b a
  constructor
  · intro h
    have e : a.toInt * (10 : Int) ^ b.scale = b.toInt * (10 : Int) ^ a.scale := by simpa [Dec.eqv] using h
    apply Rat.le_antisymm
    · apply h1.mp; simp [Dec.le, e]
    · apply h2.mp; simp [Dec.le, e]
  · intro h
    have e1 := h1.mpr (by rw [h]; exact Rat.le_refl)
    have e2 := h2.mpr (by rw [h]; exact Rat.le_refl)
    simp only [Dec.le, decide_eq_true_eq] at e1 e2
    simp only [Dec.eqv, beq_iff_eq]
    omega

theorem ofInt_toInt (i : Int) : (Dec.ofInt i).toInt = i := by
  unfold Dec.ofInt Dec.toInt
  by_cases h : i < 0 <;> simp [h] <;> omega

theorem ofInt_toRat (i : Int) : (Dec.ofInt i).toRat = (i : Rat) := by
  unfold Dec.toRat
  rw [ofInt_toInt]
  have h := Rat.mul_div_cancel (a := (i : Rat)) (b := 1) (by decide)
  rw [Rat.mul_one] at h
  simpa [Dec.ofInt] using h

theorem rat_add_div (A B T : Rat) (hT : T ≠ 0) : (A * T + B) / T = A + B / T := by
  rw [Rat.div_def, Rat.add_mul, ← Rat.div_def, ← Rat.div_def, Rat.mul_div_cancel hT]

/-- the value of a literal with integer digits `ip` and fraction digits `fp` is
    ±(ip as a numeral + fp as a numeral / 10^|fp|) -/
theorem dec_value (neg : Bool) (ip fp : Str) :
    Dec.toRat ⟨neg, posVal (ip ++ fp), fp.length⟩ =
      (if neg then -1 else 1) * ((posVal ip : Rat) + (posVal fp : Rat) / (10 : Rat) ^ fp.length) := by
  have hT : (10 : Rat) ^ fp.length ≠ 0 := Rat.ne_of_gt (ten_pow_pos _)
  have key : ((posVal (ip ++ fp) : Nat) : Rat) / (10 : Rat) ^ fp.length =
      (posVal ip : Rat) + (posVal fp : Rat) / (10 : Rat) ^ fp.length := by
    rw [posVal_append, Rat.natCast_add, Rat.natCast_mul, Rat.natCast_pow]
    exact rat_add_div _ _ _ hT
  unfold Dec.toRat Dec.toInt
  cases neg
  · simp only [Bool.false_eq_true, if_false, Rat.intCast_natCast, key, Rat.one_mul]
  · simp only [if_true, Rat.intCast_neg, Rat.intCast_natCast, Rat.div_def, Rat.neg_mul] at key ⊢
    rw [key, Rat.one_mul]

/-! ### encode then decode -/

/-- `decimal_to_python(python_to_decimal(d)) = d`: same sign (also of a negative zero), coefficient and exponent -/
theorem parseDec_decPlain (d : Dec) : parseDec (decPlain d) = some d := by
  rw [parseDec_iff']
  have hc := posVal_natDigits d.coef
  obtain ⟨-, hne, hd⟩ := natDigits_spec d.coef
  have hsg : d = ⟨decide ((if d.neg then ['-'] else []) = ['-']), d.coef, d.scale⟩ := by
    cases d with | mk n c s => cases n <;> simp
  unfold decPlain decPlainAbs
  by_cases h1 : d.scale = 0
  · rw [if_pos h1]
    refine ⟨_, _, natDigits d.coef, [], rfl, by cases d.neg <;> simp, ⟨hd, by simp, Or.inl ⟨rfl, rfl, hne⟩⟩, ?_⟩
    rw [List.append_nil, hc, List.length_nil, ← h1]; exact hsg
  · rw [if_neg h1]
    by_cases h2 : (natDigits d.coef).length > d.scale
    · rw [if_pos h2]
      refine ⟨_, _, (natDigits d.coef).take ((natDigits d.coef).length - d.scale),
        (natDigits d.coef).drop ((natDigits d.coef).length - d.scale), rfl, by cases d.neg <;> simp,
        ⟨fun c hx => hd c (List.mem_of_mem_take hx), fun c hx => hd c (List.mem_of_mem_drop hx),
          Or.inr ⟨rfl, Or.inl ?_⟩⟩, ?_⟩
      · intro e
        have := congrArg List.length e
        simp only [List.length_take, List.length_nil] at this
        omega
      · rw [List.take_append_drop, hc, List.length_drop,
          show (natDigits d.coef).length - ((natDigits d.coef).length - d.scale) = d.scale by omega]
        exact hsg
    · rw [if_neg h2]
      refine ⟨_, _, ['0'], List.replicate (d.scale - (natDigits d.coef).length) '0' ++ natDigits d.coef, rfl,
        by cases d.neg <;> simp, ⟨by simp; decide, ?_, Or.inr ⟨rfl, Or.inl (by simp)⟩⟩, ?_⟩
      · intro c hx
        rcases List.mem_append.mp hx with hx | hx
        · rw [(List.mem_replicate.mp hx).2]; decide
        · exact hd c hx
      · rw [posVal_append, posVal_append, posVal_replicate_zero, hc, List.length_append, List.length_replicate,
          show d.scale - (natDigits d.coef).length + (natDigits d.coef).length = d.scale by omega]
        simp only [posVal, digVal, List.length_nil, Nat.pow_zero]
        simp

theorem lookupBool_encBool (table : List (String × Bool))
    (h : table = [("false", false), ("0", false), ("true", true), ("1", true)]) (b : Bool) :
    lookupBool table (encBool b) = some b := by
  subst h; cases b <;> decide

end XsVerif.Datatypes
