import XsVerif.Model.Localise
/-
  Helper lemmas for the fault-localisation theorems of C19 (Props/C19.lean).
-/
namespace XsVerif.Localise
variable {D E : Type}

theorem under_eq_nil {j : Nat} {l : List (Located E)} : under j l = [] ↔ l = [] := by
  simp [under]

theorem here_eq_nil {l : List E} : here l = [] ↔ l = [] := by
  simp [here]

theorem below_nil (l : List (Located E)) : below [] l = l := by
  simp [below]

theorem under_below (j : Nat) (p : List Nat) (l : List (Located E)) :
    under j (below p l) = below (j :: p) l := by
  simp [under, below, List.map_map, Function.comp_def]

theorem errs_node (v : Val D E) (d : D) (tg : String) (a : Attrs) (tx : String) (cs : List Doc) :
    errs v d (.node tg a tx cs) =
      here (v.pre d tg a tx (names cs)) ++ errsKids v d a (names cs) 0 cs ++ here (v.post d tg a tx (names cs)) := by
  simp [errs]

theorem errsKids_append (v : Val D E) (d : D) (a : Attrs) (ns : List String) (l r : List Doc) (j : Nat) :
    errsKids v d a ns j (l ++ r) = errsKids v d a ns j l ++ errsKids v d a ns (j + l.length) r := by
  induction l generalizing j with
  | nil => simp [errsKids]
  | cons c cs ih =>
    simp only [List.cons_append, errsKids, ih, List.length_cons, List.append_assoc]
    have : j + 1 + cs.length = j + (cs.length + 1) := by omega
    rw [this]

/-- in a run without errors every child that is descended into is itself without errors -/
theorem errsKids_nil_get (v : Val D E) (d : D) (a : Attrs) (ns : List String) (cs : List Doc) (j i : Nat)
    (c : Doc) (d' : D) (h : errsKids v d a ns j cs = []) (hc : cs[i]? = some c)
    (hg : v.gov d a ns (j + i) = some d') : errs v d' c = [] := by
  induction cs generalizing j i with
  | nil => simp at hc
  | cons x xs ih =>
    simp only [errsKids, List.append_eq_nil_iff] at h
    cases i with
    | zero =>
      simp only [List.getElem?_cons_zero, Option.some.injEq] at hc
      subst hc
      simp only [Nat.add_zero] at hg
      have h1 := h.1
      rw [hg] at h1
      exact under_eq_nil.mp h1
    | succ i =>
      simp only [List.getElem?_cons_succ] at hc
      have e : j + (i + 1) = j + 1 + i := by omega
      rw [e] at hg
      exact ih (j + 1) i h.2 hc hg

/-- replacing one child in a run without errors leaves exactly the errors of the new child -/
theorem errsKids_set (v : Val D E) (d : D) (a : Attrs) (ns : List String) (cs : List Doc) (j i : Nat)
    (c c' : Doc) (d' : D) (h : errsKids v d a ns j cs = []) (hc : cs[i]? = some c)
    (hg : v.gov d a ns (j + i) = some d') :
    errsKids v d a ns j (cs.set i c') = under (j + i) (errs v d' c') := by
  induction cs generalizing j i with
  | nil => simp at hc
  | cons x xs ih =>
    simp only [errsKids, List.append_eq_nil_iff] at h
    cases i with
    | zero =>
      simp only [Nat.add_zero] at hg
      simp only [List.set_cons_zero, errsKids, hg, h.2, List.append_nil, Nat.add_zero]
    | succ i =>
      simp only [List.getElem?_cons_succ] at hc
      have e : j + (i + 1) = j + 1 + i := by omega
      rw [e] at hg ⊢
      simp only [List.set_cons_succ, errsKids, h.1, List.nil_append]
      exact ih (j + 1) i h.2 hc hg

theorem names_set (cs : List Doc) (i : Nat) (c c' : Doc) (hc : cs[i]? = some c) (ht : c'.tag = c.tag) :
    names (cs.set i c') = names cs := by
  induction cs generalizing i with
  | nil => rfl
  | cons x xs ih =>
    cases i with
    | zero =>
      simp only [List.getElem?_cons_zero, Option.some.injEq] at hc
      subst hc
      simp [names, ht]
    | succ i =>
      simp only [List.getElem?_cons_succ] at hc
      have := ih i hc
      simp only [names] at this
      simp [names, this]

theorem editAt_tag (v : Val D E) (f : Doc → Doc) (d : D) (t : Doc) (p : List Nat) (dp : D) (sub : Doc)
    (hr : reach v d t p = some (dp, sub)) (ht : (f sub).tag = sub.tag) : (editAt f t p).tag = t.tag := by
  cases p with
  | nil =>
    simp only [reach, Option.some.injEq, Prod.mk.injEq] at hr
    rw [← hr.2] at ht
    simpa [editAt] using ht
  | cons i is => cases t; simp [editAt, Doc.tag]

/-- **The core of locality**: editing the subtree at a governed position of a document without errors (keeping
    the tag of its root) yields exactly the errors of the edited subtree under its governing declaration, moved
    below that position. -/
theorem errs_editAt (v : Val D E) (f : Doc → Doc) (d : D) (t : Doc) (p : List Nat) (dp : D) (sub : Doc)
    (hv : errs v d t = []) (hr : reach v d t p = some (dp, sub)) (ht : (f sub).tag = sub.tag) :
    errs v d (editAt f t p) = below p (errs v dp (f sub)) := by
  induction p generalizing d t with
  | nil =>
    simp only [reach, Option.some.injEq, Prod.mk.injEq] at hr
    obtain ⟨rfl, rfl⟩ := hr
    simp [editAt, below_nil]
  | cons i is ih =>
    obtain ⟨tg, a, tx, cs⟩ := t
    simp only [reach] at hr
    cases hc : cs[i]? with
    | none => simp [hc] at hr
    | some c =>
      cases hg : v.gov d a (names cs) i with
      | none => simp [hc, hg] at hr
      | some d' =>
        simp only [hc, hg] at hr
        rw [errs_node] at hv
        simp only [List.append_eq_nil_iff, here_eq_nil] at hv
        obtain ⟨⟨hpre, hk⟩, hpost⟩ := hv
        have hg0 : v.gov d a (names cs) (0 + i) = some d' := by simpa using hg
        have hcv : errs v d' c = [] := errsKids_nil_get v d a (names cs) cs 0 i c d' hk hc hg0
        have htag : (editAt f c is).tag = c.tag := editAt_tag v f d' c is dp sub hr ht
        have hn : names (cs.set i (editAt f c is)) = names cs := names_set cs i c _ hc htag
        simp only [editAt, hc, errs_node, hn, hpre, hpost, here, List.map_nil, List.nil_append, List.append_nil]
        rw [errsKids_set v d a (names cs) cs 0 i c _ d' hk hc hg0, ih d' c hcv hr, under_below]
        simp

/-- the declaration of a child depends only on the parent's declaration, the parent's attributes and the
    child's own name — not on its position or on its siblings (the modelling assumption behind clause (c)) -/
def GovLocal (v : Val D E) : Prop :=
  ∀ d a (ns ns' : List String) (j j' : Nat) (x : String),
    ns[j]? = some x → ns'[j']? = some x → v.gov d a ns j = v.gov d a ns' j'

theorem names_getElem? (cs : List Doc) (k : Nat) : (names cs)[k]? = (cs[k]?).map Doc.tag := by
  simp [names]

/-- children that already were children of an element validated without errors stay without errors wherever they
    are put, when the choice of the declaration is local -/
theorem errsKids_old_nil (v : Val D E) (hl : GovLocal v) (d : D) (a : Attrs) (cs : List Doc)
    (hk : errsKids v d a (names cs) 0 cs = []) (ns' : List String) (l : List Doc) (j : Nat)
    (hn : ∀ k x, l[k]? = some x → ns'[j + k]? = some x.tag) (hm : ∀ x ∈ l, x ∈ cs) :
    errsKids v d a ns' j l = [] := by
  induction l generalizing j with
  | nil => rfl
  | cons x xs ih =>
    simp only [errsKids, List.append_eq_nil_iff]
    constructor
    · cases hg : v.gov d a ns' j with
      | none => rfl
      | some d' =>
        simp only [under_eq_nil]
        have hx : x ∈ cs := hm x List.mem_cons_self
        obtain ⟨k0, hk0⟩ := List.getElem?_of_mem hx
        have h1 : (names cs)[k0]? = some x.tag := by rw [names_getElem?, hk0]; rfl
        have h2 : ns'[j]? = some x.tag := by simpa using hn 0 x (by simp)
        have hg' : v.gov d a (names cs) (0 + k0) = some d' := by
          rw [Nat.zero_add, hl d a (names cs) ns' k0 j x.tag h1 h2, hg]
        exact errsKids_nil_get v d a (names cs) cs 0 k0 x d' hk hk0 hg'
    · apply ih (j + 1)
      · intro k y hy
        have := hn (k + 1) y (by simpa using hy)
        have e : j + (k + 1) = j + 1 + k := by omega
        rwa [e] at this
      · intro y hy
        exact hm y (List.mem_cons_of_mem _ hy)

/-! ### positions of errors are positions of the document -/

/-- a position of the document (every index within the children on the way down) -/
def IsPos : Doc → List Nat → Prop
  | _, [] => True
  | .node _ _ _ cs, i :: is => ∃ c, cs[i]? = some c ∧ IsPos c is

theorem errsKids_pos (v : Val D E) (d : D) (a : Attrs) (ns : List String) (cs : List Doc) (j : Nat)
    (ih : ∀ c ∈ cs, ∀ d' e, e ∈ errs v d' c → IsPos c e.1) (e : Located E)
    (he : e ∈ errsKids v d a ns j cs) : ∃ i c rest, cs[i]? = some c ∧ e.1 = (j + i) :: rest ∧ IsPos c rest := by
  induction cs generalizing j with
  | nil => simp [errsKids] at he
  | cons x xs ihx =>
    simp only [errsKids, List.mem_append] at he
    rcases he with he | he
    · cases hg : v.gov d a ns j with
      | none => simp [hg] at he
      | some d' =>
        simp only [hg, under, List.mem_map] at he
        obtain ⟨e0, he0, rfl⟩ := he
        exact ⟨0, x, e0.1, by simp, by simp, ih x List.mem_cons_self d' e0 he0⟩
    · obtain ⟨i, c, rest, hc, hp, hpos⟩ :=
        ihx (j + 1) (fun c hc => ih c (List.mem_cons_of_mem _ hc)) he
      refine ⟨i + 1, c, rest, by simpa using hc, ?_, hpos⟩
      rw [hp]; congr 1; omega

/- every error is located at a position of the validated document -/
mutual
theorem errs_pos (v : Val D E) : ∀ (t : Doc) (d : D) (e : Located E), e ∈ errs v d t → IsPos t e.1
  | .node tg a tx cs, d, e, he => by
    rw [errs_node] at he
    simp only [List.mem_append] at he
    rcases he with (he | he) | he
    · simp only [here, List.mem_map] at he
      obtain ⟨_, _, rfl⟩ := he
      trivial
    · obtain ⟨i, c, rest, hc, hp, hpos⟩ := errsKids_pos' v cs d a (names cs) 0 e he
      rw [hp]
      exact ⟨c, by simpa using hc, hpos⟩
    · simp only [here, List.mem_map] at he
      obtain ⟨_, _, rfl⟩ := he
      trivial
theorem errsKids_pos' (v : Val D E) : ∀ (cs : List Doc) (d : D) (a : Attrs) (ns : List String) (j : Nat)
    (e : Located E), e ∈ errsKids v d a ns j cs →
    ∃ i c rest, cs[i]? = some c ∧ e.1 = (j + i) :: rest ∧ IsPos c rest
  | [], d, a, ns, j, e, he => by simp [errsKids] at he
  | x :: xs, d, a, ns, j, e, he => by
    simp only [errsKids, List.mem_append] at he
    rcases he with he | he
    · cases hg : v.gov d a ns j with
      | none => simp [hg] at he
      | some d' =>
        simp only [hg, under, List.mem_map] at he
        obtain ⟨e0, he0, rfl⟩ := he
        exact ⟨0, x, e0.1, by simp, by simp, errs_pos v x d' e0 he0⟩
    · obtain ⟨i, c, rest, hc, hp, hpos⟩ := errsKids_pos' v xs d a ns (j + 1) e he
      refine ⟨i + 1, c, rest, by simpa using hc, ?_, hpos⟩
      rw [hp]; congr 1; omega
end

/-- the subtree at a governed position of a document without errors is without errors -/
theorem reach_valid (v : Val D E) (d : D) (t : Doc) (p : List Nat) (dp : D) (sub : Doc)
    (hv : errs v d t = []) (hr : reach v d t p = some (dp, sub)) : errs v dp sub = [] := by
  induction p generalizing d t with
  | nil =>
    simp only [reach, Option.some.injEq, Prod.mk.injEq] at hr
    obtain ⟨rfl, rfl⟩ := hr
    exact hv
  | cons i is ih =>
    obtain ⟨tg, a, tx, cs⟩ := t
    simp only [reach] at hr
    cases hc : cs[i]? with
    | none => simp [hc] at hr
    | some c =>
      cases hg : v.gov d a (names cs) i with
      | none => simp [hc, hg] at hr
      | some d' =>
        simp only [hc, hg] at hr
        rw [errs_node] at hv
        simp only [List.append_eq_nil_iff, here_eq_nil] at hv
        have hg0 : v.gov d a (names cs) (0 + i) = some d' := by simpa using hg
        exact ih d' c (errsKids_nil_get v d a (names cs) cs 0 i c d' hv.1.2 hc hg0) hr

theorem errsKids_congr_gov (v : Val D E) (d : D) (a a' : Attrs) (ns : List String) (cs : List Doc) (j : Nat)
    (h : ∀ k, v.gov d a' ns k = v.gov d a ns k) : errsKids v d a' ns j cs = errsKids v d a ns j cs := by
  induction cs generalizing j with
  | nil => rfl
  | cons x xs ih => simp only [errsKids, h, ih]

theorem mem_below {p : List Nat} {l : List (Located E)} {e : Located E} (he : e ∈ below p l) :
    ∃ e0 ∈ l, e = (p ++ e0.1, e0.2) := by
  simp only [below, List.mem_map] at he
  obtain ⟨e0, h0, rfl⟩ := he
  exact ⟨e0, h0, rfl⟩

theorem mem_here {l : List E} {e : Located E} (he : e ∈ here l) : e.1 = [] := by
  simp only [here, List.mem_map] at he
  obtain ⟨_, _, rfl⟩ := he
  rfl

theorem exists_here_of_own (v : Val D E) (d : D) (tg : String) (a : Attrs) (tx : String) (ns : List String)
    (mid : List (Located E)) (h : own v d tg a tx ns ≠ []) :
    ∃ e ∈ here (v.pre d tg a tx ns) ++ mid ++ here (v.post d tg a tx ns), e.1 = [] := by
  unfold own at h
  cases hp : v.pre d tg a tx ns with
  | cons x xs => exact ⟨([], x), by simp [here], rfl⟩
  | nil =>
    cases hq : v.post d tg a tx ns with
    | cons y ys => exact ⟨([], y), by simp [here], rfl⟩
    | nil => simp [hp, hq] at h

/-! ### lazy states are prefix cuts of the document -/
open XsVerif.Paths

mutual
theorem pre_refl : ∀ t : T, pre t t = true
  | .node tg cs => by simp [pre, preF_refl cs]
theorem preF_refl : ∀ cs : List T, preF cs cs = true
  | [] => by simp [preF]
  | c :: cs => by simp [preF, pre_refl c, preF_refl cs]
end

mutual
theorem pre_trans : ∀ (a b c : T), pre a b = true → pre b c = true → pre a c = true
  | .node ta ca, .node tb cb, .node tc cc, h1, h2 => by
    simp only [pre, Bool.and_eq_true, beq_iff_eq] at h1 h2 ⊢
    exact ⟨h1.1.trans h2.1, preF_trans ca cb cc h1.2 h2.2⟩
theorem preF_trans : ∀ (a b c : List T), preF a b = true → preF b c = true → preF a c = true
  | [], _, _, _, _ => by simp [preF]
  | _ :: _, [], _, h1, _ => by simp [preF] at h1
  | _ :: _, _ :: _, [], _, h2 => by simp [preF] at h2
  | x :: xs, y :: ys, z :: zs, h1, h2 => by
    simp only [preF, Bool.and_eq_true] at h1 h2 ⊢
    exact ⟨pre_trans x y z h1.1 h2.1, preF_trans xs ys zs h1.2 h2.2⟩
end

theorem preF_nil (cs : List T) : preF [] cs = true := by simp [preF]

mutual
theorem started_pre : ∀ (t : T) (n : Nat) (t' : T) (m : Nat), started n t = (some t', m) → pre t' t = true
  | .node tg cs, 0, t', m, h => by simp [started] at h
  | .node tg cs, n + 1, t', m, h => by
    simp only [started, Prod.mk.injEq, Option.some.injEq] at h
    obtain ⟨rfl, _⟩ := h
    simp [pre, startedF_pre cs n]
theorem startedF_pre : ∀ (cs : List T) (n : Nat), preF (startedF n cs).1 cs = true
  | [], n => by simp [startedF, preF]
  | c :: cs, n => by
    simp only [startedF]
    cases hs : started n c with
    | mk o m =>
      cases o with
      | none => simp [preF]
      | some c' =>
        simp only [preF, Bool.and_eq_true]
        exact ⟨started_pre c n c' m hs, startedF_pre cs m⟩
end

mutual
theorem cleared_pre : ∀ (t : T) (k done : Nat), pre (cleared k done t).1 t = true
  | .node tg cs, 0, done => by
    simp only [cleared]
    split
    · exact pre_refl _
    · simp [pre, preF]
  | .node tg cs, k + 1, done => by
    simp [cleared, pre, clearedF_pre cs k done]
theorem clearedF_pre : ∀ (cs : List T) (k done : Nat), preF (clearedF k done cs).1 cs = true
  | [], k, done => by simp [clearedF, preF]
  | c :: cs, k, done => by
    simp only [clearedF, preF, Bool.and_eq_true]
    exact ⟨cleared_pre c k done, clearedF_pre cs k _⟩
end

theorem lazyState_pre (k done n : Nat) (t t' : T) (h : lazyState k done n t = some t') : pre t' t = true := by
  unfold lazyState at h
  cases hs : started n (cleared k done t).1 with
  | mk o m =>
    rw [hs] at h
    simp only at h
    subst h
    exact pre_trans _ _ _ (started_pre _ n t' m hs) (cleared_pre t k done)

/-- the same-name children of a prefix cut are a prefix of the same-name children -/
theorem idxOf_preF (name : String) : ∀ (cs' cs : List T) (k : Nat), preF cs' cs = true →
    ∃ C, idxOf name cs k = idxOf name cs' k ++ C
  | [], cs, k, _ => ⟨idxOf name cs k, by simp [idxOf]⟩
  | _ :: _, [], _, h => by simp [preF] at h
  | .node t' c' :: xs, .node t c :: ys, k, h => by
    simp only [preF, pre, Bool.and_eq_true, beq_iff_eq] at h
    obtain ⟨C, hC⟩ := idxOf_preF name xs ys (k + 1) h.2
    obtain ⟨⟨rfl, _⟩, _⟩ := h
    simp only [idxOf, T.tag]
    by_cases hn : t' = name
    · exact ⟨C, by simp [hn, hC]⟩
    · exact ⟨C, by simp [hn, hC]⟩

theorem preF_get : ∀ (cs' cs : List T) (i : Nat) (c' : T), preF cs' cs = true → cs'[i]? = some c' →
    ∃ c, cs[i]? = some c ∧ pre c' c = true
  | [], _, _, _, _, h => by simp at h
  | _ :: _, [], _, _, h, _ => by simp [preF] at h
  | x :: xs, y :: ys, 0, c', h, hc => by
    simp only [preF, Bool.and_eq_true] at h
    simp only [List.getElem?_cons_zero, Option.some.injEq] at hc
    subst hc
    exact ⟨y, by simp, h.1⟩
  | x :: xs, y :: ys, i + 1, c', h, hc => by
    simp only [preF, Bool.and_eq_true] at h
    simp only [List.getElem?_cons_succ] at hc ⊢
    exact preF_get xs ys i c' h.2 hc

end XsVerif.Localise
