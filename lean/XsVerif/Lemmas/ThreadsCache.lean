/-
  Helper lemmas for the cache / scratch models (Model/ThreadsCache.lean).
-/
import XsVerif.Model.ThreadsCache
import XsVerif.Lemmas.Threads

namespace XsVerif.Threads.Cache
open XsVerif.Threads

variable {K V : Type}

/-- every entry of the store is the value of the function -/
def Sound (f : K → V) (m : Store K V) : Prop := ∀ k v, m k = some v → v = f k

theorem sound_empty (f : K → V) : Sound f (empty : Store K V) := by
  intro k v h; simp [empty] at h

theorem sound_put [DecidableEq K] (f : K → V) (m : Store K V) (k : K) (h : Sound f m) :
    Sound f (put k (f k) m) := by
  intro x v hx
  simp only [put] at hx
  split at hx
  · rename_i he; subst he; simp only [Option.some.injEq] at hx; exact hx.symm
  · exact h x v hx

theorem sound_del [DecidableEq K] (f : K → V) (m : Store K V) (k : K) (h : Sound f m) :
    Sound f (del k m) := by
  intro x v hx
  simp only [del] at hx
  split at hx
  · simp at hx
  · exact h x v hx

def PcOk (f : K → V) : PC K V → Prop
  | .store k v => v = f k
  | _ => True

def pend : PC K V → List K
  | .idle => []
  | .look k => [k]
  | .compute k _ => [k]
  | .store k _ => [k]

structure TOk (f : K → V) (prog : List (Op K)) (th : Th K V) : Prop where
  pc : PcOk f th.pc
  rets : ∀ x, x ∈ th.rets → x.2 = f x.1
  order : th.rets.map Prod.fst ++ pend th.pc ++ calls th.ops = calls prog

theorem rets_snoc (f : K → V) (l : List (K × V)) (k : K) (v : V) (h : ∀ x, x ∈ l → x.2 = f x.1) (hv : v = f k) :
    ∀ x, x ∈ l ++ [(k, v)] → x.2 = f x.1 := by
  intro x hx
  simp only [List.mem_append, List.mem_singleton] at hx
  rcases hx with hx | hx
  · exact h x hx
  · subst hx; exact hv

theorem stepTh_ok [DecidableEq K] (f : K → V) (prog : List (Op K)) (m : Store K V) (th : Th K V)
    (hm : Sound f m) (ht : TOk f prog th) :
    Sound f (stepTh f m th).1 ∧ TOk f prog (stepTh f m th).2 := by
  obtain ⟨hpc, hrets, hord⟩ := ht
  unfold stepTh
  split
  · rename_i hp
    rw [hp] at hord
    split
    · exact ⟨hm, ⟨by rw [hp]; trivial, hrets, by rw [hp]; exact hord⟩⟩
    · rename_i k r ho
      rw [ho] at hord
      exact ⟨hm, ⟨trivial, hrets, by simpa [pend, calls] using hord⟩⟩
    · rename_i k r ho
      rw [ho] at hord
      exact ⟨hm, ⟨trivial, hrets, by simpa [pend, calls] using hord⟩⟩
    · rename_i r ho
      rw [ho] at hord
      exact ⟨sound_empty f, ⟨by rw [hp]; trivial, hrets, by rw [hp]; simpa [pend, calls] using hord⟩⟩
    · rename_i k r ho
      rw [ho] at hord
      exact ⟨sound_del f m k hm, ⟨by rw [hp]; trivial, hrets, by rw [hp]; simpa [pend, calls] using hord⟩⟩
  · rename_i k hp
    rw [hp] at hord
    split
    · rename_i v hv
      refine ⟨hm, ⟨trivial, rets_snoc f _ k v hrets (hm k v hv), ?_⟩⟩
      simpa [pend] using hord
    · exact ⟨hm, ⟨trivial, hrets, by simpa [pend] using hord⟩⟩
  · rename_i k cached hp
    rw [hp] at hord
    split
    · exact ⟨hm, ⟨rfl, hrets, by simpa [pend] using hord⟩⟩
    · exact ⟨hm, ⟨trivial, rets_snoc f _ k _ hrets rfl, by simpa [pend] using hord⟩⟩
  · rename_i k v hp
    rw [hp] at hord hpc
    have hv : v = f k := hpc
    subst hv
    exact ⟨sound_put f m k hm, ⟨trivial, rets_snoc f _ k _ hrets rfl, by simpa [pend] using hord⟩⟩

structure CInv [DecidableEq K] (f : K → V) (prog : Nat → List (Op K)) (c : Cfg K V) : Prop where
  memo : Sound f c.memo
  ths : ∀ t, TOk f (prog t) (c.th t)

theorem cinv_step [DecidableEq K] (f : K → V) (prog : Nat → List (Op K)) (t : Nat) (c : Cfg K V)
    (h : CInv f prog c) : CInv f prog (step f t c) := by
  have h1 := stepTh_ok f (prog t) c.memo (c.th t) h.memo (h.ths t)
  refine ⟨h1.1, ?_⟩
  intro x
  by_cases hx : x = t
  · subst hx; simp only [step, upd_same]; exact h1.2
  · simp only [step, upd_other _ _ _ _ hx]; exact h.ths x

theorem cinv_exec [DecidableEq K] (f : K → V) (prog : Nat → List (Op K)) (sched : List Nat) :
    ∀ c, CInv f prog c → CInv f prog (exec f sched c) := by
  induction sched with
  | nil => intro c h; exact h
  | cons t ts ih => intro c h; exact ih _ (cinv_step f prog t c h)

theorem cinv_init [DecidableEq K] (f : K → V) (m₀ : Store K V) (h₀ : Sound f m₀) (prog : Nat → List (Op K)) :
    CInv f prog (init m₀ prog) :=
  ⟨h₀, fun _ => ⟨trivial, by simp [init], by simp [init, pend]⟩⟩

theorem rets_eq_of_sound (f : K → V) : ∀ l : List (K × V), (∀ x, x ∈ l → x.2 = f x.1) →
    l = (l.map Prod.fst).map (fun k => (k, f k)) := by
  intro l
  induction l with
  | nil => intro _; rfl
  | cons a r ih =>
    intro h
    have ha := h a (List.mem_cons_self ..)
    have hr := ih (fun x hx => h x (List.mem_cons_of_mem _ hx))
    simp only [List.map_cons]
    rw [← hr, ← ha]

/-! ### idempotent deterministic writes commute -/

theorem put_comm [DecidableEq K] (f : K → V) (k k' : K) (s : Store K V) :
    put k (f k) (put k' (f k') s) = put k' (f k') (put k (f k) s) := by
  funext x
  simp only [put]
  by_cases h1 : x = k
  · subst h1
    by_cases h2 : x = k'
    · subst h2; simp
    · simp [h2]
  · by_cases h2 : x = k'
    · subst h2; simp [h1]
    · simp [h1, h2]

theorem put_idem [DecidableEq K] (k : K) (v : V) (s : Store K V) : put k v (put k v s) = put k v s := by
  funext x
  simp only [put]
  split <;> rfl

theorem puts_apply [DecidableEq K] (f : K → V) (l : List K) : ∀ (s : Store K V) (x : K),
    puts f l s x = if x ∈ l then some (f x) else s x := by
  induction l with
  | nil => intro s x; simp [puts]
  | cons a r ih =>
    intro s x
    have := ih (put a (f a) s) x
    simp only [puts, List.foldl_cons] at this ⊢
    rw [this]
    by_cases hr : x ∈ r
    · simp [hr]
    · by_cases ha : x = a
      · subst ha; simp [put]
      · simp [hr, ha, put]

/-! ### scratch context -/

def SPcOk (u : SUser) : SPC → Prop
  | .fin v _ => v = u.val
  | _ => True

theorem sstep_ok (user : Nat → SUser) (t : Nat) (c : SCfg) (h : ∀ x, SPcOk (user x) (c.pc x)) :
    ∀ x, SPcOk (user x) ((sstep user t c).pc x) := by
  have key : ∀ (sc : Scratch) (p : SPC), SPcOk (user t) p →
      ∀ x, SPcOk (user x) (({ sc := sc, pc := upd c.pc t p } : SCfg).pc x) := by
    intro sc p hp x
    by_cases hx : x = t
    · subst hx; simp only [upd_same]; exact hp
    · simp only [upd_other _ _ _ _ hx]; exact h x
  unfold sstep
  simp only
  split
  · exact key _ _ trivial
  · exact key _ _ trivial
  · split
    · exact key _ _ trivial
    · exact key _ _ trivial
  · exact key _ _ trivial
  · exact key _ _ trivial
  · exact key _ _ trivial
  · split
    · exact key _ _ trivial
    · exact key _ _ rfl
  · exact key _ _ rfl
  · exact h

theorem sexec_ok (user : Nat → SUser) (sched : List Nat) :
    ∀ c : SCfg, (∀ x, SPcOk (user x) (c.pc x)) → ∀ x, SPcOk (user x) ((sexec user sched c).pc x) := by
  induction sched with
  | nil => intro c h; exact h
  | cons t ts ih => intro c h; exact ih _ (sstep_ok user t c h)

/-! ### per-call evaluation context -/

structure XOk (prog : List Nat) (cellv : Nat) (th : XTh) : Prop where
  order : th.res ++ (match th.pc with
      | .idle => []
      | .store v => [v]
      | .eval _ => [cellv]
      | .read => [cellv]) ++ th.vals = prog

theorem xstep_ok (gap : Nat) (prog : Nat → List Nat) (t : Nat) (c : XCfg)
    (h : ∀ x, XOk (prog x) (c.cell (x + 1)) (c.th x)) :
    ∀ x, XOk (prog x) ((xstep false gap t c).cell (x + 1)) ((xstep false gap t c).th x) := by
  intro x
  have ht := (h t).order
  by_cases hx : x = t
  · subst hx
    unfold xstep
    simp only [Bool.false_eq_true, if_false]
    split
    · split
      · exact h x
      · rename_i hp _ v r hv
        rw [hp, hv] at ht
        exact ⟨by simpa [upd] using ht⟩
    · rename_i v hp
      rw [hp] at ht
      exact ⟨by simpa [upd] using ht⟩
    · rename_i k hp
      rw [hp] at ht
      exact ⟨by simpa [upd] using ht⟩
    · rename_i hp
      rw [hp] at ht
      exact ⟨by simpa [upd] using ht⟩
    · rename_i hp
      rw [hp] at ht
      exact ⟨by simpa [upd] using ht⟩
  · have hne : x + 1 ≠ t + 1 := by omega
    have hcell : (xstep false gap t c).cell (x + 1) = c.cell (x + 1) := by
      unfold xstep
      simp only [Bool.false_eq_true, if_false]
      split
      · split <;> rfl
      · simp [upd, hx]
      · rfl
      · rfl
      · rfl
    have hth : (xstep false gap t c).th x = c.th x := by
      unfold xstep
      simp only [Bool.false_eq_true, if_false]
      split
      · split
        · rfl
        · simp [upd, hx]
      · simp [upd, hx]
      · simp [upd, hx]
      · simp [upd, hx]
      · simp [upd, hx]
    rw [hcell, hth]
    exact h x

theorem xexec_ok (gap : Nat) (prog : Nat → List Nat) (sched : List Nat) :
    ∀ c : XCfg, (∀ x, XOk (prog x) (c.cell (x + 1)) (c.th x)) →
      ∀ x, XOk (prog x) ((xexec false gap sched c).cell (x + 1)) ((xexec false gap sched c).th x) := by
  induction sched with
  | nil => intro c h; exact h
  | cons t ts ih => intro c h; exact ih _ (xstep_ok gap prog t c h)

end XsVerif.Threads.Cache
