/-
  DataElementConverter: one-level round trip (element_encode ∘ element_decode).
-/
import XsVerif.Lemmas.Tree
import XsVerif.Model.DataElement

namespace XsVerif.Conv.DE
open XsVerif.Conv

/-- shape of the content that `XsdGroup.raw_decode` produces (groups.py:983-1075) as far as this converter
    depends on it: character data parts are not `None`, two parts are never adjacent (the decoder merges
    them, groups.py:1069-1071) … -/
def altOk {α : Type} : Bool → List (Item α) → Bool
  | _, [] => true
  | prevCd, .cdata _ v :: r => !prevCd && !v.isNull && altOk true r
  | _, .child _ _ _ :: r => altOk false r

def hasChild {α : Type} : List (Item α) → Bool
  | [] => false
  | .cdata _ _ :: r => hasChild r
  | .child _ _ _ :: _ => true

/-- what `element_decode` may be given for a valid element (one level) -/
structure WF1 {α : Type} (m : Mapper) (f : Facts) (hd : Hd) (its : List (Item α)) : Prop where
  attrsUm : ∀ kv ∈ hd.attrs, m.umA (m.mpA kv.1) = kv.1
  attrsNodup : ((hd.attrs.map fun kv => (m.mpA kv.1, kv.2)).map (·.1)).Nodup
  attrsNodup' : (hd.attrs.map (·.1)).Nodup
  textOk : ∀ t, hd.text = some t → t.isNull = false
  textAlone : hd.text.isSome = true → its = []
  noGroup : f.hasGroup = false → its = []
  /-- … and a lone character data part is handed over as `text` (elements.py:757-758) -/
  notAlone : its = [] ∨ hasChild its = true
  alt : altOk false its = true
  kidsName : ∀ nm s v, Item.child nm s v ∈ its → isDigits (m.mp nm) = false

/-- every converted child is a DataElement carrying its own (extended) name and no tail yet -/
def Inv (nm : String) (v : J) : Prop := ∃ value attrib kids xmlns, v = .elem nm value attrib kids .null xmlns

def Kids (its : List (Item J)) : Prop := ∀ nm s v, Item.child nm s v ∈ its → Inv nm v

/-- a child comes back from `element_encode` with the tail that `element_decode` attached to it -/
def R (v v' : J) : Prop := v' = v ∨ ∃ t, v' = setTail t v

/-- `norm1`: cdata parts renumbered from 1, `single` flags cleared -/
def norm1 {α : Type} (_f : Facts) (hd : Hd) (its : List (Item α)) : Hd × List (Item α) := (hd, renum 1 its)

theorem enc_setTail (m : Mapper) (f : Facts) (nm : String) (t v : J) :
    enc m f nm (setTail t v) = enc m f nm v := by
  cases v <;> rfl

theorem encR (m : Mapper) (f : Facts) (nm : String) (v v' : J) (h : R v v') : enc m f nm v' = enc m f nm v := by
  rcases h with rfl | ⟨t, rfl⟩
  · rfl
  · exact enc_setTail m f nm t v

/-- the children that the loop of `element_decode` builds, written by recursion on the content: a child
    followed by a character data part gets it as its tail -/
def grp : List (Item J) → List J
  | [] => []
  | .child _ _ v :: .cdata _ t :: r => setTail t v :: grp r
  | .child _ _ v :: r => v :: grp r
  | .cdata _ _ :: r => grp r

theorem modifyLast_snoc (g : J → J) (l : List J) (x : J) : modifyLast g (l ++ [x]) = l ++ [g x] := by
  induction l with
  | nil => rfl
  | cons a l ih =>
    cases l with
    | nil => rfl
    | cons b l => simp only [List.cons_append, modifyLast] at ih ⊢; rw [ih]

theorem snoc_ne_nil (l : List J) (x : J) : ∃ a r, l ++ [x] = a :: r := by
  cases l with
  | nil => exact ⟨x, [], rfl⟩
  | cons a l => exact ⟨a, l ++ [x], rfl⟩

/-- the loop of `element_decode` from a state whose next item is a child (or the end) -/
theorem decLoop_grp (m : Mapper) (val : J) :
    ∀ (its : List (Item J)) (kids : List J), altOk true its = true →
      (∀ nm s v, Item.child nm s v ∈ its → Inv nm v ∧ isDigits (m.mp nm) = false) →
      decLoop m (val, kids) its = some (val, kids ++ grp its)
  | [], kids, _, _ => by simp [decLoop, grp]
  | .cdata i v :: r, kids, h, _ => by simp [altOk] at h
  | [.child nm s v], kids, _, hk => by
    obtain ⟨⟨a, b, c, d, rfl⟩, hd⟩ := hk nm s v (by simp)
    simp [decLoop, decStep, hd, grp]
  | .child nm s v :: .child nm' s' v' :: r, kids, h, hk => by
    obtain ⟨⟨a, b, c, d, rfl⟩, hd⟩ := hk nm s v (by simp)
    have ih := decLoop_grp m val (.child nm' s' v' :: r) (kids ++ [.elem nm a b c .null d])
      (by simpa [altOk] using h) (fun nm s v hm => hk nm s v (by simp [hm]))
    rw [decLoop]
    simp only [decStep, hd, Bool.false_eq_true, if_false]
    rw [ih]
    simp [grp]
  | .child nm s v :: .cdata i t :: r, kids, h, hk => by
    obtain ⟨⟨a, b, c, d, rfl⟩, hd⟩ := hk nm s v (by simp)
    have h' : altOk true r = true := by
      simp only [altOk, Bool.not_false, Bool.true_and, Bool.and_eq_true] at h
      exact h.2
    have ih := decLoop_grp m val r (kids ++ [setTail t (.elem nm a b c .null d)]) h'
      (fun nm s v hm => hk nm s v (by simp [hm]))
    rw [decLoop]
    simp only [decStep, hd, Bool.false_eq_true, if_false]
    rw [decLoop]
    obtain ⟨x, y, hxy⟩ := snoc_ne_nil kids (.elem nm a b c .null d)
    simp only [decStep]
    rw [hxy]
    simp only
    rw [← hxy, modifyLast_snoc, ih]
    simp [grp]

/-- `element_encode` of the children built by the loop gives the content back, tails included -/
theorem encKids_grp :
    ∀ (its : List (Item J)) (k : Nat), altOk true its = true →
      (∀ nm s v, Item.child nm s v ∈ its → Inv nm v) →
      ∃ post, encKids k (grp its) = .ok post ∧ ItemsRel R (renum k its) post
  | [], k, _, _ => ⟨[], rfl, .nil⟩
  | .cdata i v :: r, k, h, _ => by simp [altOk] at h
  | [.child nm s v], k, _, hk => by
    obtain ⟨a, b, c, d, rfl⟩ := hk nm s v (by simp)
    exact ⟨_, by simp [grp, encKids, J.isNull, bind, Except.bind, pure, Except.pure],
      .cons (.child _ _ _ _ (.inl rfl)) .nil⟩
  | .child nm s v :: .child nm' s' v' :: r, k, h, hk => by
    obtain ⟨a, b, c, d, rfl⟩ := hk nm s v (by simp)
    obtain ⟨post, hp, hrel⟩ := encKids_grp (.child nm' s' v' :: r) k (by simpa [altOk] using h)
      (fun nm s v hm => hk nm s v (by simp [hm]))
    refine ⟨.child nm false (.elem nm a b c .null d) :: post, ?_, ?_⟩
    · have : grp (.child nm s (.elem nm a b c .null d) :: .child nm' s' v' :: r) =
          .elem nm a b c .null d :: grp (.child nm' s' v' :: r) := by simp [grp]
      rw [this]
      simp only [encKids, J.isNull, if_true]
      rw [hp]; rfl
    · simp only [renum]
      exact .cons (.child _ _ _ _ (.inl rfl)) (by simpa [renum] using hrel)
  | .child nm s v :: .cdata i t :: r, k, h, hk => by
    obtain ⟨a, b, c, d, rfl⟩ := hk nm s v (by simp)
    have h' : altOk true r = true ∧ t.isNull = false := by
      simp only [altOk, Bool.not_false, Bool.true_and, Bool.and_eq_true, Bool.not_eq_true'] at h
      exact ⟨h.2, h.1⟩
    obtain ⟨post, hp, hrel⟩ := encKids_grp r (k + 1) h'.1 (fun nm s v hm => hk nm s v (by simp [hm]))
    refine ⟨.child nm false (.elem nm a b c t d) :: .cdata k t :: post, ?_, ?_⟩
    · simp only [grp, setTail, encKids, h'.2, Bool.false_eq_true, if_false]
      rw [hp]; rfl
    · simp only [renum]
      exact .cons (.child _ _ _ _ (.inr ⟨t, rfl⟩)) (.cons (.cdata _ _) hrel)

theorem grp_ne_nil {its : List (Item J)} (h : hasChild its = true) (ha : altOk true its = true) :
    ∃ a r, grp its = a :: r := by
  match its, h, ha with
  | .cdata i v :: r, _, ha => simp [altOk] at ha
  | [.child nm s v], _, _ => exact ⟨_, _, rfl⟩
  | .child nm s v :: .child nm' s' v' :: r, _, _ => exact ⟨v, grp (.child nm' s' v' :: r), by simp [grp]⟩
  | .child nm s v :: .cdata i t :: r, _, _ => exact ⟨_, _, rfl⟩

theorem unmap_attrs {α : Type} {m : Mapper} {f hd} {its : List (Item α)} (w : WF1 m f hd its) :
    dictUpdate [] ((decAttrs m hd).map fun kv => (m.umA kv.1, kv.2)) = hd.attrs := by
  unfold decAttrs
  rw [dictUpdate_nil _ w.attrsNodup]
  have : ((hd.attrs.map fun kv => (m.mpA kv.1, kv.2)).map fun kv => (m.umA kv.1, kv.2)) = hd.attrs := by
    rw [List.map_map]
    conv => rhs; rw [← List.map_id hd.attrs]
    apply List.map_congr_left
    intro kv hkv
    simp [w.attrsUm kv hkv]
  rw [this]
  exact dictUpdate_nil _ w.attrsNodup'

/-- the state in which the loop of `element_decode` ends -/
theorem decLoop_wf {m : Mapper} {f hd} {its : List (Item J)} (w : WF1 m f hd its) (hk : Kids its)
    (hne : its ≠ []) :
    ∃ val kids a r, decLoop m (.null, []) its = some (val, kids) ∧ kids = a :: r ∧
      ∃ post, (if val.isNull then encKids 1 kids else (encKids 2 kids).map (Item.cdata 1 val :: ·)) = .ok post ∧
        ItemsRel R (renum 1 its) post := by
  have hkk : ∀ nm s v, Item.child nm s v ∈ its → Inv nm v ∧ isDigits (m.mp nm) = false :=
    fun nm s v hm => ⟨hk nm s v hm, w.kidsName nm s v hm⟩
  have hc : hasChild its = true := by
    rcases w.notAlone with h | h
    · exact absurd h hne
    · exact h
  have halt := w.alt
  match its, hne, hkk, hc, halt with
  | .cdata i v :: r, _, hkk, hc, halt =>
    have h' : altOk true r = true ∧ v.isNull = false := by
      simp only [altOk, Bool.not_false, Bool.true_and, Bool.and_eq_true, Bool.not_eq_true'] at halt
      exact ⟨halt.2, halt.1⟩
    have hcr : hasChild r = true := by simpa [hasChild] using hc
    have hl := decLoop_grp m v r [] h'.1 (fun nm s v hm => hkk nm s v (by simp [hm]))
    obtain ⟨a, r', hg⟩ := grp_ne_nil hcr h'.1
    obtain ⟨post, hp, hrel⟩ := encKids_grp r 2 h'.1 (fun nm s v hm => (hkk nm s v (by simp [hm])).1)
    refine ⟨v, grp r, a, r', ?_, hg, .cdata 1 v :: post, ?_, ?_⟩
    · rw [decLoop]
      simp only [decStep]
      simpa using hl
    · simp [h'.2, hp, Except.map]
    · simp only [renum]
      exact .cons (.cdata _ _) hrel
  | .child nm s v :: r, _, hkk, hc, halt =>
    have h' : altOk true (.child nm s v :: r) = true := by simpa [altOk] using halt
    have hl := decLoop_grp m .null (.child nm s v :: r) [] h' hkk
    obtain ⟨a, r', hg⟩ := grp_ne_nil hc h'
    obtain ⟨post, hp, hrel⟩ := encKids_grp (.child nm s v :: r) 1 h' (fun nm s v hm => (hkk nm s v hm).1)
    refine ⟨.null, grp (.child nm s v :: r), a, r', ?_, hg, post, ?_, hrel⟩
    · simpa using hl
    · simp [J.isNull, hp]

/-- `element_decode` returns a DataElement with the element's own tag and no tail -/
theorem dec_inv {m : Mapper} {f hd} {its : List (Item J)} (w : WF1 m f hd its) (hk : Kids its) :
    Inv hd.tag (dec m f hd its) := by
  unfold dec
  by_cases hg : f.hasGroup = true
  · simp only [hg, if_true]
    by_cases hne : its = []
    · subst hne
      exact ⟨_, _, _, _, rfl⟩
    · have ht : hd.text = none := by
        cases h : hd.text with
        | none => rfl
        | some t => exact absurd (w.textAlone (by simp [h])) hne
      obtain ⟨val, kids, _, _, hl, _, _⟩ := decLoop_wf w hk hne
      simp only [ht, hl]
      exact ⟨_, _, _, _, rfl⟩
  · simp only [hg, Bool.false_eq_true, if_false]
    exact ⟨_, _, _, _, rfl⟩

/-- **one level**: `element_encode (element_decode data)` is `norm1 data`, the children carrying their tails -/
theorem level_roundtrip {m : Mapper} {f hd} {its : List (Item J)} (w : WF1 m f hd its) (hk : Kids its) :
    ∃ its', enc m f hd.tag (dec m f hd its) = .ok (hd, its') ∧ ItemsRel R (renum 1 its) its' := by
  have hat := unmap_attrs w
  obtain ⟨tag, text, attrs, xmlns⟩ := hd
  by_cases hne : its = []
  · subst hne
    refine ⟨[], ?_, .nil⟩
    cases text with
    | none =>
      by_cases hg : f.hasGroup = true <;>
        simp [dec, hg, decLoop, enc, J.isNull, hat]
    | some t =>
      have ht := w.textOk t rfl
      by_cases hg : f.hasGroup = true <;>
        simp [dec, hg, decLoop, enc, ht, hat]
  · have ht : text = none := by
      cases text with
      | none => rfl
      | some t => exact absurd (w.textAlone (by simp)) hne
    subst ht
    have hg : f.hasGroup = true := by
      cases h : f.hasGroup with
      | true => rfl
      | false => exact absurd (w.noGroup h) hne
    obtain ⟨val, kids, a, r, hl, hkids, post, hp, hrel⟩ := decLoop_wf w hk hne
    refine ⟨post, ?_, hrel⟩
    simp only [dec, hg, if_true, hl]
    subst hkids
    simp only [enc, bne_self_eq_false, Bool.false_eq_true, if_false, hat]
    by_cases hv : val.isNull = true
    · simp only [hv, if_true] at hp ⊢
      rw [hp]; rfl
    · simp only [hv, Bool.false_eq_true, if_false] at hp ⊢
      cases he : encKids 2 (a :: r) with
      | error e => rw [he] at hp; simp [Except.map] at hp
      | ok c =>
        rw [he] at hp
        simp only [Except.map, Except.ok.injEq] at hp
        subst hp
        rfl

end XsVerif.Conv.DE
