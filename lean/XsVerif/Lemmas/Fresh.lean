/-
  A string outside any finite list of strings exists (namespaces are an infinite universe).
-/
namespace XsVerif

def freshLen (l : List String) : Nat := (l.map String.length).foldr max 0 + 1

def fresh (l : List String) : String := String.ofList (List.replicate (freshLen l) 'z')

theorem length_lt_freshLen {l : List String} {s : String} (h : s ∈ l) : s.length < freshLen l := by
  induction l with
  | nil => cases h
  | cons a t ih =>
    simp only [freshLen, List.map_cons, List.foldr_cons] at *
    rcases List.mem_cons.mp h with rfl | h'
    · omega
    · have := ih h'; omega

theorem fresh_length (l : List String) : (fresh l).length = freshLen l := by
  simp [fresh]

theorem fresh_not_mem (l : List String) : fresh l ∉ l := by
  intro h
  have := length_lt_freshLen h
  rw [fresh_length] at this
  omega

end XsVerif
