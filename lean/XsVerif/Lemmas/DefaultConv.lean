/-
  The default convention (XMLSchemaConverter): one-level round trip under explicit guards.
-/
import XsVerif.Lemmas.Tree
import XsVerif.Model.DefaultConv

namespace XsVerif.Conv.Dflt
open XsVerif.Conv

/-! ### insertion-ordered dicts -/

theorem dictGet?_none (d : List (String × J)) (k : String) (h : ∀ kv ∈ d, kv.1 ≠ k) : dictGet? d k = none := by
  induction d with
  | nil => rfl
  | cons a d ih =>
    obtain ⟨k', v'⟩ := a
    have h1 : k' ≠ k := h (k', v') (by simp)
    simp [dictGet?, h1, ih (fun kv hkv => h kv (by simp [hkv]))]

theorem dictGet?_snoc_self (d : List (String × J)) (k : String) (v : J) (h : ∀ kv ∈ d, kv.1 ≠ k) :
    dictGet? (d ++ [(k, v)]) k = some v := by
  induction d with
  | nil => simp [dictGet?]
  | cons a d ih =>
    obtain ⟨k', v'⟩ := a
    have h1 : k' ≠ k := h (k', v') (by simp)
    simp [dictGet?, h1, ih (fun kv hkv => h kv (by simp [hkv]))]

theorem dictSet_snoc_self (d : List (String × J)) (k : String) (v w : J) (h : ∀ kv ∈ d, kv.1 ≠ k) :
    dictSet (d ++ [(k, v)]) k w = d ++ [(k, w)] := by
  induction d with
  | nil => simp [dictSet]
  | cons a d ih =>
    obtain ⟨k', v'⟩ := a
    have h1 : k' ≠ k := h (k', v') (by simp)
    simp [dictSet, h1, ih (fun kv hkv => h kv (by simp [hkv]))]

/-- `d.update(pairs)` with pairs that are already there, in order, after a disjoint prefix -/
theorem dictSet_mem_same (d : List (String × J)) (k : String) (v : J)
    (hn : (d.map (·.1)).Nodup) (hm : (k, v) ∈ d) : dictSet d k v = d := by
  induction d with
  | nil => simp at hm
  | cons a d ih =>
    obtain ⟨k', v'⟩ := a
    simp only [List.map_cons, List.nodup_cons] at hn
    by_cases hk : k' = k
    · subst hk
      simp only [List.mem_cons, Prod.mk.injEq, true_and] at hm
      rcases hm with rfl | hm
      · simp [dictSet]
      · exact absurd (List.mem_map.mpr ⟨(k', v), hm, rfl⟩) hn.1
    · have hm' : (k, v) ∈ d := by
        simp only [List.mem_cons, Prod.mk.injEq] at hm
        rcases hm with ⟨h1, _⟩ | hm
        · exact absurd h1.symm hk
        · exact hm
      simp [dictSet, hk, ih hn.2 hm']

theorem dictUpdate_same (d l : List (String × J)) (hn : (d.map (·.1)).Nodup) (hs : ∀ kv ∈ l, kv ∈ d) :
    dictUpdate d l = d := by
  induction l with
  | nil => rfl
  | cons a l ih =>
    have : dictUpdate d (a :: l) = dictUpdate (dictSet d a.1 a.2) l := by simp [dictUpdate]
    rw [this, dictSet_mem_same d a.1 a.2 hn (hs a (by simp))]
    exact ih (fun kv hkv => hs kv (by simp [hkv]))

/-! ### the decode loop on contiguous runs -/

/-- what the loop stores under one key after the values `vs` arrived (first arrival with flag `sg`) -/
def pack (o : Opts) (sg : Bool) : List J → J
  | [v] => if sg then (if o.forceList then .list [v] else v) else .list [v]
  | vs => .list vs

theorem notSeq_notList {v : J} (h : v.isSeq = false) : ∀ l, v ≠ .list l := by
  intro l hl; subst hl; simp [J.isSeq] at h

/-- a further non-sequence value arrives under a key that holds `pack sg vs` -/
theorem put_pack (o : Opts) (rd : List (String × J)) (k : String) (sg : Bool) (vs : List J) (v : J)
    (hk : ∀ kv ∈ rd, kv.1 ≠ k) (hne : vs ≠ []) (hvs : ∀ x ∈ vs, x.isSeq = false) (hv : v.isSeq = false) (sg' : Bool) :
    put o (rd ++ [(k, pack o sg vs)]) k v sg' = rd ++ [(k, pack o sg (vs ++ [v]))] := by
  unfold put
  rw [dictGet?_snoc_self rd k _ hk]
  match vs, hne, hvs with
  | [v0], _, hvs =>
    have h0 : v0.isSeq = false := hvs v0 (by simp)
    simp only [pack, List.cons_append, List.nil_append]
    by_cases hsg : sg = true
    · by_cases hf : o.forceList = true
      · simp [hsg, hf, h0, hv, dictSet_snoc_self rd k _ _ hk]
      · simp only [hsg, hf, if_true, Bool.false_eq_true, if_false]
        cases v0 <;> simp [J.isSeq] at h0 <;> simp [dictSet_snoc_self rd k _ _ hk]
    · simp [hsg, h0, hv, dictSet_snoc_self rd k _ _ hk]
  | v0 :: v1 :: r, _, hvs =>
    have h0 : v0.isSeq = false := hvs v0 (by simp)
    simp [pack, h0, hv, dictSet_snoc_self rd k _ _ hk]

/-- a value arrives under a key that is not there yet -/
theorem put_fresh (o : Opts) (rd : List (String × J)) (k : String) (v : J) (sg : Bool)
    (hk : ∀ kv ∈ rd, kv.1 ≠ k) : put o rd k v sg = rd ++ [(k, pack o sg [v])] := by
  unfold put
  rw [dictGet?_none rd k hk, dictSet_fresh rd k _ hk]
  simp [pack]

/-- each key either continues the current run or never comes back -/
def contig : List String → Bool
  | [] => true
  | [_] => true
  | a :: b :: r => (a == b || !(b :: r).contains a) && contig (b :: r)

def keysOf {α : Type} (m : Mapper) : List (Item α) → List String
  | [] => []
  | .cdata _ _ :: r => keysOf m r
  | .child nm _ _ :: r => m.mp nm :: keysOf m r

def noCdata {α : Type} : List (Item α) → Bool
  | [] => true
  | .cdata _ _ :: _ => false
  | .child _ _ _ :: r => noCdata r

/-- the dict entries that the loop builds for the run of `k` that is open and for what follows -/
def grp (m : Mapper) (f : Facts) (k : String) (sg : Bool) (vs : List J) : List (Item J) → List (String × Bool × List J)
  | [] => [(k, sg, vs)]
  | .cdata _ _ :: r => grp m f k sg vs r
  | .child nm s v :: r =>
      if m.mp nm == k then grp m f k sg (vs ++ [v]) r
      else (k, sg, vs) :: grp m f (m.mp nm) (f.singleGroup && s) [v] r

def entries (o : Opts) (g : List (String × Bool × List J)) : List (String × J) :=
  g.map fun e => (e.1, pack o e.2.1 e.2.2)

theorem contig_tail {a : String} {l : List String} (h : contig (a :: l) = true) : contig l = true := by
  cases l with
  | nil => rfl
  | cons b r => simp only [contig, Bool.and_eq_true] at h; exact h.2

theorem contig_ne {a b : String} {r : List String} (h : contig (a :: b :: r) = true) (hab : (a == b) = false) :
    ∀ x ∈ b :: r, x ≠ a := by
  simp only [contig, hab, Bool.false_or, Bool.and_eq_true, Bool.not_eq_true'] at h
  intro x hx hxa
  subst hxa
  have := h.1
  simp only [List.contains_eq_mem, decide_eq_false_iff_not] at this
  exact this hx

theorem mem_keysOf {α : Type} (m : Mapper) {its : List (Item α)} {nm s v} (h : Item.child nm s v ∈ its) :
    m.mp nm ∈ keysOf m its := by
  induction its with
  | nil => simp at h
  | cons a its ih =>
    cases a with
    | cdata i w =>
      simp only [List.mem_cons] at h
      rcases h with h | h
      · cases h
      · exact ih h
    | child nm' s' w =>
      simp only [List.mem_cons, Item.child.injEq] at h
      rcases h with ⟨rfl, _, _⟩ | h
      · simp [keysOf]
      · simp [keysOf, ih h]

/-- the loop of `element_decode` over contiguous content without character data parts -/
theorem foldl_grp (o : Opts) (m : Mapper) (f : Facts) :
    ∀ (r : List (Item J)) (rd : List (String × J)) (k : String) (sg : Bool) (vs : List J),
      noCdata r = true → contig (k :: keysOf m r) = true →
      (∀ kv ∈ rd, kv.1 ≠ k) → (∀ x ∈ keysOf m r, ∀ kv ∈ rd, kv.1 ≠ x) →
      vs ≠ [] → (∀ x ∈ vs, x.isSeq = false) → (∀ nm s v, Item.child nm s v ∈ r → v.isSeq = false) →
      r.foldl (decStep o m f) (rd ++ [(k, pack o sg vs)]) = rd ++ entries o (grp m f k sg vs r) := by
  intro r
  induction r with
  | nil => intro rd k sg vs _ _ _ _ _ _ _; simp [grp, entries]
  | cons a r ih =>
    intro rd k sg vs hnc hc hk hr hne hvs hv
    cases a with
    | cdata i w => simp [noCdata] at hnc
    | child nm s v =>
      have hnc' : noCdata r = true := by simpa [noCdata] using hnc
      have hv0 : v.isSeq = false := hv nm s v (by simp)
      have hv' : ∀ nm s v, Item.child nm s v ∈ r → v.isSeq = false := fun nm s v h => hv nm s v (by simp [h])
      simp only [List.foldl_cons, decStep, grp]
      simp only [keysOf] at hc hr
      by_cases hkey : (m.mp nm == k) = true
      · have hkey' : m.mp nm = k := by simpa using hkey
        rw [hkey', put_pack o rd k sg vs v hk hne hvs hv0]
        simp only [beq_self_eq_true, if_true]
        have hc' : contig (k :: keysOf m r) = true := by
          rw [hkey'] at hc; exact contig_tail hc
        exact ih rd k sg (vs ++ [v]) hnc' hc' hk (fun x hx => hr x (by simp [hx])) (by simp)
          (by
            intro x hx
            simp only [List.mem_append, List.mem_singleton] at hx
            rcases hx with hx | rfl
            · exact hvs x hx
            · exact hv0) hv'
      · have hkey' : (m.mp nm == k) = false := by simpa using hkey
        have hkne : m.mp nm ≠ k := by simpa using hkey'
        have hkne' : (k == m.mp nm) = false := by
          simp only [beq_eq_false_iff_ne, ne_eq]; exact fun h => hkne h.symm
        simp only [hkey', Bool.false_eq_true, if_false]
        have hfresh : ∀ kv ∈ rd ++ [(k, pack o sg vs)], kv.1 ≠ m.mp nm := by
          intro kv hkv
          simp only [List.mem_append, List.mem_singleton] at hkv
          rcases hkv with hkv | rfl
          · exact hr (m.mp nm) (by simp) kv hkv
          · exact fun h => hkne h.symm
        rw [put_fresh o _ (m.mp nm) v _ hfresh]
        have hlater := contig_ne hc hkne'
        have := ih (rd ++ [(k, pack o sg vs)]) (m.mp nm) (f.singleGroup && s) [v] hnc' (contig_tail hc) hfresh
          (by
            intro x hx kv hkv
            simp only [List.mem_append, List.mem_singleton] at hkv
            rcases hkv with hkv | rfl
            · exact hr x (by simp [hx]) kv hkv
            · exact fun h => hlater x (by simp [hx]) h.symm)
          (by simp) (by intro x hx; simp only [List.mem_singleton] at hx; subst hx; exact hv0) hv'
        rw [this]
        simp [entries, List.append_assoc]

/-! ### the encode loop -/

theorem classify_notXmlns {o : Opts} {name : String} (h : classify o name = .other ∨ ∃ a, classify o name = .attr a) :
    xmlnsLike o name = false := by
  unfold classify at h
  by_cases h1 : (o.textKey == some name) = true
  · simp only [h1, if_true] at h
    rcases h with h | ⟨a, h⟩ <;> cases h
  · simp only [h1, Bool.false_eq_true, if_false] at h
    cases h2 : cdataIndex o name with
    | some i => rw [h2] at h; rcases h with h | ⟨a, h⟩ <;> cases h
    | none =>
      rw [h2] at h
      cases h3 : xmlnsLike o name with
      | false => rfl
      | true => simp only [h3, if_true] at h; rcases h with h | ⟨a, h⟩ <;> cases h

theorem xmlnsOfKv_none {o : Opts} {kv : String × J} (h : xmlnsLike o kv.1 = false) : xmlnsOfKv o kv = none := by
  unfold xmlnsLike at h
  simp only [Bool.or_eq_false_iff] at h
  unfold xmlnsOfKv
  cases kv.2 <;> simp [h.1, h.2]

theorem kidsOf_append (nm : String) (a b : List J) : kidsOf nm (a ++ b) = kidsOf nm a ++ kidsOf nm b := by
  simp [kidsOf]

theorem kidsX_eq (o : Opts) (m : Mapper) (k : String) (hx : ∀ x, m.umX x k = m.um k) (vs : List J) :
    kidsX o m k vs = kidsOf (m.um k) vs := by
  simp [kidsX, kidsOf, hx]

/-- one dict entry built by the decode loop goes back to the children it came from (`hx`: the declarations
    that a child's data carries do not change what the key denotes) -/
theorem encStep_pack (o : Opts) (m : Mapper) (f : Facts) (a : Acc) (k : String) (sg : Bool) (vs : List J)
    (hcl : classify o k = .other) (hne : vs ≠ []) (hvs : ∀ x ∈ vs, x.isSeq = false)
    (hch : ∃ ch, findChild f (m.um k) = some ch ∧ ch.isList = false)
    (hx : ∀ x, m.umX x k = m.um k) :
    encStep o m f a (k, pack o sg vs) = { a with content := a.content ++ kidsOf (m.um k) vs } := by
  obtain ⟨ch, hf, hl⟩ := hch
  simp only [encStep, hcl]
  have hlist : ∀ v0 rest, (∀ x ∈ v0 :: rest, x.isSeq = false) →
      putValue o m f a k (.list (v0 :: rest)) = { a with content := a.content ++ kidsOf (m.um k) (v0 :: rest) } := by
    intro v0 rest hh
    simp only [putValue, hf, hl, kidsX_eq o m k hx]
    by_cases hm : ((v0 :: rest).any fun v => v.isMap || v.isSeq) = true <;> simp [hm]
  match vs, hne, hvs with
  | [v0], _, hvs =>
    have h0 : v0.isSeq = false := hvs v0 (by simp)
    simp only [pack]
    by_cases hsg : sg = true
    · by_cases hfl : o.forceList = true
      · simp only [hsg, hfl, if_true]; exact hlist v0 [] hvs
      · simp only [hsg, hfl, if_true, Bool.false_eq_true, if_false]
        cases v0 <;> simp [J.isSeq] at h0 <;> simp [putValue, kidsOf, hx]
    · simp only [hsg, Bool.false_eq_true, if_false]; exact hlist v0 [] hvs
  | v0 :: v1 :: r, _, hvs =>
    simp only [pack]; exact hlist v0 (v1 :: r) hvs

theorem renum_noCdata {α : Type} (j k : Nat) (l : List (Item α)) (h : noCdata l = true) : renum j l = renum k l := by
  induction l with
  | nil => rfl
  | cons a l ih =>
    cases a with
    | cdata i v => simp [noCdata] at h
    | child nm s v => simp only [renum]; rw [ih (by simpa [noCdata] using h)]

/-- what a child item must satisfy for the encoder to find it again -/
structure KidOK (o : Opts) (m : Mapper) (f : Facts) (nm : String) : Prop where
  cls : classify o (m.mp nm) = .other
  um : m.um (m.mp nm) = nm
  /-- the declarations that the data of a child carries do not change what the child's key denotes (one
      mapper per level: a child that re-declares the prefix of its own name is outside this model) -/
  umX : ∀ x, m.umX x (m.mp nm) = m.um (m.mp nm)
  decl : ∃ ch, findChild f nm = some ch ∧ ch.isList = false

/-- the entries of the decode loop are turned back into the content, in order -/
theorem foldl_entries (o : Opts) (m : Mapper) (f : Facts) :
    ∀ (r : List (Item J)) (k : String) (sg : Bool) (vs : List J) (a : Acc) (nm0 : String),
      noCdata r = true → k = m.mp nm0 → KidOK o m f nm0 →
      vs ≠ [] → (∀ x ∈ vs, x.isSeq = false) →
      (∀ nm s v, Item.child nm s v ∈ r → v.isSeq = false ∧ KidOK o m f nm) →
      (entries o (grp m f k sg vs r)).foldl (encStep o m f) a =
        { a with content := a.content ++ kidsOf nm0 vs ++ renum 1 r } := by
  intro r
  induction r with
  | nil =>
    intro k sg vs a nm0 _ hk h0 hne hvs _
    subst hk
    simp only [grp, entries, List.map_cons, List.map_nil, List.foldl_cons, List.foldl_nil, renum, List.append_nil]
    rw [encStep_pack o m f a _ sg vs h0.cls hne hvs (by rw [h0.um]; exact h0.decl) h0.umX, h0.um]
  | cons x r ih =>
    intro k sg vs a nm0 hnc hk h0 hne hvs hr
    cases x with
    | cdata i w => simp [noCdata] at hnc
    | child nm s v =>
      have hnc' : noCdata r = true := by simpa [noCdata] using hnc
      obtain ⟨hv0, hnm⟩ := hr nm s v (by simp)
      have hr' : ∀ nm s v, Item.child nm s v ∈ r → v.isSeq = false ∧ KidOK o m f nm :=
        fun nm s v h => hr nm s v (by simp [h])
      simp only [grp, renum]
      by_cases hkey : (m.mp nm == k) = true
      · have hkey' : m.mp nm = k := by simpa using hkey
        have hsame : nm = nm0 := by
          have := congrArg m.um (hkey'.trans hk)
          rw [hnm.um, h0.um] at this; exact this
        simp only [hkey, if_true]
        rw [ih k sg (vs ++ [v]) a nm0 hnc' hk h0 (by simp)
          (by
            intro x hx
            simp only [List.mem_append, List.mem_singleton] at hx
            rcases hx with hx | rfl
            · exact hvs x hx
            · exact hv0) hr']
        subst hsame
        simp [kidsOf, List.append_assoc]
      · have hkey' : (m.mp nm == k) = false := by simpa using hkey
        simp only [hkey', Bool.false_eq_true, if_false, entries, List.map_cons, List.foldl_cons]
        subst hk
        rw [encStep_pack o m f a _ sg vs h0.cls hne hvs (by rw [h0.um]; exact h0.decl) h0.umX, h0.um]
        have := ih (m.mp nm) (f.singleGroup && s) [v] { a with content := a.content ++ kidsOf nm0 vs } nm hnc' rfl hnm
          (by simp) (by intro x hx; simp only [List.mem_singleton] at hx; subst hx; exact hv0) hr'
        simp only [entries] at this
        rw [this]
        simp [kidsOf, List.append_assoc]

theorem foldl_xmlns (o : Opts) (m : Mapper) (f : Facts) (l : List (String × J)) (a : Acc)
    (h : ∀ kv ∈ l, classify o kv.1 = .xmlns) : l.foldl (encStep o m f) a = a := by
  induction l generalizing a with
  | nil => rfl
  | cons x l ih =>
    simp only [List.foldl_cons, encStep, h x (by simp)]
    exact ih a (fun kv hkv => h kv (by simp [hkv]))

theorem foldl_attrs (o : Opts) (m : Mapper) (f : Facts) (p : String) (l : List (String × J)) (a : Acc)
    (h : ∀ kv ∈ l, classify o (p ++ m.mpA kv.1) = .attr (m.mpA kv.1)) (hum : ∀ kv ∈ l, m.umA (m.mpA kv.1) = kv.1) :
    (l.map fun kv => (p ++ m.mpA kv.1, kv.2)).foldl (encStep o m f) a = { a with attrs := dictUpdate a.attrs l } := by
  induction l generalizing a with
  | nil => rfl
  | cons x l ih =>
    simp only [List.map_cons, List.foldl_cons, encStep, h x (by simp), hum x (by simp)]
    rw [ih _ (fun kv hkv => h kv (by simp [hkv])) (fun kv hkv => hum kv (by simp [hkv]))]
    simp [dictUpdate]

/-! ### one level -/

/-- what `element_decode` may be given (one level) for the round trip to hold: the guards of
    `default_roundtrip_partial` -/
structure WF1 {α : Type} (o : Opts) (m : Mapper) (f : Facts) (hd : Hd) (its : List (Item α)) : Prop where
  attrsUm : ∀ kv ∈ hd.attrs, m.umA (m.mpA kv.1) = kv.1
  attrsNodup' : (hd.attrs.map (·.1)).Nodup
  /-- attributes are dropped when `attr_prefix is None` -/
  attrPre : hd.attrs ≠ [] → o.attrPrefix.isSome = true
  /-- no key collisions: an attribute key is read back as that attribute … -/
  attrClass : ∀ p, o.attrPrefix = some p → ∀ kv ∈ hd.attrs, classify o (p ++ m.mpA kv.1) = .attr (m.mpA kv.1)
  attrsNodup : ((mapAttrs o m hd).map (·.1)).Nodup
  xmlnsNodup : ((xmlnsEntries (pre o) hd.xmlns).map (·.1)).Nodup
  /-- … a namespace declaration key as a declaration … -/
  xmlnsClass : ∀ kv ∈ xmlnsEntries (pre o) hd.xmlns, classify o kv.1 = .xmlns
  xmlnsBack : (xmlnsEntries (pre o) hd.xmlns).filterMap (xmlnsOfKv o) = hd.xmlns
  textNotXmlns : ∀ k, o.textKey = some k → xmlnsLike o k = false
  textOk : ∀ t, hd.text = some t → t.isNull = false ∧ t.isMap = false ∧ t.isSeq = false
  /-- the text is dropped when `text_key is None` -/
  textKeyOk : hd.text.isSome = true → keep o f hd = true → o.textKey.isSome = true
  textPlace : ∀ t, hd.text = some t → keep o f hd = false → f.simple = true ∨ (f.mixed = true ∧ t.isStr = true)
  textAlone : hd.text.isSome = true → its = []
  noGroup : f.hasGroup = false → its = []
  /-- no mixed text between children -/
  noCd : noCdata its = true
  /-- same-named children are contiguous -/
  contiguous : contig (keysOf m its) = true
  /-- … and a child key as a declared child whose type is not a list -/
  kids : ∀ nm s v, Item.child nm s v ∈ its → KidOK o m f nm

/-- converted children are not sequences (no list-typed leaves: finding C05-F7) -/
def Inv (_nm : String) (v : J) : Prop := v.isSeq = false
def Kids (its : List (Item J)) : Prop := ∀ nm s v, Item.child nm s v ∈ its → Inv nm v

def xs (o : Opts) (hd : Hd) : List (String × String) := if o.useNs then hd.xmlns else []

/-- documented normalisations of one level: `single` flags cleared, xmlns kept only in a kept dictionary and
    when the converter uses namespaces, the text of a mixed element returned as a bare string comes back as
    the first cdata part -/
def norm1 (o : Opts) {α : Type} (f : Facts) (hd : Hd) (its : List (Item α)) : Hd × List (Item α) :=
  if f.hasGroup && !its.isEmpty then ({ hd with xmlns := xs o hd }, renum 1 its)
  else if keep o f hd then ({ hd with xmlns := xs o hd }, [])
  else match hd.text with
    | some t => if f.simple then ({ hd with xmlns := [] }, []) else ({ hd with text := none, xmlns := [] }, [.cdata 1 t])
    | none => ({ hd with xmlns := [] }, [])

/-- the xmlns part and the attribute part of the result dictionary -/
def X (o : Opts) (hd : Hd) : List (String × J) :=
  if o.useNs && !hd.xmlns.isEmpty then xmlnsEntries (pre o) hd.xmlns else []

theorem mapAttrs_nil {o : Opts} {m : Mapper} {hd : Hd} (h : hd.attrs = []) : mapAttrs o m hd = [] := by
  unfold mapAttrs; cases o.attrPrefix <;> simp [h]

section
variable {α : Type} {o : Opts} {m : Mapper} {f : Facts} {hd : Hd} {its : List (Item α)} (w : WF1 o m f hd its)
include w

theorem mapAttrs_class : ∀ kv ∈ mapAttrs o m hd, ∃ a, classify o kv.1 = .attr a := by
  intro kv hkv
  unfold mapAttrs at hkv
  cases hp : o.attrPrefix with
  | none => simp [hp] at hkv
  | some p =>
    simp only [hp, List.mem_map] at hkv
    obtain ⟨a, ha, rfl⟩ := hkv
    exact ⟨_, w.attrClass p hp a ha⟩

theorem X_class : ∀ kv ∈ X o hd, classify o kv.1 = .xmlns := by
  intro kv hkv
  unfold X at hkv
  split at hkv
  · exact w.xmlnsClass kv hkv
  · simp at hkv

theorem XA_nodup : ((X o hd ++ mapAttrs o m hd).map (·.1)).Nodup := by
  rw [List.map_append, List.nodup_append]
  refine ⟨?_, w.attrsNodup, ?_⟩
  · unfold X; split
    · exact w.xmlnsNodup
    · simp
  · intro a ha b hb hab
    simp only [List.mem_map] at ha hb
    obtain ⟨kv, hkv, rfl⟩ := ha
    obtain ⟨kv', hkv', rfl⟩ := hb
    have h1 := X_class w kv hkv
    obtain ⟨a, h2⟩ := mapAttrs_class w kv' hkv'
    rw [hab, h2] at h1
    cases h1

/-- the dictionary after the xmlns and attribute updates of base.py:380-386 (and 389 / 399) -/
theorem rd_eq :
    (if !hd.attrs.isEmpty then dictUpdate (X o hd) (mapAttrs o m hd) else X o hd) = X o hd ++ mapAttrs o m hd ∧
    dictUpdate (X o hd ++ mapAttrs o m hd) (mapAttrs o m hd) = X o hd ++ mapAttrs o m hd := by
  refine ⟨?_, dictUpdate_same _ _ (XA_nodup w) (fun kv hkv => by simp [hkv])⟩
  by_cases he : hd.attrs = []
  · simp [he, mapAttrs_nil he]
  · have : hd.attrs.isEmpty = false := by simpa [List.isEmpty_iff] using he
    simp only [this, Bool.not_false, if_true]
    apply dictUpdate_fresh _ _ _ w.attrsNodup
    intro kv hkv kv' hkv' hab
    have h1 := X_class w kv' hkv'
    obtain ⟨a, h2⟩ := mapAttrs_class w kv hkv
    rw [hab, h2] at h1
    cases h1

theorem X0_eq : (if o.useNs && !hd.xmlns.isEmpty then dictUpdate [] (xmlnsEntries (pre o) hd.xmlns) else []) = X o hd := by
  unfold X
  split
  · exact dictUpdate_nil _ w.xmlnsNodup
  · rfl

/-- the xmlns declarations that `element_encode` reads back from the dictionary -/
theorem xmlnsOf_dict (T : List (String × J)) (hT : ∀ kv ∈ T, xmlnsLike o kv.1 = false) :
    xmlnsOf o (X o hd ++ mapAttrs o m hd ++ T) = xs o hd := by
  unfold xmlnsOf xs
  cases hu : o.useNs with
  | false => rfl
  | true =>
    simp only [if_true, List.filterMap_append]
    have hA : (mapAttrs o m hd).filterMap (xmlnsOfKv o) = [] := by
      apply List.filterMap_eq_nil_iff.mpr
      intro kv hkv
      exact xmlnsOfKv_none (classify_notXmlns (.inr (mapAttrs_class w kv hkv)))
    have hT' : T.filterMap (xmlnsOfKv o) = [] := by
      apply List.filterMap_eq_nil_iff.mpr
      intro kv hkv
      exact xmlnsOfKv_none (hT kv hkv)
    rw [hA, hT']
    unfold X
    cases hx : hd.xmlns with
    | nil => simp [hu]
    | cons a l => simp only [hu, List.isEmpty_cons, Bool.not_false, Bool.and_self, if_true, List.append_nil]; rw [← hx]; exact w.xmlnsBack

/-- the encode loop over the xmlns and attribute part -/
theorem foldl_XA (a : Acc) :
    (X o hd ++ mapAttrs o m hd).foldl (encStep o m f) a = { a with attrs := dictUpdate a.attrs hd.attrs } := by
  rw [List.foldl_append, foldl_xmlns o m f _ a (X_class w)]
  by_cases he : hd.attrs = []
  · simp [he, mapAttrs_nil he, dictUpdate]
  · cases hp : o.attrPrefix with
    | none => have := w.attrPre he; simp [hp] at this
    | some p =>
      unfold mapAttrs
      simp only [hp]
      exact foldl_attrs o m f p hd.attrs a (w.attrClass p hp) w.attrsUm

end

theorem grp_keys (m : Mapper) (f : Facts) :
    ∀ (r : List (Item J)) (k : String) (sg : Bool) (vs : List J) (e : String × Bool × List J), e ∈ grp m f k sg vs r →
      e.1 = k ∨ e.1 ∈ keysOf m r := by
  intro r
  induction r with
  | nil => intro k sg vs e he; simp only [grp, List.mem_singleton] at he; subst he; exact .inl rfl
  | cons a r ih =>
    intro k sg vs e he
    cases a with
    | cdata i w => simp only [grp] at he; simpa [keysOf] using ih k sg vs e he
    | child nm s v =>
      simp only [grp] at he
      split at he
      · rcases ih _ _ _ e he with h | h
        · exact .inl h
        · exact .inr (by simp [keysOf, h])
      · simp only [List.mem_cons] at he
        rcases he with rfl | he
        · exact .inl rfl
        · rcases ih _ _ _ e he with h | h
          · exact .inr (by simp [keysOf, h])
          · exact .inr (by simp [keysOf, h])

theorem grp_ne_nil (m : Mapper) (f : Facts) :
    ∀ (r : List (Item J)) (k : String) (sg : Bool) (vs : List J), grp m f k sg vs r ≠ [] := by
  intro r
  induction r with
  | nil => intro k sg vs; simp [grp]
  | cons a r ih =>
    intro k sg vs
    cases a with
    | cdata i w => simpa [grp] using ih k sg vs
    | child nm s v =>
      simp only [grp]
      split
      · exact ih _ _ _
      · simp

theorem keysOf_mem {m : Mapper} {its : List (Item J)} {x : String} (h : x ∈ keysOf m its) :
    ∃ nm s v, Item.child nm s v ∈ its ∧ x = m.mp nm := by
  induction its with
  | nil => simp [keysOf] at h
  | cons a its ih =>
    cases a with
    | cdata i w =>
      obtain ⟨nm, s, v, hm, hx⟩ := ih (by simpa [keysOf] using h)
      exact ⟨nm, s, v, by simp [hm], hx⟩
    | child nm' s' v' =>
      simp only [keysOf, List.mem_cons] at h
      rcases h with rfl | h
      · exact ⟨nm', s', v', by simp, rfl⟩
      · obtain ⟨nm, s, v, hm, hx⟩ := ih h
        exact ⟨nm, s, v, by simp [hm], hx⟩

/-- **one level**: `element_encode (element_decode data) = norm1 data` under the guards `WF1` -/
theorem level_roundtrip {o : Opts} {m : Mapper} {f hd} {its : List (Item J)} (w : WF1 o m f hd its) (hk : Kids its) :
    enc o m f hd.tag (dec o m f hd its) = .ok (norm1 o f hd its) := by
  have hrd := rd_eq w
  have hX0 := X0_eq w
  have hattrs : dictUpdate [] hd.attrs = hd.attrs := dictUpdate_nil _ w.attrsNodup'
  unfold dec
  simp only [hX0, hrd.1, hrd.2]
  obtain ⟨tag, text, attrs, xmlns⟩ := hd
  -- enc of `null`
  have hnull : ∀ x, enc o m f tag .null = .ok ({ tag := tag, text := none, attrs := [], xmlns := x }, []) →
      True := fun _ _ => trivial
  have encNull : enc o m f tag .null = .ok ({ tag := tag, text := none, attrs := [], xmlns := [] }, []) := by
    unfold enc
    by_cases hs : f.simple = true
    · simp [hs, J.isNull]
    · simp [hs, J.isStr]
  cases its with
  | cons it r =>
    -- content: the dictionary holds the children
    have hg : f.hasGroup = true := by
      cases h : f.hasGroup with
      | true => rfl
      | false => exact absurd (w.noGroup h) (by simp)
    have ht : text = none := by
      cases text with
      | none => rfl
      | some t => exact absurd (w.textAlone (by simp)) (by simp)
    subst ht
    cases it with
    | cdata i v => have := w.noCd; simp [noCdata] at this
    | child nm s v =>
      have hnc : noCdata r = true := by simpa [noCdata] using w.noCd
      have k0 := w.kids nm s v (by simp)
      have hv0 : v.isSeq = false := hk nm s v (by simp)
      have hsing : ∀ x ∈ [v], x.isSeq = false := by
        intro x hx; rw [List.mem_singleton.mp hx]; exact hv0
      have hvals : ∀ nm' s' v', Item.child nm' s' v' ∈ r → v'.isSeq = false ∧ KidOK o m f nm' :=
        fun nm' s' v' h => ⟨hk nm' s' v' (by simp [h]), w.kids nm' s' v' (by simp [h])⟩
      have hfreshKey : ∀ nm' : String, KidOK o m f nm' →
          ∀ kv ∈ X o { tag := tag, text := none, attrs := attrs, xmlns := xmlns } ++
            mapAttrs o m { tag := tag, text := none, attrs := attrs, xmlns := xmlns }, kv.1 ≠ m.mp nm' := by
        intro nm' hk' kv hkv hab
        simp only [List.mem_append] at hkv
        rcases hkv with hkv | hkv
        · have := X_class w kv hkv; rw [hab, hk'.cls] at this; cases this
        · obtain ⟨a, this⟩ := mapAttrs_class w kv hkv; rw [hab, hk'.cls] at this; cases this
      simp only [hg, Bool.not_true, List.isEmpty_cons, Bool.or_false, Bool.false_eq_true, if_false, List.foldl_cons,
        decStep, ite_self]
      rw [put_fresh o _ (m.mp nm) v _ (hfreshKey nm k0)]
      rw [foldl_grp o m f r _ (m.mp nm) _ [v] hnc (by simpa [keysOf] using w.contiguous) (hfreshKey nm k0)
        (by
          intro x hx kv hkv
          obtain ⟨nm', s', v', hm, rfl⟩ := keysOf_mem hx
          exact hfreshKey nm' (w.kids nm' s' v' (by simp [hm])) kv hkv)
        (by simp) hsing
        (fun nm' s' v' h => (hvals nm' s' v' h).1)]
      have hne : (X o { tag := tag, text := none, attrs := attrs, xmlns := xmlns } ++
            mapAttrs o m { tag := tag, text := none, attrs := attrs, xmlns := xmlns } ++
            entries o (grp m f (m.mp nm) (f.singleGroup && s) [v] r)).isEmpty = false := by
        have := grp_ne_nil m f r (m.mp nm) (f.singleGroup && s) [v]
        simp [entries, this]
      simp only [orNone, hne, Bool.false_eq_true, if_false, enc]
      rw [List.foldl_append, foldl_XA w, foldl_entries o m f r (m.mp nm) _ [v] _ nm hnc rfl k0 (by simp)
        hsing hvals]
      rw [xmlnsOf_dict w]
      · simp [norm1, hg, hattrs, kidsOf, renum]
      · intro kv hkv
        simp only [entries, List.mem_map] at hkv
        obtain ⟨e, he, rfl⟩ := hkv
        rcases grp_keys m f r _ _ _ e he with h | h
        · simp only; rw [h]; exact classify_notXmlns (.inl k0.cls)
        · obtain ⟨nm', s', v', hm, hx⟩ := keysOf_mem h
          simp only; rw [hx]; exact classify_notXmlns (.inl (w.kids nm' s' v' (by simp [hm])).cls)
  | nil =>
    simp only [List.isEmpty_nil, Bool.or_true, if_true, norm1, Bool.not_true, Bool.and_false, Bool.false_eq_true,
      if_false]
    by_cases hkeep : keep o f { tag := tag, text := text, attrs := attrs, xmlns := xmlns } = true
    · simp only [hkeep, if_true]
      -- a kept dictionary: xmlns, attributes and the text under text_key
      have hdict : ∀ T : List (String × J), (∀ kv ∈ T, xmlnsLike o kv.1 = false) →
          ∀ t', (T.foldl (encStep o m f) { attrs := attrs }) = { text := t', attrs := attrs } →
          (X o { tag := tag, text := text, attrs := attrs, xmlns := xmlns } ++
             mapAttrs o m { tag := tag, text := text, attrs := attrs, xmlns := xmlns } ++ T ≠ []) →
          enc o m f tag (.dict (X o { tag := tag, text := text, attrs := attrs, xmlns := xmlns } ++
             mapAttrs o m { tag := tag, text := text, attrs := attrs, xmlns := xmlns } ++ T)) =
            .ok ({ tag := tag, text := t', attrs := attrs, xmlns := xs o { tag := tag, text := text, attrs := attrs, xmlns := xmlns } }, []) := by
        intro T hT t' hfold _
        simp only [enc]
        rw [List.foldl_append, foldl_XA w, xmlnsOf_dict w T hT]
        simp only [hattrs]
        rw [hfold]
      cases text with
      | none =>
        by_cases hemp : (X o { tag := tag, text := none, attrs := attrs, xmlns := xmlns } ++
            mapAttrs o m { tag := tag, text := none, attrs := attrs, xmlns := xmlns }) = []
        · -- nothing to keep: `None`
          have hA : attrs = [] := by
            by_cases he : attrs = []
            · exact he
            · have hp := w.attrPre he
              cases hp' : o.attrPrefix with
              | none => simp [hp'] at hp
              | some p =>
                have := (List.append_eq_nil_iff.mp hemp).2
                simp [mapAttrs, hp'] at this
                exact this
          have hxs : xs o { tag := tag, text := none, attrs := attrs, xmlns := xmlns } = [] := by
            have := (List.append_eq_nil_iff.mp hemp).1
            unfold X at this
            unfold xs
            cases hu : o.useNs with
            | false => rfl
            | true =>
              cases hx : xmlns with
              | nil => rfl
              | cons a l => simp [hu, hx, xmlnsEntries] at this
          simp only [hemp, orNone, List.isEmpty_nil, if_true]
          rw [encNull, hxs, hA]
        · have := hdict [] (by simp) none rfl (by simpa using hemp)
          simp only [List.append_nil] at this
          have hne : (X o { tag := tag, text := none, attrs := attrs, xmlns := xmlns } ++
            mapAttrs o m { tag := tag, text := none, attrs := attrs, xmlns := xmlns }).isEmpty = false := by
            simpa [List.isEmpty_iff] using hemp
          simp only [orNone, hne, Bool.false_eq_true, if_false]
          exact this
      | some t =>
        obtain ⟨tn, tm, tq⟩ := w.textOk t rfl
        have hk' := w.textKeyOk (by simp) hkeep
        cases htk : o.textKey with
        | none => simp [htk] at hk'
        | some tk =>
          have hcls : classify o tk = .text := by simp [classify, htk]
          have hfr : ∀ kv ∈ X o { tag := tag, text := some t, attrs := attrs, xmlns := xmlns } ++
              mapAttrs o m { tag := tag, text := some t, attrs := attrs, xmlns := xmlns }, kv.1 ≠ tk := by
            intro kv hkv hab
            simp only [List.mem_append] at hkv
            rcases hkv with hkv | hkv
            · have := X_class w kv hkv; rw [hab, hcls] at this; cases this
            · obtain ⟨a, this⟩ := mapAttrs_class w kv hkv; rw [hab, hcls] at this; cases this
          simp only
          rw [dictSet_fresh _ tk t hfr]
          have := hdict [(tk, t)] (by intro kv hkv; simp only [List.mem_singleton] at hkv; subst hkv; exact w.textNotXmlns tk htk)
            (some t) (by simp [encStep, hcls, tn]) (by simp)
          simp only [orNone]
          rw [if_neg (by simp)]
          exact this
    · -- the bare text (or `None`)
      simp only [hkeep, Bool.false_eq_true, if_false]
      have hkeep' : keep o f { tag := tag, text := text, attrs := attrs, xmlns := xmlns } = false := by
        simpa using hkeep
      have hA : attrs = [] := by
        unfold keep at hkeep'
        cases attrs with
        | nil => rfl
        | cons a l => simp at hkeep'
      subst hA
      cases text with
      | none => simp only; exact encNull
      | some t =>
        obtain ⟨tn, tm, tq⟩ := w.textOk t rfl
        simp only
        have hnd : ∀ kvs, t ≠ .dict kvs := by intro kvs h; subst h; simp [J.isMap] at tm
        by_cases hs : f.simple = true
        · unfold enc
          cases t <;> simp [J.isMap] at tm <;> simp [hs, tn]
        · rcases w.textPlace t rfl hkeep' with h | ⟨hmx, hstr⟩
          · exact absurd h hs
          · unfold enc
            cases t <;> simp [J.isMap] at tm <;> simp [hs, hmx, hstr]

theorem orNone_notSeq (d : List (String × J)) : (orNone d).isSeq = false := by
  unfold orNone; split <;> rfl

/-- `element_decode` never returns a sequence under the guards -/
theorem dec_inv {o : Opts} {m : Mapper} {f hd} {its : List (Item J)} (w : WF1 o m f hd its) :
    Inv hd.tag (dec o m f hd its) := by
  unfold Inv dec
  simp only
  by_cases h1 : (!f.hasGroup || its.isEmpty) = true
  · simp only [h1, if_true]
    by_cases h2 : keep o f hd = true
    · simp only [h2, if_true]; exact orNone_notSeq _
    · simp only [h2, Bool.false_eq_true, if_false]
      cases h : hd.text with
      | none => rfl
      | some t => exact (w.textOk t h).2.2
  · simp only [h1, Bool.false_eq_true, if_false]; exact orNone_notSeq _

end XsVerif.Conv.Dflt
