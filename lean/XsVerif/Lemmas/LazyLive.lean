/-
  Helper lemmas for the live-tree part of C06 (Model/LazyLive.lean).  Plain Lean core.
-/
import XsVerif.Model.LazyLive
import XsVerif.Lemmas.Lazy

namespace XsVerif.Lazy
set_option linter.unusedSimpArgs false
set_option linter.unusedVariables false

/-! ### list algebra of the event stream of one element -/

theorem foldl_events_node' {σ : Type} (f : σ → Ev → σ) (s : σ) (i : Nat) (tg : String)
    (ds : List (String × String)) (cs : List Tree) :
    (events (.node i tg ds cs)).foldl f s
      = (ds.map (fun _ => Ev.endNs)).foldl f
          (f ((eventsF cs).foldl f (f ((ds.map (fun d => Ev.startNs d.1 d.2)).foldl f s) (.start i tg)))
             (.stop i tg)) := by
  simp only [events, List.foldl_append, List.foldl_cons, List.foldl_nil]

/-! ### iter_depth on the live tree -/

theorem ld_startNs (th : Bool) (mode d : Nat) (ds : List (String × String)) (l : Nat) (fr : List Frame)
    (pend : List (String × String)) (nk : Nat) (fl : Bool) (out : List LYield) :
    (ds.map (fun d => Ev.startNs d.1 d.2)).foldl (ldStep th mode d) ⟨l, ⟨fr, pend, nk, fl⟩, out⟩
      = ⟨l, ⟨fr, pend ++ ds, nk, fl⟩, out⟩ := by
  induction ds generalizing pend with
  | nil => simp
  | cons x xs ih =>
    simp only [List.map_cons, List.foldl_cons, ldStep, TB.ev]
    rw [ih]
    simp [List.append_assoc]

theorem ld_endNs (th : Bool) (mode d : Nat) (ds : List (String × String)) (s : LdSt) :
    (ds.map (fun _ => Ev.endNs)).foldl (ldStep th mode d) s = s := by
  induction ds with
  | nil => rfl
  | cons x xs ih =>
    simp only [List.map_cons, List.foldl_cons, ldStep, TB.ev]
    exact ih

mutual
theorem ld_deep (th : Bool) (mode d : Nat) : ∀ (t : Tree) (l : Nat) (p : Frame) (ps : List Frame) (nk : Nat)
    (fl : Bool) (out : List LYield), d < l →
    (events t).foldl (ldStep th mode d) ⟨l, ⟨p :: ps, [], nk, fl⟩, out⟩
      = ⟨l, ⟨{ p with kids := p.kids ++ [t] } :: ps, [], nk + size t, fl⟩, out⟩
  | .node i tg ds cs, l, p, ps, nk, fl, out, h => by
    rw [foldl_events_node', ld_startNs, ld_endNs]
    have hl0 : (l == 0) = false := by simp; omega
    simp only [ldStep, TB.ev, hl0, Bool.false_and, Bool.false_eq_true, if_false, List.nil_append]
    rw [ld_deepF th mode d cs (l + 1) ⟨i, tg, ds, []⟩ (p :: ps) (nk + 1) fl out (by omega)]
    have h3 : (l != d) = true := by simp; omega
    simp only [ldStep, TB.ev, Nat.add_sub_cancel, hl0, Bool.false_eq_true, if_false, h3, if_true,
      List.nil_append, Frame.close, size]
    congr 2
    omega
theorem ld_deepF (th : Bool) (mode d : Nat) : ∀ (ts : List Tree) (l : Nat) (p : Frame) (ps : List Frame)
    (nk : Nat) (fl : Bool) (out : List LYield), d < l →
    (eventsF ts).foldl (ldStep th mode d) ⟨l, ⟨p :: ps, [], nk, fl⟩, out⟩
      = ⟨l, ⟨{ p with kids := p.kids ++ ts } :: ps, [], nk + sizeF ts, fl⟩, out⟩
  | [], l, p, ps, nk, fl, out, _ => by simp [eventsF, sizeF]
  | t :: ts, l, p, ps, nk, fl, out, h => by
    simp only [eventsF, List.foldl_append]
    rw [ld_deep th mode d t l p ps nk fl out h, ld_deepF th mode d ts l _ ps _ fl out h]
    simp only [sizeF, List.append_assoc, List.singleton_append]
    congr 2
    omega
end

theorem cutTree_id (k : Nat) (t : Tree) : (cutTree k t).id = t.id := by
  cases t; cases k <;> rfl

theorem clear_plain (p : Frame) (ps : List Frame) (e : Tree) (nk : Nat) (fl : Bool) (sk : Bool) :
    (TB.clear false sk ⟨{ p with kids := p.kids ++ [e] } :: ps, [], nk, fl⟩)
      = ⟨{ p with kids := p.kids ++ [stub e] } :: ps, [], nk - (size e - 1), fl⟩ := by
  simp [TB.clear]

/- not thin (modes 3-5, or a resource with thin_lazy=False): the tree keeps the document cut at the lazy depth -/
mutual
theorem ld_nt (th : Bool) (mode d : Nat) (hth : (decide (mode ≤ 2) && th) = false) :
    ∀ (t : Tree) (l : Nat) (p : Frame) (ps : List Frame) (nk : Nat) (fl : Bool) (out : List LYield),
    1 ≤ l → l ≤ d →
    ∃ ys, (events t).foldl (ldStep th mode d) ⟨l, ⟨p :: ps, [], nk, fl⟩, out⟩
        = ⟨l, ⟨{ p with kids := p.kids ++ [cutTree (d - l) t] } :: ps, [], nk + size (cutTree (d - l) t), fl⟩,
           out ++ ys⟩
      ∧ ys.map LYield.core = if mode ≠ 3 then sibsAt keepAll (d - l) (p.kids.map Tree.id) t else []
  | .node i tg ds cs, l, p, ps, nk, fl, out, h1, h2 => by
    rw [foldl_events_node', ld_startNs, ld_endNs]
    have hl0 : (l == 0) = false := by simp; omega
    by_cases hlt : l < d
    · obtain ⟨k, hk⟩ : ∃ k, d - l = k + 1 := ⟨d - l - 1, by omega⟩
      have hk2 : d - (l + 1) = k := by omega
      rw [hk]
      simp only [ldStep, TB.ev, hl0, Bool.false_and, Bool.false_eq_true, if_false, List.nil_append]
      obtain ⟨ys, hy, hc⟩ := ld_ntF th mode d hth cs (l + 1) ⟨i, tg, ds, []⟩ (p :: ps) (nk + 1) fl out
        (by omega) (by omega)
      rw [hk2] at hy hc
      rw [hy]
      have h3 : (l != d) = true := by simp; omega
      refine ⟨ys, ?_, ?_⟩
      · simp only [ldStep, TB.ev, Nat.add_sub_cancel, hl0, Bool.false_eq_true, if_false, h3, if_true,
          List.nil_append, Frame.close, cutTree, size]
        congr 2
        omega
      · rw [hc]
        simp [sibsAt]
    · have hd : l = d := by omega
      subst hd
      rw [Nat.sub_self]
      simp only [ldStep, TB.ev, hl0, Bool.false_and, Bool.false_eq_true, if_false, List.nil_append]
      rw [ld_deepF th mode l cs (l + 1) ⟨i, tg, ds, []⟩ (p :: ps) (nk + 1) fl out (by omega)]
      simp only [ldStep, TB.ev, Nat.add_sub_cancel, hl0, Bool.false_eq_true, if_false, bne_self_eq_false,
        List.nil_append, Frame.close, hth, cutTree]
      rw [clear_plain]
      by_cases hm : mode = 3
      · subst hm
        refine ⟨[], ?_, by simp⟩
        simp only [List.append_nil, stub, size, sizeF]
        congr 2
        omega
      · refine ⟨[⟨.node i tg ds cs, p.kids.map Tree.id, nk + 1 + sizeF cs⟩], ?_, ?_⟩
        · simp only [bne_iff_ne, ne_eq, hm, not_false_eq_true, if_true, stub, size, sizeF]
          congr 2
          omega
        · simp [hm, LYield.core, sibsAt]
theorem ld_ntF (th : Bool) (mode d : Nat) (hth : (decide (mode ≤ 2) && th) = false) :
    ∀ (ts : List Tree) (l : Nat) (p : Frame) (ps : List Frame) (nk : Nat) (fl : Bool) (out : List LYield),
    1 ≤ l → l ≤ d →
    ∃ ys, (eventsF ts).foldl (ldStep th mode d) ⟨l, ⟨p :: ps, [], nk, fl⟩, out⟩
        = ⟨l, ⟨{ p with kids := p.kids ++ cutTreeF (d - l) ts } :: ps, [], nk + sizeF (cutTreeF (d - l) ts), fl⟩,
           out ++ ys⟩
      ∧ ys.map LYield.core = if mode ≠ 3 then sibsAtF keepAll (d - l) (p.kids.map Tree.id) ts else []
  | [], l, p, ps, nk, fl, out, _, _ => by
    refine ⟨[], ?_, by simp [sibsAtF]⟩
    simp [eventsF, cutTreeF, sizeF]
  | t :: ts, l, p, ps, nk, fl, out, h1, h2 => by
    simp only [eventsF, List.foldl_append]
    obtain ⟨y1, e1, c1⟩ := ld_nt th mode d hth t l p ps nk fl out h1 h2
    rw [e1]
    obtain ⟨y2, e2, c2⟩ := ld_ntF th mode d hth ts l { p with kids := p.kids ++ [cutTree (d - l) t] } ps
      (nk + size (cutTree (d - l) t)) fl (out ++ y1) h1 h2
    rw [e2]
    refine ⟨y1 ++ y2, ?_, ?_⟩
    · simp only [cutTreeF, sizeF, List.append_assoc, List.singleton_append]
      congr 2
      omega
    · rw [List.map_append, c1, c2]
      by_cases hm : mode = 3
      · simp [hm]
      · simp [hm, sibsAtF, keepAll, cutTree_id]
end

theorem sibsAt_succ_pre (nxt : List Nat → Nat → List Nat) (k : Nat) (pre pre' : List Nat) (t : Tree) :
    sibsAt nxt (k + 1) pre t = sibsAt nxt (k + 1) pre' t := by
  cases t; simp [sibsAt]

theorem sibsAtF_succ_pre (nxt : List Nat → Nat → List Nat) (k : Nat) :
    ∀ (ts : List Tree) (pre pre' : List Nat), sibsAtF nxt (k + 1) pre ts = sibsAtF nxt (k + 1) pre' ts
  | [], _, _ => by simp [sibsAtF]
  | t :: ts, pre, pre' => by
    simp only [sibsAtF]
    rw [sibsAt_succ_pre nxt k pre pre' t, sibsAtF_succ_pre nxt k ts (nxt pre t.id) (nxt pre' t.id)]

theorem clear_thin (p : Frame) (ps : List Frame) (e : Tree) (nk : Nat) (fl : Bool) :
    ∃ nk', (TB.clear true false ⟨{ p with kids := p.kids ++ [e] } :: ps, [], nk, fl⟩)
      = ⟨{ p with kids := [stub e] } :: ps.map clearKids, [], nk', fl⟩ := by
  simp [TB.clear]

theorem stub_id (t : Tree) : (stub t).id = t.id := by cases t; rfl

/- thin (modes 1, 2 of a thin resource): what is yielded, and the siblings that are still in the tree -/
mutual
theorem ld_th (th : Bool) (mode d : Nat) (hth : (decide (mode ≤ 2) && th) = true) :
    ∀ (t : Tree) (l : Nat) (p : Frame) (ps : List Frame) (nk : Nat) (fl : Bool) (out : List LYield),
    1 ≤ l → l ≤ d →
    ∃ p' ps' nk' ys, (events t).foldl (ldStep th mode d) ⟨l, ⟨p :: ps, [], nk, fl⟩, out⟩
        = ⟨l, ⟨p' :: ps', [], nk', fl⟩, out ++ ys⟩
      ∧ ps'.length = ps.length
      ∧ ys.map LYield.core = sibsAt keepOne (d - l) (p.kids.map Tree.id) t
      ∧ (l = d → p'.kids.map Tree.id = [t.id])
  | .node i tg ds cs, l, p, ps, nk, fl, out, h1, h2 => by
    rw [foldl_events_node', ld_startNs, ld_endNs]
    have hl0 : (l == 0) = false := by simp; omega
    have hm : mode ≤ 2 := by simp at hth; exact hth.1
    have hm3 : (mode != 3) = true := by simp; omega
    by_cases hlt : l < d
    · obtain ⟨k, hk⟩ : ∃ k, d - l = k + 1 := ⟨d - l - 1, by omega⟩
      have hk2 : d - (l + 1) = k := by omega
      rw [hk]
      simp only [ldStep, TB.ev, hl0, Bool.false_and, Bool.false_eq_true, if_false, List.nil_append]
      obtain ⟨p1, ps1, nk1, ys, hy, hlen, hc, _⟩ := ld_thF th mode d hth cs (l + 1) ⟨i, tg, ds, []⟩ (p :: ps)
        (nk + 1) fl out (by omega) (by omega)
      rw [hk2] at hc
      rw [hy]
      have h3 : (l != d) = true := by simp; omega
      match ps1, hlen with
      | q :: qs, hlen =>
        refine ⟨{ q with kids := q.kids ++ [p1.close] }, qs, nk1, ys, ?_, ?_, ?_, ?_⟩
        · simp only [ldStep, TB.ev, Nat.add_sub_cancel, hl0, Bool.false_eq_true, if_false, h3, if_true]
        · simpa using hlen
        · rw [hc]; simp [sibsAt]
        · intro h; omega
    · have hd : l = d := by omega
      subst hd
      rw [Nat.sub_self]
      simp only [ldStep, TB.ev, hl0, Bool.false_and, Bool.false_eq_true, if_false, List.nil_append]
      rw [ld_deepF th mode l cs (l + 1) ⟨i, tg, ds, []⟩ (p :: ps) (nk + 1) fl out (by omega)]
      simp only [ldStep, TB.ev, Nat.add_sub_cancel, hl0, Bool.false_eq_true, if_false, bne_self_eq_false,
        List.nil_append, Frame.close, hth, hm3, if_true]
      obtain ⟨nk', hcl⟩ := clear_thin p ps (.node i tg ds cs) (nk + 1 + sizeF cs) fl
      rw [hcl]
      refine ⟨{ p with kids := [stub (.node i tg ds cs)] }, ps.map clearKids, nk',
        [⟨.node i tg ds cs, p.kids.map Tree.id, nk + 1 + sizeF cs⟩], rfl, by simp, ?_, ?_⟩
      · simp [LYield.core, sibsAt]
      · intro _; simp [stub, Tree.id]
theorem ld_thF (th : Bool) (mode d : Nat) (hth : (decide (mode ≤ 2) && th) = true) :
    ∀ (ts : List Tree) (l : Nat) (p : Frame) (ps : List Frame) (nk : Nat) (fl : Bool) (out : List LYield),
    1 ≤ l → l ≤ d →
    ∃ p' ps' nk' ys, (eventsF ts).foldl (ldStep th mode d) ⟨l, ⟨p :: ps, [], nk, fl⟩, out⟩
        = ⟨l, ⟨p' :: ps', [], nk', fl⟩, out ++ ys⟩
      ∧ ps'.length = ps.length
      ∧ ys.map LYield.core = sibsAtF keepOne (d - l) (p.kids.map Tree.id) ts
      ∧ (l = d → p'.kids.map Tree.id = ts.foldl (fun pre c => keepOne pre c.id) (p.kids.map Tree.id))
  | [], l, p, ps, nk, fl, out, _, _ => by
    exact ⟨p, ps, nk, [], by simp [eventsF], rfl, by simp [sibsAtF], by intro _; simp⟩
  | t :: ts, l, p, ps, nk, fl, out, h1, h2 => by
    simp only [eventsF, List.foldl_append]
    obtain ⟨p1, ps1, nk1, y1, e1, len1, c1, k1⟩ := ld_th th mode d hth t l p ps nk fl out h1 h2
    rw [e1]
    obtain ⟨p2, ps2, nk2, y2, e2, len2, c2, k2⟩ := ld_thF th mode d hth ts l p1 ps1 nk1 fl (out ++ y1) h1 h2
    rw [e2]
    refine ⟨p2, ps2, nk2, y1 ++ y2, by simp [List.append_assoc], by omega, ?_, ?_⟩
    · rw [List.map_append, c1, c2]
      simp only [sibsAtF]
      congr 1
      by_cases hlt : l < d
      · obtain ⟨k, hk⟩ : ∃ k, d - l = k + 1 := ⟨d - l - 1, by omega⟩
        rw [hk]
        exact sibsAtF_succ_pre keepOne k ts _ _
      · have hd : l = d := by omega
        rw [k1 hd]; rfl
    · intro hd
      rw [k2 hd, k1 hd]
      simp [keepOne]
end

/-! ### the repaired `iter` -/

theorem li_startNs (th : Bool) (d : Nat) (sel : String → Bool) (ds : List (String × String)) (l : Nat)
    (fr : List Frame) (pend : List (String × String)) (nk : Nat) (fl : Bool) (out : List (Nat × Kind)) :
    (ds.map (fun d => Ev.startNs d.1 d.2)).foldl (liStep th d sel) ⟨l, ⟨fr, pend, nk, fl⟩, out⟩
      = ⟨l, ⟨fr, pend ++ ds, nk, fl⟩, out⟩ := by
  induction ds generalizing pend with
  | nil => simp
  | cons x xs ih =>
    simp only [List.map_cons, List.foldl_cons, liStep, TB.ev]
    rw [ih]
    simp [List.append_assoc]

theorem li_endNs (th : Bool) (d : Nat) (sel : String → Bool) (ds : List (String × String)) (s : LiSt) :
    (ds.map (fun _ => Ev.endNs)).foldl (liStep th d sel) s = s := by
  induction ds with
  | nil => rfl
  | cons x xs ih =>
    simp only [List.map_cons, List.foldl_cons, liStep, TB.ev]
    exact ih

mutual
theorem li_deep (th : Bool) (d : Nat) (sel : String → Bool) : ∀ (t : Tree) (l : Nat) (p : Frame)
    (ps : List Frame) (nk : Nat) (fl : Bool) (out : List (Nat × Kind)), d < l →
    (events t).foldl (liStep th d sel) ⟨l, ⟨p :: ps, [], nk, fl⟩, out⟩
      = ⟨l, ⟨{ p with kids := p.kids ++ [t] } :: ps, [], nk + size t, fl⟩, out⟩
  | .node i tg ds cs, l, p, ps, nk, fl, out, h => by
    rw [foldl_events_node', li_startNs, li_endNs]
    have h1 : ¬ (l < d) := by omega
    simp only [liStep, TB.ev, h1, decide_false, Bool.false_and, Bool.false_eq_true, if_false, List.nil_append]
    rw [li_deepF th d sel cs (l + 1) ⟨i, tg, ds, []⟩ (p :: ps) (nk + 1) fl out (by omega)]
    simp only [liStep, TB.ev, Nat.add_sub_cancel, h1, if_false, h, if_true, List.nil_append, Frame.close, size]
    congr 2
    omega
theorem li_deepF (th : Bool) (d : Nat) (sel : String → Bool) : ∀ (ts : List Tree) (l : Nat) (p : Frame)
    (ps : List Frame) (nk : Nat) (fl : Bool) (out : List (Nat × Kind)), d < l →
    (eventsF ts).foldl (liStep th d sel) ⟨l, ⟨p :: ps, [], nk, fl⟩, out⟩
      = ⟨l, ⟨{ p with kids := p.kids ++ ts } :: ps, [], nk + sizeF ts, fl⟩, out⟩
  | [], l, p, ps, nk, fl, out, _ => by simp [eventsF, sizeF]
  | t :: ts, l, p, ps, nk, fl, out, h => by
    simp only [eventsF, List.foldl_append]
    rw [li_deep th d sel t l p ps nk fl out h, li_deepF th d sel ts l _ ps _ fl out h]
    simp only [sizeF, List.append_assoc, List.singleton_append]
    congr 2
    omega
end

mutual
theorem preSel_all : ∀ t : Tree, preSel allTags t = preorder t
  | .node i _ _ cs => by simp [preSel, preorder, allTags, preSelF_all cs]
theorem preSelF_all : ∀ ts : List Tree, preSelF allTags ts = preorderF ts
  | [] => rfl
  | t :: ts => by simp [preSelF, preorderF, preSel_all t, preSelF_all ts]
end

theorem clear_shape (th : Bool) (p : Frame) (ps : List Frame) (e : Tree) (nk : Nat) (fl : Bool) :
    ∃ p' ps' nk', (TB.clear th true ⟨{ p with kids := p.kids ++ [e] } :: ps, [], nk, fl⟩)
      = ⟨p' :: ps', [], nk', fl⟩ ∧ ps'.length = ps.length := by
  simp only [TB.clear, List.getLast?_append, List.getLast?_singleton, Option.some_or]
  split
  · refine ⟨_, _, _, rfl, ?_⟩
    simp <;> omega
  · exact ⟨_, _, _, rfl, rfl⟩

mutual
theorem li_top (th : Bool) (d : Nat) : ∀ (t : Tree) (l : Nat) (p : Frame) (ps : List Frame) (nk : Nat)
    (fl : Bool) (out : List (Nat × Kind)), l ≤ d →
    ∃ p' ps' nk', (events t).foldl (liStep th d allTags) ⟨l, ⟨p :: ps, [], nk, fl⟩, out⟩
        = ⟨l, ⟨p' :: ps', [], nk', fl⟩, out ++ docOrder d l t⟩
      ∧ ps'.length = ps.length
  | .node i tg ds cs, l, p, ps, nk, fl, out, h => by
    rw [foldl_events_node', li_startNs, li_endNs]
    by_cases hlt : l < d
    · simp only [liStep, TB.ev, hlt, decide_true, allTags, Bool.and_self, if_true, List.nil_append]
      obtain ⟨p1, ps1, nk1, hy, hlen⟩ := li_topF th d cs (l + 1) ⟨i, tg, ds, []⟩ (p :: ps) (nk + 1) fl
        (out ++ [(i, Kind.incomplete)]) (by omega)
      rw [hy]
      match ps1, hlen with
      | q :: qs, hlen =>
        refine ⟨{ q with kids := q.kids ++ [p1.close] }, qs, nk1, ?_, by simpa using hlen⟩
        simp only [liStep, TB.ev, Nat.add_sub_cancel, hlt, if_true, docOrder, List.append_assoc,
          List.singleton_append]
    · have hd : l = d := by omega
      subst hd
      simp only [liStep, TB.ev, hlt, decide_false, Bool.false_and, Bool.false_eq_true, if_false,
        List.nil_append]
      rw [li_deepF th l allTags cs (l + 1) ⟨i, tg, ds, []⟩ (p :: ps) (nk + 1) fl out (by omega)]
      simp only [liStep, TB.ev, Nat.add_sub_cancel, Nat.lt_irrefl, if_false, List.nil_append, Frame.close]
      obtain ⟨p', ps', nk', hcl, hlen⟩ := clear_shape th p ps (.node i tg ds cs) (nk + 1 + sizeF cs) fl
      rw [hcl]
      refine ⟨p', ps', nk', ?_, hlen⟩
      simp [iterElem, allTags, docOrder, preSelF_all]
theorem li_topF (th : Bool) (d : Nat) : ∀ (ts : List Tree) (l : Nat) (p : Frame) (ps : List Frame) (nk : Nat)
    (fl : Bool) (out : List (Nat × Kind)), l ≤ d →
    ∃ p' ps' nk', (eventsF ts).foldl (liStep th d allTags) ⟨l, ⟨p :: ps, [], nk, fl⟩, out⟩
        = ⟨l, ⟨p' :: ps', [], nk', fl⟩, out ++ docOrderF d l ts⟩
      ∧ ps'.length = ps.length
  | [], l, p, ps, nk, fl, out, _ => ⟨p, ps, nk, by simp [eventsF, docOrderF], rfl⟩
  | t :: ts, l, p, ps, nk, fl, out, h => by
    simp only [eventsF, List.foldl_append]
    obtain ⟨p1, ps1, nk1, e1, len1⟩ := li_top th d t l p ps nk fl out h
    rw [e1]
    obtain ⟨p2, ps2, nk2, e2, len2⟩ := li_topF th d ts l p1 ps1 nk1 fl _ h
    rw [e2]
    exact ⟨p2, ps2, nk2, by simp [docOrderF, List.append_assoc], by omega⟩
end

mutual
theorem docOrder_perm (d : Nat) : ∀ (t : Tree) (l : Nat), ((docOrder d l t).map Prod.fst) = preorder t
  | .node i _ _ cs, l => by
    simp only [docOrder, preorder]
    split
    · simp [docOrderF_perm d cs (l + 1)]
    · simp [Function.comp_def]
theorem docOrderF_perm (d : Nat) : ∀ (ts : List Tree) (l : Nat),
    ((docOrderF d l ts).map Prod.fst) = preorderF ts
  | [], _ => by simp [docOrderF, preorderF]
  | t :: ts, l => by
    simp [docOrderF, preorderF, docOrder_perm d t l, docOrderF_perm d ts l]
end

mutual
theorem sibsAt_trees (nxt : List Nat → Nat → List Nat) : ∀ (k : Nat) (pre : List Nat) (t : Tree),
    (sibsAt nxt k pre t).map Prod.fst = treesAt k t
  | 0, pre, t => by simp [sibsAt, treesAt]
  | k + 1, pre, .node _ _ _ cs => by
    simp only [sibsAt, treesAt]
    exact sibsAtF_trees nxt k [] cs
theorem sibsAtF_trees (nxt : List Nat → Nat → List Nat) : ∀ (k : Nat) (pre : List Nat) (ts : List Tree),
    (sibsAtF nxt k pre ts).map Prod.fst = treesAtF k ts
  | _, _, [] => by simp [sibsAtF, treesAtF]
  | k, pre, t :: ts => by
    simp only [sibsAtF, treesAtF, List.map_append]
    rw [sibsAt_trees nxt k pre t, sibsAtF_trees nxt k _ ts]
end

/-! ### identity-constraint tables -/

theorem Ctr.get_add (c : Ctr) (v n w : Nat) :
    (c.add v n).get w = c.get w + (if v = w then n else 0) := by
  induction c with
  | nil => by_cases h : v = w <;> simp [Ctr.add, Ctr.get, h]
  | cons p c ih =>
    obtain ⟨k, m⟩ := p
    by_cases hk : k = v
    · subst hk
      by_cases h : k = w <;> simp [Ctr.add, Ctr.get, h]
    · by_cases h : k = w
      · subst h
        have : ¬ (v = k) := fun e => hk e.symm
        simp [Ctr.add, Ctr.get, hk, this]
      · simp [Ctr.add, Ctr.get, hk, h, ih]

theorem collectFrom_get (vals : List Nat) : ∀ (s : Ctr × List Nat) (w : Nat),
    (collectFrom s vals).1.get w = s.1.get w + vals.count w := by
  induction vals with
  | nil => intro s w; simp [collectFrom]
  | cons v vals ih =>
    intro s w
    have := ih (s.1.add v 1, if (s.1.add v 1).get v == 2 then s.2 ++ [v] else s.2) w
    simp only [collectFrom, List.foldl_cons] at this ⊢
    rw [this, Ctr.get_add, List.count_cons]
    by_cases h : v = w <;> simp [h] <;> omega

theorem collect_get (vals : List Nat) (w : Nat) : (collect vals).1.get w = vals.count w := by
  simp [collect, collectFrom_get, Ctr.get]

/-- sum of the counts stored for `w` in a counter given as a list of pairs -/
def Ctr.total : Ctr → Nat → Nat
  | [], _ => 0
  | (k, n) :: c, w => (if k = w then n else 0) + Ctr.total c w

theorem Ctr.update_get (o : Ctr) : ∀ (c : Ctr) (w : Nat), (c.update o).get w = c.get w + o.total w := by
  induction o with
  | nil => intro c w; simp [Ctr.update, Ctr.total]
  | cons p o ih =>
    intro c w
    have := ih (c.add p.1 p.2) w
    simp only [Ctr.update, List.foldl_cons] at this ⊢
    rw [this, Ctr.get_add]
    obtain ⟨k, n⟩ := p
    simp only [Ctr.total]
    omega

theorem Ctr.total_add (c : Ctr) (v n w : Nat) :
    (c.add v n).total w = c.total w + (if v = w then n else 0) := by
  induction c with
  | nil => simp [Ctr.add, Ctr.total]
  | cons p c ih =>
    obtain ⟨k, m⟩ := p
    by_cases hk : k = v
    · subst hk
      by_cases h : k = w <;> simp [Ctr.add, Ctr.total, h] <;> omega
    · simp only [Ctr.add, beq_iff_eq, hk, if_false, Ctr.total, ih]
      omega

theorem collectFrom_total (vals : List Nat) : ∀ (s : Ctr × List Nat) (w : Nat),
    (collectFrom s vals).1.total w = s.1.total w + vals.count w := by
  induction vals with
  | nil => intro s w; simp [collectFrom]
  | cons v vals ih =>
    intro s w
    have := ih (s.1.add v 1, if (s.1.add v 1).get v == 2 then s.2 ++ [v] else s.2) w
    simp only [collectFrom, List.foldl_cons] at this ⊢
    rw [this, Ctr.total_add, List.count_cons]
    by_cases h : v = w <;> simp [h] <;> omega

theorem count_phases (sel : List (Bool × Nat)) (w : Nat) :
    (phaseVals false sel).count w + (phaseVals true sel).count w = (sel.map Prod.snd).count w := by
  induction sel with
  | nil => simp [phaseVals]
  | cons p sel ih =>
    obtain ⟨b, v⟩ := p
    simp only [phaseVals] at ih ⊢
    cases b <;> simp [List.filter_cons, List.count_cons] at ih ⊢ <;> omega

end XsVerif.Lazy
