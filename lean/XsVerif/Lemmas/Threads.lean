/-
  Helper lemmas for C18 (interleaving invariants).
-/
import XsVerif.Model.Threads

namespace XsVerif.Threads

@[simp] theorem upd_same {β : Type} (f : Nat → β) (t : Nat) (v : β) : upd f t v t = v := by simp [upd]
theorem upd_other {β : Type} (f : Nat → β) (t x : Nat) (v : β) (h : x ≠ t) : upd f t v x = f x := by
  simp [upd, h]

def PC.isWork : PC → Bool
  | .body _ | .setBuilt | .post _ => true
  | _ => false

def PC.isPre : PC → Bool
  | .body _ | .setBuilt => true
  | _ => false

theorem isPre_inRegion (p : PC) (h : p.isPre = true) : p.inRegion = true := by
  cases p <;> simp_all [PC.isPre, PC.inRegion]

theorem isWork_inRegion (p : PC) (h : p.isWork = true) : p.inRegion = true := by
  cases p <;> simp_all [PC.isWork, PC.inRegion]

/-- Invariant of the double-checked lock, over every interleaving. -/
structure BInv (c : Cfg) : Prop where
  holder : ∀ t, (c.pc t).inRegion = true → c.lock = some t
  locked : ∀ t, c.lock = some t → (c.pc t).inRegion = true
  r0 : c.built = false → (∀ t, (c.pc t).isWork = false) → c.runs = 0
  r1 : ∀ t, (c.pc t).isWork = true → c.runs = 1
  r2 : c.built = true → c.runs = 1 ∧ c.maps = .complete
  m1 : ∀ t, c.pc t = .setBuilt → c.maps = .complete
  pre : ∀ t, (c.pc t).isPre = true → c.built = false
  post : ∀ t k, c.pc t = .post k → c.built = true
  doneOk : ∀ t ph, c.pc t = .done ph → ph = .complete ∧ c.built = true

theorem r0_of_work (pc : Nat → PC) (t : Nat) (v : PC) (b : Bool) (r : Nat) (hv : v.isWork = true) :
    b = false → (∀ x, (upd pc t v x).isWork = false) → r = 0 := by
  intro _ hall; have := hall t; simp [hv] at this

theorem r0_of_built (P : Prop) (b : Bool) (r : Nat) (hb : b = true) : b = false → P → r = 0 := by
  intro h; simp [hb] at h

theorem r0_keep (pc : Nat → PC) (t : Nat) (v : PC) (b : Bool) (r : Nat) (hv : (pc t).isWork = false)
    (r0 : b = false → (∀ x, (pc x).isWork = false) → r = 0) :
    b = false → (∀ x, (upd pc t v x).isWork = false) → r = 0 := by
  intro hb hall
  apply r0 hb
  intro x
  by_cases hx : x = t
  · subst hx; exact hv
  · have := hall x; rwa [upd_other _ _ _ _ hx] at this

theorem binv_init (b p : Nat) : BInv (init b p) := by
  refine ⟨?_, ?_, ?_, ?_, ?_, ?_, ?_, ?_, ?_⟩ <;> simp [init, PC.inRegion, PC.isWork, PC.isPre]

theorem binv_step (t : Nat) (c c' : Cfg) (h : BInv c) (hs : step t c = some c') : BInv c' := by
  obtain ⟨holder, locked, r0, r1, r2, m1, pre, post, doneOk⟩ := h
  unfold step at hs
  -- every other thread keeps its pc
  have other : ∀ (v : PC) (x : Nat), x ≠ t → upd c.pc t v x = c.pc x := fun v x hx => upd_other _ _ _ _ hx
  split at hs
  · -- start
    rename_i hpc
    split at hs <;> (simp only [Option.some.injEq] at hs; subst hs)
    · rename_i hb
      have := r2 hb
      refine ⟨?_, ?_, ?_, ?_, ?_, ?_, ?_, ?_, ?_⟩
      rotate_left 2
      · first
          | (apply r0_of_work c.pc t; simp [PC.isWork]; done)
          | (apply r0_of_built; simp_all; done)
          | (apply r0_keep c.pc t _ _ _ _ r0; simp [hpc, PC.isWork]; done)
      all_goals (simp only; grind [upd, PC.inRegion, PC.isWork, PC.isPre, isPre_inRegion, isWork_inRegion])
    · refine ⟨?_, ?_, ?_, ?_, ?_, ?_, ?_, ?_, ?_⟩
      rotate_left 2
      · first
          | (apply r0_of_work c.pc t; simp [PC.isWork]; done)
          | (apply r0_of_built; simp_all; done)
          | (apply r0_keep c.pc t _ _ _ _ r0; simp [hpc, PC.isWork]; done)
      all_goals (simp only; grind [upd, PC.inRegion, PC.isWork, PC.isPre, isPre_inRegion, isWork_inRegion])
  · -- wantLock
    rename_i hpc
    split at hs
    · simp only [Option.some.injEq] at hs; subst hs
      rename_i hl
      refine ⟨?_, ?_, ?_, ?_, ?_, ?_, ?_, ?_, ?_⟩
      rotate_left 2
      · first
          | (apply r0_of_work c.pc t; simp [PC.isWork]; done)
          | (apply r0_of_built; simp_all; done)
          | (apply r0_keep c.pc t _ _ _ _ r0; simp [hpc, PC.isWork]; done)
      all_goals (simp only; grind [upd, PC.inRegion, PC.isWork, PC.isPre, isPre_inRegion, isWork_inRegion])
    · cases hs
  · -- locked
    rename_i hpc
    have hlk : c.lock = some t := holder t (by simp [hpc, PC.inRegion])
    split at hs <;> (simp only [Option.some.injEq] at hs; subst hs)
    · rename_i hb
      have := r2 hb
      refine ⟨?_, ?_, ?_, ?_, ?_, ?_, ?_, ?_, ?_⟩
      rotate_left 2
      · first
          | (apply r0_of_work c.pc t; simp [PC.isWork]; done)
          | (apply r0_of_built; simp_all; done)
          | (apply r0_keep c.pc t _ _ _ _ r0; simp [hpc, PC.isWork]; done)
      all_goals (simp only; grind [upd, PC.inRegion, PC.isWork, PC.isPre, isPre_inRegion, isWork_inRegion])
    · rename_i hb
      have hnb : c.built = false := by simpa using hb
      have nowork : ∀ x, (c.pc x).isWork = false := by
        intro x
        cases hw : (c.pc x).isWork with
        | false => rfl
        | true =>
          have hr : (c.pc x).inRegion = true := by
            revert hw; cases c.pc x <;> simp [PC.isWork, PC.inRegion]
          have := holder x hr
          rw [hlk] at this
          have : x = t := by simpa using this.symm
          subst this
          simp [hpc, PC.isWork] at hw
      have hr0 := r0 hnb nowork
      refine ⟨?_, ?_, ?_, ?_, ?_, ?_, ?_, ?_, ?_⟩
      rotate_left 2
      · first
          | (apply r0_of_work c.pc t; simp [PC.isWork]; done)
          | (apply r0_of_built; simp_all; done)
          | (apply r0_keep c.pc t _ _ _ _ r0; simp [hpc, PC.isWork]; done)
      all_goals (simp only; grind [upd, PC.inRegion, PC.isWork, PC.isPre, isPre_inRegion, isWork_inRegion])
  · -- body (k+1)
    rename_i k hpc
    simp only [Option.some.injEq] at hs; subst hs
    have hlk : c.lock = some t := holder t (by simp [hpc, PC.inRegion])
    have hnb : c.built = false := pre t (by simp [hpc, PC.isPre])
    have uniq : ∀ x, (c.pc x).inRegion = true → x = t := by
      intro x hx; have := holder x hx; rw [hlk] at this; simpa using this.symm
    refine ⟨?_, ?_, ?_, ?_, ?_, ?_, ?_, ?_, ?_⟩
    rotate_left 2
    · first
        | (apply r0_of_work c.pc t; simp [PC.isWork]; done)
        | (apply r0_of_built; simp_all; done)
        | (apply r0_keep c.pc t _ _ _ _ r0; simp [hpc, PC.isWork]; done)
    all_goals (simp only; grind [upd, PC.inRegion, PC.isWork, PC.isPre, isPre_inRegion, isWork_inRegion])
  · -- body 0
    rename_i hpc
    simp only [Option.some.injEq] at hs; subst hs
    have hlk : c.lock = some t := holder t (by simp [hpc, PC.inRegion])
    have hnb : c.built = false := pre t (by simp [hpc, PC.isPre])
    refine ⟨?_, ?_, ?_, ?_, ?_, ?_, ?_, ?_, ?_⟩
    rotate_left 2
    · first
        | (apply r0_of_work c.pc t; simp [PC.isWork]; done)
        | (apply r0_of_built; simp_all; done)
        | (apply r0_keep c.pc t _ _ _ _ r0; simp [hpc, PC.isWork]; done)
    all_goals (simp only; grind [upd, PC.inRegion, PC.isWork, PC.isPre, isPre_inRegion, isWork_inRegion])
  · -- setBuilt
    rename_i hpc
    simp only [Option.some.injEq] at hs; subst hs
    have hlk : c.lock = some t := holder t (by simp [hpc, PC.inRegion])
    have hm := m1 t hpc
    have hr := r1 t (by simp [hpc, PC.isWork])
    have uniq : ∀ x, (c.pc x).inRegion = true → x = t := by
      intro x hx; have := holder x hx; rw [hlk] at this; simpa using this.symm
    refine ⟨?_, ?_, ?_, ?_, ?_, ?_, ?_, ?_, ?_⟩
    rotate_left 2
    · first
        | (apply r0_of_work c.pc t; simp [PC.isWork]; done)
        | (apply r0_of_built; simp_all; done)
        | (apply r0_keep c.pc t _ _ _ _ r0; simp [hpc, PC.isWork]; done)
    all_goals (simp only; grind [upd, PC.inRegion, PC.isWork, PC.isPre, isPre_inRegion, isWork_inRegion])
  · -- post (k+1)
    rename_i k hpc
    simp only [Option.some.injEq] at hs; subst hs
    have hlk : c.lock = some t := holder t (by simp [hpc, PC.inRegion])
    have hb := post t _ hpc
    refine ⟨?_, ?_, ?_, ?_, ?_, ?_, ?_, ?_, ?_⟩
    rotate_left 2
    · first
        | (apply r0_of_work c.pc t; simp [PC.isWork]; done)
        | (apply r0_of_built; simp_all; done)
        | (apply r0_keep c.pc t _ _ _ _ r0; simp [hpc, PC.isWork]; done)
    all_goals (simp only; grind [upd, PC.inRegion, PC.isWork, PC.isPre, isPre_inRegion, isWork_inRegion])
  · -- post 0
    rename_i hpc
    simp only [Option.some.injEq] at hs; subst hs
    have hlk : c.lock = some t := holder t (by simp [hpc, PC.inRegion])
    have hb := post t _ hpc
    have := r2 hb
    have uniq : ∀ x, (c.pc x).inRegion = true → x = t := by
      intro x hx; have := holder x hx; rw [hlk] at this; simpa using this.symm
    refine ⟨?_, ?_, ?_, ?_, ?_, ?_, ?_, ?_, ?_⟩
    rotate_left 2
    · first
        | (apply r0_of_work c.pc t; simp [PC.isWork]; done)
        | (apply r0_of_built; simp_all; done)
        | (apply r0_keep c.pc t _ _ _ _ r0; simp [hpc, PC.isWork]; done)
    all_goals (simp only; grind [upd, PC.inRegion, PC.isWork, PC.isPre, isPre_inRegion, isWork_inRegion])
  · cases hs

theorem binv_exec (s : List Nat) : ∀ c, BInv c → BInv (exec s c) := by
  induction s with
  | nil => intro c h; exact h
  | cons t ts ih =>
    intro c h
    simp only [exec]
    apply ih
    cases hs : step t c with
    | none => simpa using h
    | some c' => simpa using binv_step t c c' h hs

/-! ### memo -/

/-- per-thread invariant of a memoised call of `f` with key `key t` -/
def MOk {K V : Type} (f : K → V) (key : Nat → K) (t : Nat) : MPC K V → Prop
  | .call k => k = key t
  | .compute k => k = key t
  | .store k v => k = key t ∧ v = f k
  | .ret v => v = f (key t)

structure MInv {K V : Type} (f : K → V) (key : Nat → K) (c : MCfg K V) : Prop where
  memo : ∀ k v, c.memo k = some v → v = f k
  pcs : ∀ t, MOk f key t (c.pc t)

theorem minv_step {K V : Type} [DecidableEq K] (f : K → V) (key : Nat → K) (t : Nat) (c : MCfg K V)
    (h : MInv f key c) : MInv f key (mstep f t c) := by
  obtain ⟨hm, hp⟩ := h
  have ht := hp t
  unfold mstep
  split
  · rename_i k hpc
    rw [hpc] at ht
    split
    · rename_i v hv
      refine ⟨hm, ?_⟩
      intro x
      by_cases hx : x = t
      · subst hx; simp only [upd_same, MOk]; rw [hm k v hv]; exact congrArg f ht
      · simp only [upd_other _ _ _ _ hx]; exact hp x
    · refine ⟨hm, ?_⟩
      intro x
      by_cases hx : x = t
      · subst hx; simpa [MOk] using ht
      · simp only [upd_other _ _ _ _ hx]; exact hp x
  · rename_i k hpc
    rw [hpc] at ht
    refine ⟨hm, ?_⟩
    intro x
    by_cases hx : x = t
    · subst hx; simp only [upd_same, MOk, and_true]; exact ht
    · simp only [upd_other _ _ _ _ hx]; exact hp x
  · rename_i k v hpc
    rw [hpc] at ht
    refine ⟨?_, ?_⟩
    · intro k' v' h'
      simp only at h'
      split at h'
      · subst_vars; simp only [Option.some.injEq] at h'; rw [← h']; exact ht.2
      · exact hm k' v' h'
    · intro x
      by_cases hx : x = t
      · subst hx; simp only [upd_same, MOk]; rw [ht.2, ht.1]
      · simp only [upd_other _ _ _ _ hx]; exact hp x
  · exact ⟨hm, hp⟩

theorem minv_exec {K V : Type} [DecidableEq K] (f : K → V) (key : Nat → K) (s : List Nat) :
    ∀ c, MInv f key c → MInv f key (mexec f s c) := by
  induction s with
  | nil => intro c h; exact h
  | cons t ts ih => intro c h; exact ih _ (minv_step f key t c h)

/-! ### xsi:type widening -/

def Mode.safe : Mode → Bool
  | .curCall | .patched => true
  | _ => false

def WOk (c : WCfg) : WPC → Prop
  | .pub => c.selBy = true
  | .child => c.selBy = true
  | .fin b => b = true
  | .pubFirst => False
  | _ => True

structure WInv (m : Mode) (c : WCfg) : Prop where
  pubSel : c.published = true → c.selBy = true
  elemsSel : m = .curCall → c.inElems = true → c.selBy = true
  noAdd : m = .curCall → ∀ t, c.pc t ≠ .addSel
  pcs : ∀ t, WOk c (c.pc t)

theorem wok_mono (c c' : WCfg) (h : c.selBy = true → c'.selBy = true) (p : WPC) (hp : WOk c p) : WOk c' p := by
  cases p <;> simp_all [WOk]

theorem winv_step (m : Mode) (hm : m.safe = true) (t : Nat) (c : WCfg) (h : WInv m c) :
    WInv m (wstep m t c) := by
  obtain ⟨h1, h2, h3, h4⟩ := h
  have ht := h4 t
  have hold : m ≠ .old := by intro h; subst h; simp [Mode.safe] at hm
  have hcur : m ≠ .cur := by intro h; subst h; simp [Mode.safe] at hm
  unfold wstep
  split
  · -- chk
    split
    · rename_i hpub
      refine ⟨h1, h2, ?_, ?_⟩
      · intro hc x; by_cases hx : x = t
        · subst hx; simp
        · simp only [upd_other _ _ _ _ hx]; exact h3 hc x
      · intro x; by_cases hx : x = t
        · subst hx; simp only [upd_same, WOk]; exact h1 hpub
        · simp only [upd_other _ _ _ _ hx]; exact h4 x
    · refine ⟨h1, h2, ?_, ?_⟩
      · intro hc x; by_cases hx : x = t
        · subst hx; simp
        · simp only [upd_other _ _ _ _ hx]; exact h3 hc x
      · intro x; by_cases hx : x = t
        · subst hx; simp [WOk]
        · simp only [upd_other _ _ _ _ hx]; exact h4 x
  · -- pubFirst: impossible in safe modes
    rename_i hpc; rw [hpc] at ht; exact absurd ht (by simp [WOk])
  · -- rdElems
    split
    · rename_i hin
      refine ⟨h1, h2, ?_, ?_⟩
      · intro hc x; by_cases hx : x = t
        · subst hx; simp [hc]
        · simp only [upd_other _ _ _ _ hx]; exact h3 hc x
      · intro x; by_cases hx : x = t
        · subst hx
          simp only [upd_same]
          by_cases hp : m = .patched
          · simp [hp, WOk]
          · have hc : m = .curCall := by cases m <;> simp_all [Mode.safe]
            simp [hp, WOk, h2 hc hin]
        · simp only [upd_other _ _ _ _ hx]; exact h4 x
    · refine ⟨h1, h2, ?_, ?_⟩
      · intro hc x; by_cases hx : x = t
        · subst hx; simp
        · simp only [upd_other _ _ _ _ hx]; exact h3 hc x
      · intro x; by_cases hx : x = t
        · subst hx; simp [WOk]
        · simp only [upd_other _ _ _ _ hx]; exact h4 x
  · -- setElems
    split
    · rename_i hc
      refine ⟨fun _ => rfl, fun _ _ => rfl, ?_, ?_⟩
      · intro _ x; by_cases hx : x = t
        · subst hx; simp
        · simp only [upd_other _ _ _ _ hx]; exact h3 hc x
      · intro x; by_cases hx : x = t
        · subst hx; simp [WOk]
        · simp only [upd_other _ _ _ _ hx]; exact wok_mono c _ (fun _ => rfl) _ (h4 x)
    · rename_i hc
      refine ⟨h1, fun h => absurd h hc, fun h => absurd h hc, ?_⟩
      intro x; by_cases hx : x = t
      · subst hx; simp [WOk]
      · simp only [upd_other _ _ _ _ hx]; exact wok_mono c _ (fun h => h) _ (h4 x)
  · -- addSel
    rename_i hpc
    refine ⟨fun _ => rfl, fun _ _ => rfl, ?_, ?_⟩
    · intro hc; exact absurd hpc (h3 hc t)
    · intro x; by_cases hx : x = t
      · subst hx; simp [hold, WOk]
      · simp only [upd_other _ _ _ _ hx]; exact wok_mono c _ (fun _ => rfl) _ (h4 x)
  · -- pub
    rename_i hpc
    rw [hpc] at ht
    refine ⟨fun _ => ht, h2, ?_, ?_⟩
    · intro hc x; by_cases hx : x = t
      · subst hx; simp
      · simp only [upd_other _ _ _ _ hx]; exact h3 hc x
    · intro x; by_cases hx : x = t
      · subst hx; simpa [WOk] using ht
      · simp only [upd_other _ _ _ _ hx]; exact wok_mono c _ (fun h => h) _ (h4 x)
  · -- child
    rename_i hpc
    rw [hpc] at ht
    refine ⟨h1, h2, ?_, ?_⟩
    · intro hc x; by_cases hx : x = t
      · subst hx; simp
      · simp only [upd_other _ _ _ _ hx]; exact h3 hc x
    · intro x; by_cases hx : x = t
      · subst hx; simpa [WOk] using ht
      · simp only [upd_other _ _ _ _ hx]; exact h4 x
  · exact ⟨h1, h2, h3, h4⟩

theorem winv_exec (m : Mode) (hm : m.safe = true) (s : List Nat) :
    ∀ c, WInv m c → WInv m (wexec m s c) := by
  induction s with
  | nil => intro c h; exact h
  | cons t ts ih => intro c h; exact ih _ (winv_step m hm t c h)

theorem winv_init (m : Mode) : WInv m winit := by
  refine ⟨?_, ?_, ?_, ?_⟩ <;> simp [winit, WOk]

end XsVerif.Threads
