/-
  Helper lemmas for C18 (interleaving invariants).
-/
import XsVerif.Model.Threads

namespace XsVerif.Threads

@[simp] theorem upd_same {β : Type} (f : Nat → β) (t : Nat) (v : β) : upd f t v t = v := by simp [upd]
theorem upd_other {β : Type} (f : Nat → β) (t x : Nat) (v : β) (h : x ≠ t) : upd f t v x = f x := by
  simp [upd, h]

def PC.isWork : PC → Bool
  | .body _ | .setBuilt | .post _ => true
  | _ => false

def PC.isPre : PC → Bool
  | .body _ | .setBuilt => true
  | _ => false

theorem isPre_inRegion (p : PC) (h : p.isPre = true) : p.inRegion = true := by
  cases p <;> simp_all [PC.isPre, PC.inRegion]

theorem isWork_inRegion (p : PC) (h : p.isWork = true) : p.inRegion = true := by
  cases p <;> simp_all [PC.isWork, PC.inRegion]

/-- Invariant of the double-checked lock, over every interleaving. -/
structure BInv (c : Cfg) : Prop where
  holder : ∀ t, (c.pc t).inRegion = true → c.lock = some t
  locked : ∀ t, c.lock = some t → (c.pc t).inRegion = true
  r0 : c.built = false → (∀ t, (c.pc t).isWork = false) → c.runs = 0
  r1 : ∀ t, (c.pc t).isWork = true → c.runs = 1
  r2 : c.built = true → c.runs = 1 ∧ c.maps = .complete
  m1 : ∀ t, c.pc t = .setBuilt → c.maps = .complete
  pre : ∀ t, (c.pc t).isPre = true → c.built = false
  post : ∀ t k, c.pc t = .post k → c.built = true
  doneOk : ∀ t ph, c.pc t = .done ph → ph = .complete ∧ c.built = true

theorem r0_of_work (pc : Nat → PC) (t : Nat) (v : PC) (b : Bool) (r : Nat) (hv : v.isWork = true) :
    b = false → (∀ x, (upd pc t v x).isWork = false) → r = 0 := by
  intro _ hall; have := hall t; simp [hv] at this

theorem r0_of_built (P : Prop) (b : Bool) (r : Nat) (hb : b = true) : b = false → P → r = 0 := by
  intro h; simp [hb] at h

theorem r0_keep (pc : Nat → PC) (t : Nat) (v : PC) (b : Bool) (r : Nat) (hv : (pc t).isWork = false)
    (r0 : b = false → (∀ x, (pc x).isWork = false) → r = 0) :
    b = false → (∀ x, (upd pc t v x).isWork = false) → r = 0 := by
  intro hb hall
  apply r0 hb
  intro x
  by_cases hx : x = t
  · subst hx; exact hv
  · have := hall x; rwa [upd_other _ _ _ _ hx] at this

theorem binv_init (b p : Nat) : BInv (init b p) := by
  refine ⟨?_, ?_, ?_, ?_, ?_, ?_, ?_, ?_, ?_⟩ <;> simp [init, PC.inRegion, PC.isWork, PC.isPre]

theorem binv_step (t : Nat) (c c' : Cfg) (h : BInv c) (hs : step t c = some c') : BInv c' := by
  obtain ⟨holder, locked, r0, r1, r2, m1, pre, post, doneOk⟩ := h
  unfold step at hs
  -- every other thread keeps its pc
  have other : ∀ (v : PC) (x : Nat), x ≠ t → upd c.pc t v x = c.pc x := fun v x hx => upd_other _ _ _ _ hx
  split at hs
  · -- start
    rename_i hpc
    split at hs <;> (simp only [Option.some.injEq] at hs; subst hs)
    · rename_i hb
      have := r2 hb
      refine ⟨?_, ?_, ?_, ?_, ?_, ?_, ?_, ?_, ?_⟩
      rotate_left 2
      · first
          | (apply r0_of_work c.pc t; simp [PC.isWork]; done)
          | (apply r0_of_built; simp_all; done)
          | (apply r0_keep c.pc t _ _ _ _ r0; simp [hpc, PC.isWork]; done)
      all_goals (simp only; grind [upd, PC.inRegion, PC.isWork, PC.isPre, isPre_inRegion, isWork_inRegion])
    · refine ⟨?_, ?_, ?_, ?_, ?_, ?_, ?_, ?_, ?_⟩
      rotate_left 2
      · first
          | (apply r0_of_work c.pc t; simp [PC.isWork]; done)
          | (apply r0_of_built; simp_all; done)
          | (apply r0_keep c.pc t _ _ _ _ r0; simp [hpc, PC.isWork]; done)
      all_goals (simp only; grind [upd, PC.inRegion, PC.isWork, PC.isPre, isPre_inRegion, isWork_inRegion])
  · -- wantLock
    rename_i hpc
    split at hs
    · simp only [Option.some.injEq] at hs; subst hs
      rename_i hl
      refine ⟨?_, ?_, ?_, ?_, ?_, ?_, ?_, ?_, ?_⟩
      rotate_left 2
      · first
          | (apply r0_of_work c.pc t; simp [PC.isWork]; done)
          | (apply r0_of_built; simp_all; done)
          | (apply r0_keep c.pc t _ _ _ _ r0; simp [hpc, PC.isWork]; done)
      all_goals (simp only; grind [upd, PC.inRegion, PC.isWork, PC.isPre, isPre_inRegion, isWork_inRegion])
    · cases hs
  · -- locked
    rename_i hpc
    have hlk : c.lock = some t := holder t (by simp [hpc, PC.inRegion])
    split at hs <;> (simp only [Option.some.injEq] at hs; subst hs)
    · rename_i hb
      have := r2 hb
      refine ⟨?_, ?_, ?_, ?_, ?_, ?_, ?_, ?_, ?_⟩
      rotate_left 2
      · first
          | (apply r0_of_work c.pc t; simp [PC.isWork]; done)
          | (apply r0_of_built; simp_all; done)
          | (apply r0_keep c.pc t _ _ _ _ r0; simp [hpc, PC.isWork]; done)
      all_goals (simp only; grind [upd, PC.inRegion, PC.isWork, PC.isPre, isPre_inRegion, isWork_inRegion])
    · rename_i hb
      have hnb : c.built = false := by simpa using hb
      have nowork : ∀ x, (c.pc x).isWork = false := by
        intro x
        cases hw : (c.pc x).isWork with
        | false => rfl
        | true =>
          have hr : (c.pc x).inRegion = true := by
            revert hw; cases c.pc x <;> simp [PC.isWork, PC.inRegion]
          have := holder x hr
          rw [hlk] at this
          have : x = t := by simpa using this.symm
          subst this
          simp [hpc, PC.isWork] at hw
      have hr0 := r0 hnb nowork
      refine ⟨?_, ?_, ?_, ?_, ?_, ?_, ?_, ?_, ?_⟩
      rotate_left 2
      · first
          | (apply r0_of_work c.pc t; simp [PC.isWork]; done)
          | (apply r0_of_built; simp_all; done)
          | (apply r0_keep c.pc t _ _ _ _ r0; simp [hpc, PC.isWork]; done)
      all_goals (simp only; grind [upd, PC.inRegion, PC.isWork, PC.isPre, isPre_inRegion, isWork_inRegion])
  · -- body (k+1)
    rename_i k hpc
    simp only [Option.some.injEq] at hs; subst hs
    have hlk : c.lock = some t := holder t (by simp [hpc, PC.inRegion])
    have hnb : c.built = false := pre t (by simp [hpc, PC.isPre])
    have uniq : ∀ x, (c.pc x).inRegion = true → x = t := by
      intro x hx; have := holder x hx; rw [hlk] at this; simpa using this.symm
    refine ⟨?_, ?_, ?_, ?_, ?_, ?_, ?_, ?_, ?_⟩
    rotate_left 2
    · first
        | (apply r0_of_work c.pc t; simp [PC.isWork]; done)
        | (apply r0_of_built; simp_all; done)
        | (apply r0_keep c.pc t _ _ _ _ r0; simp [hpc, PC.isWork]; done)
    all_goals (simp only; grind [upd, PC.inRegion, PC.isWork, PC.isPre, isPre_inRegion, isWork_inRegion])
  · -- body 0
    rename_i hpc
    simp only [Option.some.injEq] at hs; subst hs
    have hlk : c.lock = some t := holder t (by simp [hpc, PC.inRegion])
    have hnb : c.built = false := pre t (by simp [hpc, PC.isPre])
    refine ⟨?_, ?_, ?_, ?_, ?_, ?_, ?_, ?_, ?_⟩
    rotate_left 2
    · first
        | (apply r0_of_work c.pc t; simp [PC.isWork]; done)
        | (apply r0_of_built; simp_all; done)
        | (apply r0_keep c.pc t _ _ _ _ r0; simp [hpc, PC.isWork]; done)
    all_goals (simp only; grind [upd, PC.inRegion, PC.isWork, PC.isPre, isPre_inRegion, isWork_inRegion])
  · -- setBuilt
    rename_i hpc
    simp only [Option.some.injEq] at hs; subst hs
    have hlk : c.lock = some t := holder t (by simp [hpc, PC.inRegion])
    have hm := m1 t hpc
    have hr := r1 t (by simp [hpc, PC.isWork])
    have uniq : ∀ x, (c.pc x).inRegion = true → x = t := by
      intro x hx; have := holder x hx; rw [hlk] at this; simpa using this.symm
    refine ⟨?_, ?_, ?_, ?_, ?_, ?_, ?_, ?_, ?_⟩
    rotate_left 2
    · first
        | (apply r0_of_work c.pc t; simp [PC.isWork]; done)
        | (apply r0_of_built; simp_all; done)
        | (apply r0_keep c.pc t _ _ _ _ r0; simp [hpc, PC.isWork]; done)
    all_goals (simp only; grind [upd, PC.inRegion, PC.isWork, PC.isPre, isPre_inRegion, isWork_inRegion])
  · -- post (k+1)
    rename_i k hpc
    simp only [Option.some.injEq] at hs; subst hs
    have hlk : c.lock = some t := holder t (by simp [hpc, PC.inRegion])
    have hb := post t _ hpc
    refine ⟨?_, ?_, ?_, ?_, ?_, ?_, ?_, ?_, ?_⟩
    rotate_left 2
    · first
        | (apply r0_of_work c.pc t; simp [PC.isWork]; done)
        | (apply r0_of_built; simp_all; done)
        | (apply r0_keep c.pc t _ _ _ _ r0; simp [hpc, PC.isWork]; done)
    all_goals (simp only; grind [upd, PC.inRegion, PC.isWork, PC.isPre, isPre_inRegion, isWork_inRegion])
  · -- post 0
    rename_i hpc
    simp only [Option.some.injEq] at hs; subst hs
    have hlk : c.lock = some t := holder t (by simp [hpc, PC.inRegion])
    have hb := post t _ hpc
    have := r2 hb
    have uniq : ∀ x, (c.pc x).inRegion = true → x = t := by
      intro x hx; have := holder x hx; rw [hlk] at this; simpa using this.symm
    refine ⟨?_, ?_, ?_, ?_, ?_, ?_, ?_, ?_, ?_⟩
    rotate_left 2
    · first
        | (apply r0_of_work c.pc t; simp [PC.isWork]; done)
        | (apply r0_of_built; simp_all; done)
        | (apply r0_keep c.pc t _ _ _ _ r0; simp [hpc, PC.isWork]; done)
    all_goals (simp only; grind [upd, PC.inRegion, PC.isWork, PC.isPre, isPre_inRegion, isWork_inRegion])
  · cases hs

theorem binv_exec (s : List Nat) : ∀ c, BInv c → BInv (exec s c) := by
  induction s with
  | nil => intro c h; exact h
  | cons t ts ih =>
    intro c h
    simp only [exec]
    apply ih
    cases hs : step t c with
    | none => simpa using h
    | some c' => simpa using binv_step t c c' h hs

end XsVerif.Threads
