/-
  C17 — the ENCODER call pattern of `set_xmlns_context` (`encVisit`: pre-order calls only, one call may pop
  several contexts): stack discipline, the scopes recorded for every mapping item, and the name-level
  consequence (`encode_reads`: the encoder restores exactly the names the data denotes).
-/
import XsVerif.Model.NsMapper
import XsVerif.Lemmas.NsMapper
import XsVerif.Lemmas.NsStack
import XsVerif.Lemmas.NsSpec
set_option linter.unusedSimpArgs false
namespace XsVerif.Props.C17
open XsVerif.NsMapper XsVerif.NsMapper.Map XsVerif.NsMapper.Stack

/-! ### names -/

/-- `dict.update` seen by a reader: the bindings of the updated map are the scope extended by the declarations -/
theorem get_update_bind (m : Map) (l : Xmlns) : (Map.update m l).get = Scope.bind m.get l := by
  induction l generalizing m with
  | nil => rfl
  | cons d t ih =>
    have h1 : Map.update m (d :: t) = Map.update (m.set d.1 d.2) t := rfl
    have h2 : (m.set d.1 d.2).get = fun k => if d.1 = k then some d.2 else m.get k := by
      funext x; exact get_set m d.1 d.2 x
    rw [h1, ih, h2]; rfl

/-- `unmap_qname(name, xmlns=X)` is `unmap_qname(name)` on the updated copy of the map -/
theorem unmap_override (ns : Map) (X : Xmlns) (tab : Bool) (n : PName) :
    unmapQName ns X tab n = unmapQName (Map.update ns X) [] tab n := by
  cases X with
  | nil => rfl
  | cons d t => simp [unmapQName]

theorem get_of_isEmpty {ns : Map} (h : ns.isEmpty = true) (x : String) : ns.get x = none := by
  cases ns with
  | nil => rfl
  | cons _ _ => simp at h

theorem isEmpty_of_get {ns : Map} {x u : String} (h : ns.get x = some u) : ns.isEmpty = false := by
  cases ns with
  | nil => simp at h
  | cons _ _ => rfl

/-- on a key that denotes a name, `unmap_qname` without a name table agrees with the XML-Namespaces reader -/
theorem unmap_eq_read {ns : Map} {n : PName} {q : QN} (h : readElem ns.get n = some q) :
    unmapQName ns [] false n = .name q := by
  cases n with
  | braced u l =>
    simp only [readElem, Option.some.injEq] at h; subst h; simp [unmapQName]
  | pre p l =>
    simp only [readElem] at h
    cases hg : ns.get p with
    | none => rw [hg] at h; simp at h
    | some u =>
      rw [hg] at h
      have hne := isEmpty_of_get hg
      by_cases hu : u = ""
      · simp [hu] at h
      · simp [hu] at h; subst h; simp [unmapQName, hne, hg]
  | loc l =>
    simp only [readElem] at h
    cases hg : ns.get "" with
    | none =>
      rw [hg] at h; simp at h; subst h
      simp [unmapQName, hg]
    | some d =>
      rw [hg] at h; simp at h; subst h
      have hne := isEmpty_of_get hg
      by_cases hd : d = ""
      · simp [unmapQName, hne, hg, hd]
      · simp [unmapQName, hne, hg, hd]

/-- attribute keys: agreement needs that an unprefixed key is in the element's table or the default namespace is unset -/
theorem unmap_attr_eq_read {ns : Map} {tab : Bool} {k : PName} {q : QN} (h : readAttr ns.get k = some q)
    (hl : ∀ l, k = .loc l → tab = true ∨ ns.get "" = none ∨ ns.get "" = some "") :
    unmapQName ns [] tab k = .name q := by
  cases k with
  | braced u l =>
    simp only [readAttr, readElem, Option.some.injEq] at h; subst h; simp [unmapQName]
  | pre p l =>
    simp only [readAttr, readElem] at h
    cases hg : ns.get p with
    | none => rw [hg] at h; simp at h
    | some u =>
      rw [hg] at h
      have hne := isEmpty_of_get hg
      by_cases hu : u = ""
      · simp [hu] at h
      · simp [hu] at h; subst h; simp [unmapQName, hne, hg]
  | loc l =>
    simp only [readAttr, Option.some.injEq] at h; subst h
    cases hg : ns.get "" with
    | none => simp [unmapQName, hg]
    | some d =>
      have hne := isEmpty_of_get hg
      by_cases hd : d = ""
      · simp [unmapQName, hne, hg, hd]
      · rcases hl l rfl with ht | ht | ht
        · simp [unmapQName, hne, hg, hd, ht]
        · rw [hg] at ht; cases ht
        · rw [hg] at ht; simp only [Option.some.injEq] at ht; exact absurd ht hd

/-! ### stack discipline of the encoder call pattern -/

/-- the maps the pop loop leaves when it pops `extra` (top first) starting from the current maps `r`:
    those saved in the bottom-most popped context -/
def lastMaps : List Ctx → Map × Map → Map × Map
  | [], r => r
  | c :: rest, _ => lastMaps rest (c.ns, c.rev)

/-- the same as the loop computes it (`None` = nothing popped) -/
def popRes : List Ctx → Option (Map × Map) → Option (Map × Map)
  | [], r => r
  | c :: rest, _ => popRes rest (some (c.ns, c.rev))

theorem popRes_getD (extra : List Ctx) (r : Option (Map × Map)) (d : Map × Map) :
    (popRes extra r).getD d = lastMaps extra (r.getD d) := by
  induction extra generalizing r with
  | nil => rfl
  | cons c rest ih => simp only [popRes, lastMaps]; rw [ih]; rfl

theorem lastMaps_snoc (xs : List Ctx) (c : Ctx) (r : Map × Map) : lastMaps (xs ++ [c]) r = (c.ns, c.rev) := by
  induction xs generalizing r with
  | nil => rfl
  | cons x xs ih => simp only [List.cons_append, lastMaps]; exact ih _

/-- one call pops every context above `base`: all of them are at least as deep as the caller and those of the
    caller's level belong to other objects -/
theorem popLoop_extra {id L : Nat} {base : List Ctx} (hb : Below L base) :
    ∀ (extra : List Ctx) (r : Option (Map × Map)),
      (∀ c ∈ extra, L ≤ c.level ∧ (c.level = L → c.obj ≠ id)) →
      popLoop id L (extra ++ base) r = (base, popRes extra r, none)
  | [], r, _ => popLoop_below hb r
  | c :: rest, r, h => by
    have hc := h c List.mem_cons_self
    have hlt : ¬ (L > c.level) := by omega
    have hne : ¬ (L = c.level ∧ c.obj = id) := fun ⟨e1, e2⟩ => hc.2 e1.symm e2
    simp only [List.cons_append, popLoop, hlt, if_false, hne, popRes]
    exact popLoop_extra hb rest _ (fun c' hc' => h c' (List.mem_cons_of_mem _ hc'))

/-- the mapper is "at level L over `base`" with logical maps `(ns0, rev0)`: above `base` there are only contexts
    of already encoded items (deeper ones, or siblings in `seen`), and the maps the next call's pop loop restores
    — those of the bottom-most such context, or the current ones when there is none — are `(ns0, rev0)`. -/
def At (L : Nat) (base : List Ctx) (ns0 rev0 : Map) (seen : List Nat) (m : Mapper) : Prop :=
  ∃ extra, m.stack = extra ++ base ∧ (∀ c ∈ extra, L ≤ c.level ∧ (c.level = L → c.obj ∈ seen)) ∧
    lastMaps extra (m.ns, m.rev) = (ns0, rev0)

theorem At_mono {L : Nat} {base : List Ctx} {ns0 rev0 : Map} {seen seen' : List Nat} {m : Mapper}
    (h : At L base ns0 rev0 seen m) (hs : ∀ x ∈ seen, x ∈ seen') : At L base ns0 rev0 seen' m := by
  obtain ⟨extra, h1, h2, h3⟩ := h
  exact ⟨extra, h1, fun c hc => ⟨(h2 c hc).1, fun e => hs _ ((h2 c hc).2 e)⟩, h3⟩

theorem At_init (L : Nat) (m : Mapper) : At L m.stack m.ns m.rev [] m :=
  ⟨[], rfl, by simp, rfl⟩

/-- the (only) call of a mapping item: whatever the earlier siblings' subtrees left on the stack is popped, the
    logical maps are restored and the item's declarations applied on top of them -/
theorem enc_enter (v : Variant) {L : Nat} {base : List Ctx} {ns0 rev0 : Map} {seen : List Nat} {m : Mapper}
    (id : Nat) (decl : Xmlns) (hb : Below L base) (hr : At L base ns0 rev0 seen m) (hid : id ∉ seen) :
    (setContext v .stacked m id L decl).m = entered v ns0 rev0 base id L decl := by
  obtain ⟨extra, hs, hall, hl⟩ := hr
  have hpop : popLoop id L m.stack none = (base, popRes extra none, none) := by
    rw [hs]; apply popLoop_extra hb
    intro c hc
    exact ⟨(hall c hc).1, fun e1 e2 => hid (e2 ▸ (hall c hc).2 e1)⟩
  have hg := popRes_getD extra none (m.ns, m.rev)
  simp only [Option.getD_none] at hg
  rw [hl] at hg
  unfold setContext entered
  rw [hpop]
  cases hp : popRes extra none with
  | none =>
    rw [hp] at hg; simp only [Option.getD_none, Prod.mk.injEq] at hg
    simp only [hg.1, hg.2]
    cases decl with
    | nil => simp
    | cons d t => simp
  | some p =>
    rw [hp] at hg; simp only [Option.getD_some] at hg; subst hg
    cases decl with
    | nil => simp
    | cons d t => simp

/-- after the children (no purge call): back at level L over `base` with the item itself among the seen ones -/
theorem enc_after (v : Variant) {L : Nat} {base : List Ctx} (ns0 rev0 : Map) (seen : List Nat) {m2 : Mapper}
    (id : Nat) (decl : Xmlns) (seen' : List Nat)
    (hr : At (L + 1) (entered v ns0 rev0 base id L decl).stack (entered v ns0 rev0 base id L decl).ns
      (entered v ns0 rev0 base id L decl).rev seen' m2) :
    At L base ns0 rev0 (id :: seen) m2 := by
  obtain ⟨extra, hs, hall, hl⟩ := hr
  cases decl with
  | nil =>
    simp only [entered, List.isEmpty_nil, if_true] at hs hl
    refine ⟨extra, hs, fun c hc => ?_, hl⟩
    have := (hall c hc).1
    exact ⟨by omega, fun e => by omega⟩
  | cons d t =>
    simp only [entered, List.isEmpty_cons, Bool.false_eq_true, if_false] at hs hl
    refine ⟨extra ++ [{ obj := id, level := L, xmlns := d :: t, ns := ns0, rev := rev0 }], ?_, ?_, ?_⟩
    · rw [hs]; simp
    · intro c hc
      rcases List.mem_append.mp hc with h | h
      · have := (hall c h).1
        exact ⟨by omega, fun e => by omega⟩
      · simp only [List.mem_singleton] at h; subst h
        exact ⟨Nat.le_refl _, fun _ => List.mem_cons_self⟩
    · exact lastMaps_snoc _ _ _

/-! ### what the encoder records -/

mutual
/-- every item of the tree is a mapping -/
def AllMaps : Item → Prop
  | .node _ _ isMap _ _ ch => isMap = true ∧ AllMapsList ch
def AllMapsList : List Item → Prop
  | [] => True
  | i :: is => AllMaps i ∧ AllMapsList is
end

mutual
/-- S: the declarations in scope of each item, as a reader accumulates them on the path root → item -/
def encScopes (s : Scope) : Item → List (Nat × Scope)
  | .node id _ _ xmlns _ ch => (id, s.bind xmlns) :: encScopesList (s.bind xmlns) ch
def encScopesList (s : Scope) : List Item → List (Nat × Scope)
  | [] => []
  | i :: is => encScopes s i ++ encScopesList s is
end

theorem bind_nil (s : Scope) : Scope.bind s [] = s := rfl

/-- the tag the parent resolves for a child (`unmap_qname(name, xmlns=child.xmlns)`) is the child's key read in
    the child's own scope -/
theorem child_tag {ns0 : Map} {xmlns : Xmlns} {key : PName}
    (h : readElem (Scope.bind ns0.get xmlns) key ≠ none) :
    Unmapped.toOpt (unmapQName ns0 xmlns false key) = readElem (Scope.bind ns0.get xmlns) key := by
  cases hq : readElem (Scope.bind ns0.get xmlns) key with
  | none => exact absurd hq h
  | some q =>
    rw [unmap_override, unmap_eq_read (q := q) (by rw [get_update_bind]; exact hq)]
    rfl

theorem attrs_read {tab : Nat → String → Bool} {id : Nat} {ns : Map} :
    ∀ (attrs : List PName),
    (∀ k ∈ attrs, readAttr ns.get k ≠ none ∧
      ∀ l, k = .loc l → tab id l = true ∨ ns.get "" = none ∨ ns.get "" = some "") →
    (attrs.map fun k => unmapQName ns [] (attrInTable tab id k) k).map Unmapped.toOpt =
      attrs.map (readAttr ns.get)
  | [], _ => rfl
  | k :: ks, h => by
    have hk := h k List.mem_cons_self
    have ih := attrs_read (tab := tab) (id := id) (ns := ns) ks
      (fun k' hk' => h k' (List.mem_cons_of_mem _ hk'))
    simp only [List.map_cons, ih, List.cons.injEq, and_true]
    cases hq : readAttr ns.get k with
    | none => exact absurd hq hk.1
    | some q =>
      have hl : ∀ l, k = .loc l → attrInTable tab id k = true ∨ ns.get "" = none ∨ ns.get "" = some "" := by
        intro l e; subst e; exact hk.2 l rfl
      rw [unmap_attr_eq_read hq hl]; rfl

theorem encVisit_map_eq (v : Variant) (mode : Mode) (tab : Nat → String → Bool) (L : Nat) (tag : Unmapped)
    (id : Nat) (key : PName) (xmlns : Xmlns) (attrs : List PName) (ch : List Item) (m : Mapper) :
    encVisit v mode tab L tag (.node id key true xmlns attrs ch) m =
      ((encVisitList v mode tab (L + 1) (setContext v mode m id L xmlns).m.ns ch
          (setContext v mode m id L xmlns).m).1,
       { id := id, level := L, ns := (setContext v mode m id L xmlns).m.ns,
         rev := (setContext v mode m id L xmlns).m.rev, tag := tag,
         attrs := attrs.map fun k =>
           unmapQName (setContext v mode m id L xmlns).m.ns [] (attrInTable tab id k) k } ::
        (encVisitList v mode tab (L + 1) (setContext v mode m id L xmlns).m.ns ch
          (setContext v mode m id L xmlns).m).2) := by
  simp only [encVisit, if_true]

theorem encVisit_nomap_eq (v : Variant) (mode : Mode) (tab : Nat → String → Bool) (L : Nat) (tag : Unmapped)
    (id : Nat) (key : PName) (xmlns : Xmlns) (attrs : List PName) (ch : List Item) (m : Mapper) :
    encVisit v mode tab L tag (.node id key false xmlns attrs ch) m =
      (m, [{ id := id, level := L, ns := m.ns, rev := m.rev, tag := tag, attrs := [] }]) := by
  simp only [encVisit, Bool.false_eq_true, if_false]

theorem encVisitList_cons_eq (v : Variant) (mode : Mode) (tab : Nat → String → Bool) (L : Nat) (pns : Map)
    (c : Item) (cs : List Item) (m : Mapper) :
    encVisitList v mode tab L pns (c :: cs) m =
      ((encVisitList v mode tab L pns cs
          (encVisit v mode tab L (unmapQName pns (Item.xmlns c) false (Item.key c)) c m).1).1,
       (encVisit v mode tab L (unmapQName pns (Item.xmlns c) false (Item.key c)) c m).2 ++
       (encVisitList v mode tab L pns cs
          (encVisit v mode tab L (unmapQName pns (Item.xmlns c) false (Item.key c)) c m).1).2) := by
  simp only [encVisitList]

mutual
theorem encVisit_spec (v : Variant) (tab : Nat → String → Bool) : ∀ (item : Item), ItemDistinct item →
    ∀ (L : Nat) (tag : Unmapped) (m : Mapper) (base : List Ctx) (ns0 rev0 : Map) (seen : List Nat),
    Below L base → At L base ns0 rev0 seen m → Item.id item ∉ seen →
    At L base ns0 rev0 (Item.id item :: seen) (encVisit v .stacked tab L tag item m).1 ∧
    (AllMaps item → (encVisit v .stacked tab L tag item m).2.map (fun e => (e.id, e.ns.get)) =
      encScopes ns0.get item) ∧
    (Readable tab ns0.get item →
      Unmapped.toOpt tag = readElem (Scope.bind ns0.get (Item.xmlns item)) (Item.key item) →
      (encVisit v .stacked tab L tag item m).2.map encProj = readItem ns0.get item)
  | .node id key isMap xmlns attrs ch, hd, L, tag, m, base, ns0, rev0, seen, hb, hr, hid => by
    simp only [ItemDistinct] at hd
    simp only [Item.id, Item.xmlns, Item.key] at hid ⊢
    cases isMap with
    | false =>
      rw [encVisit_nomap_eq]
      refine ⟨At_mono hr (fun x hx => List.mem_cons_of_mem _ hx), ?_, ?_⟩
      · intro ha; simp [AllMaps] at ha
      · intro hR ht
        simp only [Readable] at hR
        obtain ⟨h1, h2, h3⟩ := hR.1 trivial
        subst h1; subst h2; subst h3
        simp only [bind_nil] at ht
        simp [readItem, readItems, encProj, ht, bind_nil]
    | true =>
      rw [encVisit_map_eq]
      have h1 := enc_enter v id xmlns hb hr hid
      have hb1 := entered_stack_below v hb ns0 rev0 id xmlns
      rw [h1]
      obtain ⟨hA, hS, hN⟩ := encVisitList_spec v tab ch hd.2 hd.1 (L + 1) (entered v ns0 rev0 base id L xmlns)
        (entered v ns0 rev0 base id L xmlns).stack (entered v ns0 rev0 base id L xmlns).ns
        (entered v ns0 rev0 base id L xmlns).rev [] hb1 (At_init _ _) (by simp)
      have hget : (entered v ns0 rev0 base id L xmlns).ns.get = Scope.bind ns0.get xmlns := by
        rw [entered_ns, get_update_bind]
      refine ⟨enc_after v ns0 rev0 seen id xmlns _ hA, ?_, ?_⟩
      · intro ha
        simp only [AllMaps] at ha
        simp only [List.map_cons, encScopes, hS ha.2, hget]
      · intro hR ht
        simp only [Readable] at hR
        obtain ⟨_, _, hattrs, hch⟩ := hR
        rw [← hget] at hch hattrs
        simp only [List.map_cons, readItem, hN hch, encProj, ht, hget]
        rw [← hget, attrs_read attrs hattrs]

theorem encVisitList_spec (v : Variant) (tab : Nat → String → Bool) : ∀ (cs : List Item), ItemDistinctList cs →
    (cs.map Item.id).Nodup →
    ∀ (L : Nat) (m : Mapper) (base : List Ctx) (ns0 rev0 : Map) (seen : List Nat), Below L base →
    At L base ns0 rev0 seen m → (∀ c ∈ cs, Item.id c ∉ seen) →
    At L base ns0 rev0 ((cs.map Item.id).reverse ++ seen) (encVisitList v .stacked tab L ns0 cs m).1 ∧
    (AllMapsList cs → (encVisitList v .stacked tab L ns0 cs m).2.map (fun e => (e.id, e.ns.get)) =
      encScopesList ns0.get cs) ∧
    (ReadableList tab ns0.get cs → (encVisitList v .stacked tab L ns0 cs m).2.map encProj = readItems ns0.get cs)
  | [], _, _, L, m, base, ns0, rev0, seen, _, hr, _ => by
    simp only [encVisitList, encScopesList, readItems, List.map_nil, List.reverse_nil, List.nil_append]
    exact ⟨hr, fun _ => trivial, fun _ => trivial⟩
  | c :: cs, hd, hn, L, m, base, ns0, rev0, seen, hb, hr, hs => by
    simp only [ItemDistinctList] at hd
    simp only [List.map_cons, List.nodup_cons] at hn
    rw [encVisitList_cons_eq]
    obtain ⟨hA1, hS1, hN1⟩ := encVisit_spec v tab c hd.1 L (unmapQName ns0 (Item.xmlns c) false (Item.key c)) m
      base ns0 rev0 seen hb hr (hs c List.mem_cons_self)
    have hs' : ∀ c' ∈ cs, Item.id c' ∉ Item.id c :: seen := by
      intro c' hc' hm
      rcases List.mem_cons.mp hm with e | e
      · exact hn.1 (e ▸ List.mem_map.mpr ⟨c', hc', rfl⟩)
      · exact hs c' (List.mem_cons_of_mem _ hc') e
    obtain ⟨hA2, hS2, hN2⟩ := encVisitList_spec v tab cs hd.2 hn.2 L
      (encVisit v .stacked tab L (unmapQName ns0 (Item.xmlns c) false (Item.key c)) c m).1 base ns0 rev0
      (Item.id c :: seen) hb hA1 hs'
    refine ⟨?_, ?_, ?_⟩
    · simpa only [List.map_cons, List.reverse_cons, List.append_assoc, List.singleton_append] using hA2
    · intro ha
      simp only [AllMapsList] at ha
      simp only [List.map_append, encScopesList, hS1 ha.1, hS2 ha.2]
    · intro hR
      simp only [ReadableList] at hR
      have hkey : readElem (Scope.bind ns0.get (Item.xmlns c)) (Item.key c) ≠ none := by
        cases c with
        | node id key isMap xmlns attrs ch =>
          simp only [Readable] at hR
          exact hR.1.2.1
      simp only [List.map_append, readItems, hN1 hR.1 (child_tag hkey), hN2 hR.2]
end

/-- **Stack discipline of the encoder**: the namespaces in force at every (mapping) item are, as scopes, the fold
    of the xmlns lists on the path root → item over the initial map. -/
theorem encode_scopes (v : Variant) (tab : Nat → String → Bool) (tag : Unmapped) (item : Item) (e0 : Mapper)
    (h0 : e0.stack = []) (hd : ItemDistinct item) (hm : AllMaps item) :
    (encVisit v .stacked tab 0 tag item e0).2.map (fun e => (e.id, e.ns.get)) = encScopes e0.ns.get item := by
  have hA : At 0 [] e0.ns e0.rev [] e0 := by
    have := At_init 0 e0; rw [h0] at this; exact this
  exact (encVisit_spec v tab item hd 0 tag e0 [] e0.ns e0.rev [] (fun _ h => by cases h) hA (by simp)).2.1 hm

/-- **The encoder restores exactly the names the data denotes** (stacked mode, both repointing rules, every data
    tree with distinct sibling objects, any depth and redeclaration pattern). -/
theorem encode_reads (v : Variant) (tab : Nat → String → Bool) (item : Item) (e0 : Mapper) (h0 : e0.stack = [])
    (hd : ItemDistinct item) (hr : Readable tab e0.ns.get item) :
    (encodeDoc v .stacked tab item e0).2.map encProj = readItem e0.ns.get item := by
  have hA : At 0 [] e0.ns e0.rev [] e0 := by
    have := At_init 0 e0; rw [h0] at this; exact this
  have hb : Below 0 ([] : List Ctx) := fun _ h => by cases h
  cases item with
  | node id key isMap xmlns attrs ch =>
    have hns : (if isMap = true then (setContext v .stacked e0 id 0 xmlns).m.ns else e0.ns) =
        Map.update e0.ns xmlns := by
      cases isMap with
      | true =>
        simp only [if_true]
        rw [enc_enter v id xmlns hb hA (by simp), entered_ns]
      | false =>
        simp only [Readable] at hr
        obtain ⟨h1, _, _⟩ := hr.1 trivial
        subst h1; rfl
    have hkey : readElem (Scope.bind e0.ns.get xmlns) key ≠ none := by
      simp only [Readable] at hr
      exact hr.2.1
    have htag : Unmapped.toOpt (unmapQName (Map.update e0.ns xmlns) [] false key) =
        readElem (Scope.bind e0.ns.get xmlns) key := by
      have := child_tag hkey
      rw [unmap_override] at this; exact this
    simp only [encodeDoc]
    rw [hns]
    exact (encVisit_spec v tab (.node id key isMap xmlns attrs ch) hd 0 _ e0 [] e0.ns e0.rev [] hb hA
      (by simp)).2.2 hr htag

end XsVerif.Props.C17
