/-
  C12 — the rendering of remote URLs (`encode_url(get_uri(...))`, Model/AccessTrace.lean) always
  yields `scheme ':' rest` with a valid non-local scheme.  Core Lean only.
-/
import XsVerif.Lemmas.AccessTrace
import XsVerif.Model.AccessTrace
namespace XsVerif.Access

theorem lower_alpha {c : Nat} (h : isAlpha c = true) : isAlpha (lower c) = true := by
  unfold lower; unfold isAlpha at h ⊢
  simp only [Bool.or_eq_true, Bool.and_eq_true, decide_eq_true_eq] at h ⊢
  split <;> omega

theorem lower_schemeChar {c : Nat} (h : isSchemeChar c = true) : isSchemeChar (lower c) = true := by
  unfold lower; unfold isSchemeChar isAlpha isDigit at h ⊢
  simp only [Bool.or_eq_true, Bool.and_eq_true, decide_eq_true_eq, beq_iff_eq] at h ⊢
  split <;> omega

theorem lower_lower (c : Nat) : lower (lower c) = lower c := by
  unfold lower
  simp only [Bool.and_eq_true, decide_eq_true_eq]
  split
  · split <;> omega
  · rfl

theorem scanScheme_spec (u acc s rest : Bytes) (h : scanScheme acc u = some (s, rest)) :
    ∃ pre, s = acc.reverse ++ pre ∧ u = pre ++ 58 :: rest ∧ ∀ x ∈ pre, isSchemeChar x = true := by
  induction u generalizing acc with
  | nil => simp [scanScheme] at h
  | cons c t ih =>
    unfold scanScheme at h
    split at h
    · rename_i hc
      simp only [Option.some.injEq, Prod.mk.injEq] at h
      obtain ⟨rfl, rfl⟩ := h
      exact ⟨[], by simp, by simp [hc], by simp⟩
    · split at h
      · rename_i hsc
        obtain ⟨pre, hs, hu, hall⟩ := ih _ h
        refine ⟨c :: pre, by simp [hs], by simp [hu], ?_⟩
        intro x hx
        rcases List.mem_cons.mp hx with rfl | hx
        · exact hsc
        · exact hall x hx
      · cases h

/-- the scheme that `urlsplit` returns is empty or a valid lower-case scheme -/
theorem urlsplit_scheme_ok (u : Bytes) :
    (urlsplit u).scheme = [] ∨ (SchemeOK (urlsplit u).scheme ∧ ((urlsplit u).scheme).map lower = (urlsplit u).scheme) := by
  have key : ∀ v : Bytes, (splitScheme v).1 = [] ∨
      (SchemeOK (splitScheme v).1 ∧ ((splitScheme v).1).map lower = (splitScheme v).1) := by
    intro v
    unfold splitScheme
    split
    · rename_i c t
      split
      · rename_i hc
        split
        · rename_i s rest hscan
          right
          obtain ⟨pre, hs, hu, hall⟩ := scanScheme_spec _ _ _ _ hscan
          simp only [List.reverse_nil, List.nil_append] at hs
          subst hs
          cases s with
          | nil =>
            simp at hu
            obtain ⟨rfl, -⟩ := hu
            exact absurd hc (by decide)
          | cons a r =>
            simp only [List.cons_append, List.cons.injEq] at hu
            obtain ⟨rfl, -⟩ := hu
            refine ⟨⟨⟨lower c, r.map lower, by simp, lower_alpha hc⟩, ?_⟩, ?_⟩
            · intro x hx
              obtain ⟨y, hy, rfl⟩ := List.mem_map.mp hx
              exact lower_schemeChar (hall y hy)
            · simp [List.map_map, Function.comp_def, lower_lower]
        · left; rfl
      · left; rfl
    · left; rfl
  have : (urlsplit u).scheme = (splitScheme ((u.dropWhile isC0OrSpace).filter (fun c => !(c == 9 || c == 10 || c == 13)))).1 := by
    unfold urlsplit; rfl
  rw [this]; exact key _


/-- strings of the shape `scheme ':' rest` -/
def Prefixed (s g : Bytes) : Prop := ∃ rest, g = s ++ 58 :: rest

theorem Prefixed.append {s g : Bytes} (h : Prefixed s g) (t : Bytes) : Prefixed s (g ++ t) := by
  obtain ⟨r, rfl⟩ := h; exact ⟨r ++ t, by simp⟩

theorem Prefixed.ite {s g : Bytes} (h : Prefixed s g) (c : Prop) [Decidable c] (t : Bytes) :
    Prefixed s (if c then g ++ t else g) := by
  split
  · exact h.append t
  · exact h

theorem getUri_prefixed (s n p q f g : Bytes) (hs : s ≠ []) (h : getUri s n p q f = some g) : Prefixed s g := by
  unfold getUri at h
  split at h
  · rename_i hurn
    split at h
    · cases h
    · split at h
      · cases h
      · simp only [Option.some.injEq] at h
        subst h; subst hurn
        exact ⟨p, by simp⟩
  · simp only [hs, ne_eq, not_false_eq_true, if_true, Option.some.injEq] at h
    subst h
    exact (Prefixed.ite (Prefixed.ite ⟨_, rfl⟩ _ _) _ _)

theorem urlunsplit_prefixed (s n p q f : Bytes) (hs : s ≠ []) : Prefixed s (urlunsplit s n p q f) := by
  unfold urlunsplit
  simp only [hs, ne_eq, not_false_eq_true, if_true]
  exact (Prefixed.ite (Prefixed.ite ⟨_, rfl⟩ _ _) _ _)

theorem SchemeOK.ne_nil {s : Bytes} (h : SchemeOK s) : s ≠ [] := by
  obtain ⟨⟨c, t, rfl, -⟩, -⟩ := h; simp

theorem prefixed_scheme {s g : Bytes} (hs : SchemeOK s) (hl : s.map lower = s) (h : Prefixed s g) :
    (urlsplit g).scheme = s := by
  obtain ⟨r, rfl⟩ := h
  rw [urlsplit_scheme s r hs, hl]

theorem decodeUrl_prefixed (s g url : Bytes) (hs : SchemeOK s) (hl : s.map lower = s) (hg : Prefixed s g)
    (h : decodeUrl g = some url) : Prefixed s url := by
  unfold decodeUrl at h
  cases he : isEncodedUrl g with
  | none => simp [he] at h
  | some e =>
    cases e with
    | false => simp [he] at h; subst h; exact hg
    | true =>
      simp only [he, Option.bind_eq_bind, Option.bind_some, Bool.not_true, Bool.false_eq_true, if_false] at h
      rw [prefixed_scheme hs hl hg] at h
      cases h1 : unquoteStr (urlsplit g).netloc <;> simp [h1] at h
      cases h2 : unquoteStr (urlsplit g).path <;> simp [h2] at h
      cases h3 : unquoteStr (urlsplit g).query <;> simp [h3] at h
      cases h4 : unquoteStr (urlsplit g).fragment <;> simp [h4] at h
      subst h
      exact urlunsplit_prefixed _ _ _ _ _ hs.ne_nil

theorem encodeUrl_prefixed (s g r : Bytes) (hs : SchemeOK s) (hl : s.map lower = s) (hg : Prefixed s g)
    (h : encodeUrl g = some r) : Prefixed s r := by
  unfold encodeUrl at h
  cases hsafe : isSafeUrl g with
  | none => simp [hsafe] at h
  | some b =>
    cases b with
    | true => simp [hsafe] at h; subst h; exact hg
    | false =>
      simp only [hsafe, Option.bind_eq_bind, Option.bind_some, Bool.false_eq_true, if_false] at h
      cases he : isEncodedUrl g with
      | none => simp [he] at h
      | some e =>
        cases e with
        | false =>
          simp [he] at h
          rw [prefixed_scheme hs hl hg] at h
          subst h
          exact urlunsplit_prefixed _ _ _ _ _ hs.ne_nil
        | true =>
          simp only [he, Option.bind_some, if_true] at h
          cases hd : decodeUrl g with
          | none => simp [hd] at h
          | some url =>
            have hu := decodeUrl_prefixed s g url hs hl hg hd
            simp [hd] at h
            rw [prefixed_scheme hs hl hu] at h
            subst h
            exact urlunsplit_prefixed _ _ _ _ _ hs.ne_nil


theorem normalizeUrl_remote_src {cwd : Bytes} {base : Option Bytes} {url s n : Bytes} {j : Option Bytes}
    (hn : normalizeUrl cwd base url = .remote s n j) :
    isLocalScheme s = false ∧ (∃ x, s = (urlsplit x).scheme) ∧ (j = none → s = (urlsplit (lstrip url)).scheme) := by
  unfold normalizeUrl at hn
  simp only at hn
  repeat' split at hn
  all_goals first
    | (cases hn; simp_all; done)
    | (cases hn; refine ⟨by simp_all, ⟨_, rfl⟩, fun h => by first | rfl | cases h⟩; done)
    | (simp [mkFile] at hn; done)
    | (rename_i e; rcases fromUri_error e with h' | h' <;> subst h' <;> cases hn)
    | skip

/-- Every URL that `normalize_url` renders for a location that is not a local file
    (`encode_url(get_uri(...))`, urls.py:222-224 and 255-261) has the shape `scheme ':' rest` with a
    syntactically valid scheme that is not a local one. -/
theorem remoteUrl_shape (cwd : Bytes) (base : Option Bytes) (url0 r : Bytes)
    (h : remoteUrl cwd base url0 = some r) :
    ∃ s rest, r = s ++ 58 :: rest ∧ SchemeOK s ∧ isLocalScheme (s.map lower) = false := by
  unfold remoteUrl at h
  split at h
  · rename_i s n hn
    obtain ⟨hloc, -, hsrc⟩ := normalizeUrl_remote_src hn
    have hs := hsrc rfl
    simp only at h
    rw [← hs] at h
    have hne : s ≠ [] := by intro e; subst e; simp [isLocalScheme] at hloc
    have hok : SchemeOK s ∧ s.map lower = s := by
      rcases urlsplit_scheme_ok (lstrip url0) with h0 | h1
      · rw [← hs] at h0; exact absurd h0 hne
      · rw [← hs] at h1; exact h1
    cases hg : getUri s (urlsplit (lstrip url0)).netloc (urlsplit (lstrip url0)).path
        (urlsplit (lstrip url0)).query (urlsplit (lstrip url0)).fragment with
    | none => simp [hg] at h
    | some g =>
      simp only [hg, Option.bind_eq_bind, Option.bind_some] at h
      obtain ⟨rest, hr⟩ := encodeUrl_prefixed s g r hok.1 hok.2 (getUri_prefixed _ _ _ _ _ g hne hg) h
      exact ⟨s, rest, hr, hok.1, by rw [hok.2]; exact hloc⟩
  · rename_i s n j hn
    obtain ⟨hloc, ⟨x, hx⟩, -⟩ := normalizeUrl_remote_src hn
    have hne : s ≠ [] := by intro e; subst e; simp [isLocalScheme] at hloc
    have hok : SchemeOK s ∧ s.map lower = s := by
      rcases urlsplit_scheme_ok x with h0 | h1
      · rw [← hx] at h0; exact absurd h0 hne
      · rw [← hx] at h1; exact h1
    cases hg : getUri s n j [] [] with
    | none => simp [hg] at h
    | some g =>
      simp only [hg, Option.bind_eq_bind, Option.bind_some] at h
      obtain ⟨rest, hr⟩ := encodeUrl_prefixed s g r hok.1 hok.2 (getUri_prefixed _ _ _ _ _ g hne hg) h
      exact ⟨s, rest, hr, hok.1, by rw [hok.2]; exact hloc⟩
  · cases h

end XsVerif.Access
