/-
  Helper lemmas for C12 (Model/Access.lean).  Core Lean only.
-/
import XsVerif.Model.Access

namespace XsVerif.Access

/-! ### split / comps -/

theorem split_ne_nil (s : Bytes) : split s ≠ [] := by
  induction s with
  | nil => simp [split]
  | cons c t ih =>
    unfold split
    split
    · simp
    · cases h : split t <;> simp_all

theorem split_cons_sep (t : Bytes) : split (47 :: t) = [] :: split t := by
  simp [split]

theorem split_append_sep (a r : Bytes) : split (a ++ 47 :: r) = split a ++ split r := by
  induction a with
  | nil => simp [split]
  | cons c t ih =>
    by_cases hc : c = 47
    · subst hc; simp [split, ih]
    · have h1 := split_ne_nil t
      simp only [List.cons_append, split, hc, if_false, ih]
      cases h : split t with
      | nil => exact absurd h h1
      | cons h' r' => simp

theorem split_noSep {a : Bytes} (h : 47 ∉ a) : split a = [a] := by
  induction a with
  | nil => simp [split]
  | cons c t ih =>
    have hc : c ≠ 47 := fun e => h (by simp [e])
    have ht : 47 ∉ t := fun e => h (by simp [e])
    simp [split, hc, ih ht]

theorem split_mem_noSep (s : Bytes) : ∀ c ∈ split s, 47 ∉ c := by
  induction s with
  | nil => simp [split]
  | cons c t ih =>
    by_cases hc : c = 47
    · subst hc; simp only [split, if_true]; intro x hx
      rcases List.mem_cons.mp hx with rfl | hx
      · simp
      · exact ih x hx
    · simp only [split, hc, if_false]
      cases h : split t with
      | nil => intro x hx; simp at hx; subst hx; simp; exact fun e => hc e.symm
      | cons h' r' =>
        intro x hx
        rcases List.mem_cons.mp hx with rfl | hx
        · have := ih h' (by simp [h])
          simp; exact ⟨fun e => hc e.symm, this⟩
        · exact ih x (by simp [h, hx])

/-- non-empty components of a '/'-separated string -/
def comps (s : Bytes) : List Bytes := (split s).filter (fun c => !(c == []))

theorem comps_nil : comps [] = [] := by simp [comps, split]

theorem comps_append_sep (a r : Bytes) : comps (a ++ 47 :: r) = comps a ++ comps r := by
  simp [comps, split_append_sep]

theorem comps_cons_sep (r : Bytes) : comps (47 :: r) = comps r := by
  have := comps_append_sep [] r
  simpa [comps_nil] using this

theorem comps_all_sep (l : Bytes) (h : ∀ x ∈ l, x = 47) : comps l = [] := by
  induction l with
  | nil => exact comps_nil
  | cons c t ih =>
    have : c = 47 := h c (by simp)
    subst this
    rw [comps_cons_sep]; exact ih (fun x hx => h x (by simp [hx]))

theorem comps_append_all_sep (s l : Bytes) (h : ∀ x ∈ l, x = 47) : comps (s ++ l) = comps s := by
  cases l with
  | nil => simp
  | cons c t =>
    have : c = 47 := h c (by simp)
    subst this
    rw [comps_append_sep, comps_all_sep t (fun x hx => h x (by simp [hx]))]; simp

theorem comps_replicate_append (n : Nat) (s : Bytes) : comps (List.replicate n 47 ++ s) = comps s := by
  induction n with
  | zero => simp
  | succ k ih => simp [List.replicate_succ, comps_cons_sep, ih]

theorem comps_noSep {a : Bytes} (h : 47 ∉ a) (hne : a ≠ []) : comps a = [a] := by
  simp [comps, split_noSep h, hne]

/-! ### startsWith / rstripSlash -/

theorem startsWith_iff (s p : Bytes) : startsWith s p = true ↔ ∃ r, s = p ++ r := by
  induction p generalizing s with
  | nil => simp [startsWith]
  | cons b p ih =>
    cases s with
    | nil => simp [startsWith]
    | cons a s =>
      simp only [startsWith, Bool.and_eq_true, beq_iff_eq, ih, List.cons_append, List.cons.injEq]
      constructor
      · rintro ⟨rfl, r, rfl⟩; exact ⟨r, rfl, rfl⟩
      · rintro ⟨r, rfl, rfl⟩; exact ⟨rfl, r, rfl⟩

theorem takeWhile_all (p : Nat → Bool) (l : Bytes) : ∀ x ∈ l.takeWhile p, p x = true := by
  induction l with
  | nil => simp
  | cons a t ih =>
    simp only [List.takeWhile_cons]
    split
    · intro x hx
      rcases List.mem_cons.mp hx with rfl | hx
      · assumption
      · exact ih x hx
    · simp

theorem rstripSlash_decomp (s : Bytes) : ∃ l, (∀ x ∈ l, x = 47) ∧ s = rstripSlash s ++ l := by
  refine ⟨(s.reverse.takeWhile (· == 47)).reverse, ?_, ?_⟩
  · intro x hx
    have := takeWhile_all (· == 47) _ x (List.mem_reverse.mp hx)
    simpa using this
  · have h := List.takeWhile_append_dropWhile (p := (· == 47)) (l := s.reverse)
    have h2 := congrArg List.reverse h
    simp only [List.reverse_append, List.reverse_reverse] at h2
    unfold rstripSlash
    exact h2.symm

theorem comps_rstripSlash (s : Bytes) : comps (rstripSlash s) = comps s := by
  obtain ⟨l, hl, hs⟩ := rstripSlash_decomp s
  conv => rhs; rw [hs]
  rw [comps_append_all_sep _ _ hl]

/-! ### percent coding is a prefix code that fixes '/' -/

theorem hex_inj {a b : Nat} (h : hex a = hex b) : a = b := by
  unfold hex at h; split at h <;> split at h <;> omega

theorem isSafe_37 : isSafe 37 = false := by decide
theorem isSafe_47 : isSafe 47 = true := by decide

theorem qc_47 : qc 47 = [47] := by simp [qc, isSafe_47]

theorem hex_ne_47 (n : Nat) : hex n ≠ 47 := by unfold hex; split <;> omega

theorem qc_prefix_code {c d : Nat} {x y : Bytes} (h : qc c ++ x = qc d ++ y) : c = d ∧ x = y := by
  unfold qc at h
  by_cases hc : isSafe c = true <;> by_cases hd : isSafe d = true
  · simp [hc, hd] at h; exact h
  · simp [hc, hd] at h; obtain ⟨rfl, -⟩ := h; simp [isSafe_37] at hc
  · simp [hc, hd] at h; obtain ⟨rfl, -⟩ := h; simp [isSafe_37] at hd
  · simp [hc, hd] at h
    obtain ⟨h1, h2, h3⟩ := h
    have := hex_inj h1; have := hex_inj h2
    exact ⟨by omega, h3⟩

theorem quote_cons (c : Nat) (p : Bytes) : quote (c :: p) = qc c ++ quote p := by
  simp [quote]

theorem quote_append (a b : Bytes) : quote (a ++ b) = quote a ++ quote b := by
  simp [quote]

theorem qc_ne_nil (c : Nat) : qc c ≠ [] := by unfold qc; split <;> simp

theorem qc_head_47 {c : Nat} {t : Bytes} (h : qc c = 47 :: t) : c = 47 ∧ t = [] := by
  unfold qc at h; split at h
  · simp at h; exact ⟨h.1, h.2⟩
  · simp at h

/-- cancelling an encoded prefix followed by a separator -/
theorem quote_cancel_sep (a p t : Bytes) (h : quote a ++ 47 :: t = quote p) :
    ∃ r, p = a ++ 47 :: r ∧ t = quote r := by
  induction a generalizing p with
  | nil =>
    cases p with
    | nil => simp [quote] at h
    | cons d p' =>
      rw [quote_cons] at h
      have h' : qc 47 ++ t = qc d ++ quote p' := by simpa [qc_47, quote] using h
      obtain ⟨rfl, rfl⟩ := qc_prefix_code h'
      exact ⟨p', rfl, rfl⟩
  | cons c a ih =>
    cases p with
    | nil =>
      rw [quote_cons] at h
      have := qc_ne_nil c
      cases hq : qc c <;> simp_all [quote]
    | cons d p' =>
      rw [quote_cons, quote_cons, List.append_assoc] at h
      obtain ⟨rfl, h2⟩ := qc_prefix_code h
      obtain ⟨r, rfl, rfl⟩ := ih p' h2
      exact ⟨r, rfl, rfl⟩

theorem quote_inj {a p : Bytes} (h : quote a = quote p) : a = p := by
  induction a generalizing p with
  | nil =>
    cases p with
    | nil => rfl
    | cons d p' =>
      rw [quote_cons] at h
      have := qc_ne_nil d
      cases hq : qc d <;> simp_all [quote]
  | cons c a ih =>
    cases p with
    | nil =>
      rw [quote_cons] at h
      have := qc_ne_nil c
      cases hq : qc c <;> simp_all [quote]
    | cons d p' =>
      rw [quote_cons, quote_cons] at h
      obtain ⟨rfl, h2⟩ := qc_prefix_code h
      rw [ih h2]

theorem qc_noSep {c : Nat} (hc : c ≠ 47) : 47 ∉ qc c := by
  unfold qc; split
  · simp; exact fun e => hc e.symm
  · simp; exact ⟨fun e => hex_ne_47 _ e.symm, fun e => hex_ne_47 _ e.symm⟩

theorem quote_noSep {a : Bytes} (h : 47 ∉ a) : 47 ∉ quote a := by
  induction a with
  | nil => simp [quote]
  | cons c t ih =>
    rw [quote_cons]
    have hc : c ≠ 47 := fun e => h (by simp [e])
    have ht : 47 ∉ t := fun e => h (by simp [e])
    simp only [List.mem_append, not_or]
    exact ⟨qc_noSep hc, ih ht⟩

theorem quote_eq_nil {a : Bytes} (h : quote a = []) : a = [] := by
  cases a with
  | nil => rfl
  | cons c t =>
    rw [quote_cons] at h
    have := qc_ne_nil c
    simp_all

/-- percent coding acts component-wise -/
theorem split_quote (p : Bytes) : split (quote p) = (split p).map quote := by
  induction p with
  | nil => simp [split, quote]
  | cons c t ih =>
    by_cases hc : c = 47
    · subst hc
      rw [quote_cons, qc_47]
      have hq : quote ([] : Bytes) = [] := by simp [quote]
      simp [split, ih, hq]
    · have hn := qc_noSep hc
      rw [quote_cons]
      simp only [split, hc, if_false]
      have key : ∀ (w s : Bytes), 47 ∉ w → split (w ++ s) =
          match split s with
          | [] => [w]
          | h :: r => (w ++ h) :: r := by
        intro w s hw
        induction w with
        | nil => cases h : split s <;> simp [h]; exact absurd h (split_ne_nil s)
        | cons x w ihw =>
          have hx : x ≠ 47 := fun e => hw (by simp [e])
          have hw' : 47 ∉ w := fun e => hw (by simp [e])
          simp only [List.cons_append, split, hx, if_false, ihw hw']
          cases h : split s <;> simp
      rw [key _ _ hn, ih]
      cases h : split t with
      | nil => exact absurd h (split_ne_nil t)
      | cons h' r' => simp [quote_cons]

theorem comps_quote (p : Bytes) : comps (quote p) = (comps p).map quote := by
  unfold comps
  rw [split_quote, List.filter_map]
  congr 1
  apply List.filter_congr
  intro x _
  simp only [Function.comp]
  by_cases hx : x = []
  · subst hx; simp [quote]
  · have : quote x ≠ [] := fun e => hx (quote_eq_nil e)
    cases x with
    | nil => exact absurd rfl hx
    | cons a t => cases hq : quote (a :: t) with
      | nil => exact absurd hq this
      | cons _ _ => simp

theorem map_quote_prefix {a b : List Bytes} (h : a.map quote <+: b.map quote) : a <+: b := by
  induction a generalizing b with
  | nil => exact List.nil_prefix
  | cons x a ih =>
    cases b with
    | nil => simp at h
    | cons y b =>
      simp only [List.map_cons, List.cons_prefix_cons] at h
      obtain ⟨h1, h2⟩ := h
      rw [quote_inj h1]
      exact List.cons_prefix_cons.mpr ⟨rfl, ih h2⟩

/-! ### normpath of an absolute path is clean -/

/-- a path component that is a real name: non-empty, not `.`, not `..`, without separator -/
def CleanComp (c : Bytes) : Prop := c ≠ [] ∧ c ≠ dot ∧ c ≠ dotdot ∧ 47 ∉ c

theorem normStep_clean (acc : List Bytes) (comp : Bytes) (hacc : ∀ c ∈ acc, CleanComp c)
    (hcomp : 47 ∉ comp) : ∀ c ∈ normStep true acc comp, CleanComp c := by
  unfold normStep
  split
  · exact hacc
  · rename_i h1
    split
    · rename_i h2
      intro c hc
      rcases List.mem_cons.mp hc with rfl | hc
      · have hne : c ≠ [] := fun e => h1 (Or.inl e)
        have hnd : c ≠ dot := fun e => h1 (Or.inr e)
        refine ⟨hne, hnd, ?_, hcomp⟩
        rcases h2 with h2 | h2 | h2
        · exact h2
        · simp at h2
        · cases acc with
          | nil => simp at h2
          | cons a t =>
            simp at h2
            have := (hacc a (by simp)).2.2.1
            exact absurd h2 this
      · exact hacc c hc
    · intro c hc
      exact hacc c (List.mem_of_mem_tail hc)

theorem foldl_normStep_clean (cs acc : List Bytes) (hacc : ∀ c ∈ acc, CleanComp c)
    (hcs : ∀ c ∈ cs, 47 ∉ c) : ∀ c ∈ cs.foldl (normStep true) acc, CleanComp c := by
  induction cs generalizing acc with
  | nil => simpa using hacc
  | cons a t ih =>
    simp only [List.foldl_cons]
    exact ih _ (normStep_clean acc a hacc (hcs a (by simp))) (fun c hc => hcs c (by simp [hc]))

theorem normComps_clean (p : Bytes) : ∀ c ∈ normComps true (split p), CleanComp c := by
  intro c hc
  unfold normComps at hc
  exact foldl_normStep_clean (split p) [] (by simp) (split_mem_noSep p) c (List.mem_reverse.mp hc)

theorem comps_join_clean (cs : List Bytes) (h : ∀ c ∈ cs, CleanComp c) : comps (join cs) = cs := by
  induction cs with
  | nil => simp [join, comps_nil]
  | cons a t ih =>
    have ha := h a (by simp)
    cases t with
    | nil => simp [join, comps_noSep ha.2.2.2 ha.1]
    | cons b r =>
      simp only [join]
      rw [comps_append_sep, comps_noSep ha.2.2.2 ha.1, ih (fun c hc => h c (by simp [hc]))]
      rfl

theorem initialSlashes_pos {p : Bytes} (h : startsWith p [47] = true) : 0 < initialSlashes p := by
  obtain ⟨r, rfl⟩ := (startsWith_iff _ _).mp h
  simp only [List.singleton_append]
  unfold initialSlashes
  split <;> simp_all

/-- `posixpath.normpath` of an absolute path: an absolute path whose components are exactly the
    clean components computed by the loop -/
theorem normpath_abs (p : Bytes) (h : startsWith p [47] = true) :
    startsWith (normpath p) [47] = true ∧ comps (normpath p) = normComps true (split p) := by
  have hpos := initialSlashes_pos h
  have hp : p ≠ [] := by intro e; subst e; simp [startsWith] at h
  have hb : (initialSlashes p != 0) = true := by simp; omega
  unfold normpath
  simp only [hp, if_false, hb]
  obtain ⟨k, hk⟩ : ∃ k, initialSlashes p = k + 1 := ⟨initialSlashes p - 1, by omega⟩
  have hne : List.replicate (initialSlashes p) 47 ++ join (normComps true (split p)) ≠ [] := by
    rw [hk]; simp [List.replicate_succ]
  simp only [hne, if_false]
  refine ⟨?_, ?_⟩
  · rw [hk]; simp [List.replicate_succ, startsWith]
  · rw [comps_replicate_append, comps_join_clean _ (normComps_clean p)]

theorem normpath_abs_clean (p : Bytes) (h : startsWith p [47] = true) :
    ∀ c ∈ comps (normpath p), CleanComp c := by
  rw [(normpath_abs p h).2]; exact normComps_clean p

/-! ### shape of the results of normalize_url -/

theorem pureStr_abs {root : Nat} (h : 0 < root) (parts : List Bytes) :
    startsWith (pureStr root parts) [47] = true := by
  obtain ⟨k, rfl⟩ : ∃ k, root = k + 1 := ⟨root - 1, by omega⟩
  unfold pureStr
  simp [List.replicate_succ, startsWith]

theorem joinPath_abs_left {cwd : Bytes} (x : Bytes) (h : isAbsPath cwd = true) :
    isAbsPath (joinPath cwd x) = true := by
  unfold joinPath
  split
  · rename_i hx; exact pureStr_abs (initialSlashes_pos hx) _
  · exact pureStr_abs (initialSlashes_pos h) _

theorem mkFile_shape {j p u : Bytes} (hj : isAbsPath j = true) (h : mkFile j = .file p u) :
    isAbsPath j = true ∧ p = normpath j ∧ u = filePre ++ quote p := by
  have hn := (normpath_abs j hj).1
  simp only [mkFile, asUri, hn, if_true, Norm.file.injEq] at h
  obtain ⟨rfl, rfl⟩ := h
  exact ⟨hj, rfl, rfl⟩

theorem fromUri_error {x : Bytes} {e : Norm} (h : fromUri x = .error e) :
    e = .error ∨ e = .outOfScope := by
  unfold fromUri at h
  simp only at h
  repeat' split at h
  all_goals cases h
  all_goals simp

/-- Every local result of `normalize_url` is the rendered URL of the normalised form of an
    absolute path (the working directory being absolute). -/
theorem normalizeUrl_file_shape (cwd : Bytes) (base : Option Bytes) (url p u : Bytes)
    (hcwd : isAbsPath cwd = true) (h : normalizeUrl cwd base url = .file p u) :
    ∃ j, isAbsPath j = true ∧ p = normpath j ∧ u = filePre ++ quote p := by
  unfold normalizeUrl at h
  simp only at h
  repeat' split at h
  all_goals first
    | (cases h; done)
    | exact ⟨_, mkFile_shape (by assumption) h⟩
    | exact ⟨_, mkFile_shape (joinPath_abs_left _ hcwd) h⟩
    | (rename_i e; rcases fromUri_error e with h' | h' <;> subst h' <;> cases h)
    | skip

/-! ### a rendered file URL is classified as local -/

theorem hex_safe (n : Nat) (h : n < 16) : isSafe (hex n) = true := by
  have : n = 0 ∨ n = 1 ∨ n = 2 ∨ n = 3 ∨ n = 4 ∨ n = 5 ∨ n = 6 ∨ n = 7 ∨ n = 8 ∨ n = 9 ∨ n = 10 ∨
      n = 11 ∨ n = 12 ∨ n = 13 ∨ n = 14 ∨ n = 15 := by omega
  rcases this with h | h | h | h | h | h | h | h | h | h | h | h | h | h | h | h <;> subst h <;> decide

/-- percent-encoded text contains no control characters and no blanks -/
def QA (c : Nat) : Prop := 33 ≤ c

theorem isSafe_QA {c : Nat} (h : isSafe c = true) : QA c := by
  unfold isSafe isAlpha isDigit at h
  simp only [Bool.or_eq_true, Bool.and_eq_true, decide_eq_true_eq, beq_iff_eq] at h
  unfold QA; omega

theorem hex_QA (n : Nat) : QA (hex n) := by
  by_cases h : n < 10
  · have : hex n = 48 + n := by simp [hex, h]
    rw [this]; unfold QA; omega
  · have : hex n = 55 + n := by simp [hex, h]
    rw [this]; unfold QA; omega

theorem quote_QA (p : Bytes) : ∀ c ∈ quote p, QA c := by
  induction p with
  | nil => simp [quote]
  | cons a t ih =>
    rw [quote_cons]
    intro c hc
    rcases List.mem_append.mp hc with hc | hc
    · unfold qc at hc
      split at hc
      · rename_i hs; simp at hc; subst hc; exact isSafe_QA hs
      · simp at hc
        rcases hc with rfl | rfl | rfl
        · unfold QA; omega
        · exact hex_QA _
        · exact hex_QA _
    · exact ih c hc

theorem dropWhile_all_false {p : Nat → Bool} {l : Bytes} (h : ∀ c ∈ l, p c = false) :
    l.dropWhile p = l := by
  cases l with
  | nil => rfl
  | cons x t => simp [h x (by simp)]

theorem filter_all_true {p : Nat → Bool} {l : Bytes} (h : ∀ c ∈ l, p c = true) :
    l.filter p = l := List.filter_eq_self.mpr h

theorem fileUrl_QA (p : Bytes) : ∀ c ∈ filePre ++ quote p, QA c := by
  intro c hc
  rcases List.mem_append.mp hc with hc | hc
  · simp [filePre] at hc
    rcases hc with rfl | rfl | rfl | rfl | rfl | rfl <;> simp [QA]
  · exact quote_QA p c hc

theorem classify_fileUrl (p : Bytes) : classify (filePre ++ quote p) = .loc := by
  have hq := fileUrl_QA p
  have hns : ∀ c ∈ filePre ++ quote p, isSpace c = false := by
    intro c hc; have := hq c hc; unfold QA at this
    unfold isSpace; simp; omega
  have h10 : (filePre ++ quote p).contains 10 = false := by
    cases hh : (filePre ++ quote p).contains 10 with
    | false => rfl
    | true =>
      have := hq 10 (by simpa using hh)
      unfold QA at this; omega
  have hl : lstrip (filePre ++ quote p) = filePre ++ quote p := dropWhile_all_false hns
  have hs : strip (filePre ++ quote p) = filePre ++ quote p := by
    unfold strip
    rw [hl, dropWhile_all_false (fun c hc => hns c (List.mem_reverse.mp hc)), List.reverse_reverse]
  have hd : (filePre ++ quote p).dropWhile isC0OrSpace = filePre ++ quote p :=
    dropWhile_all_false (fun c hc => by have := hq c hc; unfold QA at this; unfold isC0OrSpace; simp; omega)
  have hf : (filePre ++ quote p).filter (fun c => !(c == 9 || c == 10 || c == 13)) = filePre ++ quote p :=
    filter_all_true (fun c hc => by have := hq c hc; unfold QA at this; simp; omega)
  have hscheme : (urlsplit (filePre ++ quote p)).scheme = [102, 105, 108, 101] := by
    unfold urlsplit
    simp only [hd, hf]
    simp [filePre, splitScheme, scanScheme, isAlpha, isSchemeChar, isDigit, lower]
  unfold classify
  rw [h10, hl, hs, hscheme]
  simp [filePre, startsWith, isLocalScheme]

end XsVerif.Access
