/-
  Lemmas about the facet model (C14): the nearest facet of a kind is declared by some step of the
  chain; what an accepted step guarantees per facet kind.
-/
import XsVerif.Model.Facets
import XsVerif.Lemmas.DatatypesWs

set_option linter.unusedSectionVars false

namespace XsVerif.Facets

section
variable {α : Type}

theorem nearest_mem {β : Type} (get : FSet α → Option β) :
    ∀ (C : Chain α) (x : β), nearest get C = some x → ∃ S ∈ C, get S = some x := by
  intro C
  induction C with
  | nil => intro x h; simp [nearest] at h
  | cons S C ih =>
    intro x h
    simp only [nearest] at h
    cases hS : get S with
    | some y => rw [hS] at h; exact ⟨S, by simp, by rw [hS]; exact h⟩
    | none =>
      rw [hS] at h
      obtain ⟨T, hT, hg⟩ := ih x h
      exact ⟨T, by simp [hT], hg⟩

theorem nearest_cons_some {β : Type} (get : FSet α → Option β) (D : FSet α) (C : Chain α) (x : β)
    (h : get D = some x) : nearest get (D :: C) = some x := by
  simp [nearest, h]

theorem nearest_cons_none {β : Type} (get : FSet α → Option β) (D : FSet α) (C : Chain α)
    (h : get D = none) : nearest get (D :: C) = nearest get C := by
  simp [nearest, h]

theorem err_nil (c : Bool) (e : E) : err c e = [] ↔ c = false := by
  cases c <;> simp [err]

end

section
variable {α : Type} [LE α] [LT α] [DecidableLE α] [DecidableLT α] [DecidableEq α]

theorem validChain_mem (C : Chain α) (v : Val α) (h : validChain C v = true) :
    ∀ S ∈ C, S.valid v = true := by
  simpa [validChain] using h

theorem validChainBut_mem (C : Chain α) (a b : Option α) (v : Val α)
    (h : validChainBut C a b v = true) : ∀ S ∈ C, S.validBut a b v = true := by
  simpa [validChainBut] using h

/-- the ten conjuncts of `FSet.valid` -/
theorem valid_iff (S : FSet α) (v : Val α) : S.valid v = true ↔
    optAll S.length (passLength v) = true ∧ optAll S.minLength (passMinLength v) = true ∧
    optAll S.maxLength (passMaxLength v) = true ∧ optAll S.minInc (passMinInc v) = true ∧
    optAll S.minExc (passMinExc v) = true ∧ optAll S.maxInc (passMaxInc v) = true ∧
    optAll S.maxExc (passMaxExc v) = true ∧ optAll S.totalDigits (passTotal v) = true ∧
    optAll S.fractionDigits (passFraction v) = true ∧ optAll S.enum (passEnum v) = true := by
  simp only [FSet.valid, Bool.and_eq_true]
  constructor
  · rintro ⟨⟨⟨⟨⟨⟨⟨⟨⟨a, b⟩, c⟩, d⟩, e⟩, f⟩, g⟩, h⟩, i⟩, j⟩; exact ⟨a, b, c, d, e, f, g, h, i, j⟩
  · rintro ⟨a, b, c, d, e, f, g, h, i, j⟩; exact ⟨⟨⟨⟨⟨⟨⟨⟨⟨a, b⟩, c⟩, d⟩, e⟩, f⟩, g⟩, h⟩, i⟩, j⟩

theorem validBut_iff (S : FSet α) (a b : Option α) (v : Val α) : S.validBut a b v = true ↔
    optAll S.length (passLength v) = true ∧ optAll S.minLength (passMinLength v) = true ∧
    optAll S.maxLength (passMaxLength v) = true ∧ optAll S.minInc (passMinInc v) = true ∧
    optAll S.minExc (fun f => a == some f.v.ord || passMinExc v f) = true ∧
    optAll S.maxInc (passMaxInc v) = true ∧
    optAll S.maxExc (fun f => b == some f.v.ord || passMaxExc v f) = true ∧
    optAll S.totalDigits (passTotal v) = true ∧
    optAll S.fractionDigits (passFraction v) = true ∧ optAll S.enum (passEnum v) = true := by
  simp only [FSet.validBut, Bool.and_eq_true]
  constructor
  · rintro ⟨⟨⟨⟨⟨⟨⟨⟨⟨a, b⟩, c⟩, d⟩, e⟩, f⟩, g⟩, h⟩, i⟩, j⟩; exact ⟨a, b, c, d, e, f, g, h, i, j⟩
  · rintro ⟨a, b, c, d, e, f, g, h, i, j⟩; exact ⟨⟨⟨⟨⟨⟨⟨⟨⟨a, b⟩, c⟩, d⟩, e⟩, f⟩, g⟩, h⟩, i⟩, j⟩

theorem validEff_iff (C : Chain α) (v : Val α) : validEff C v = true ↔
    optAll (nearest (·.length) C) (passLength v) = true ∧
    optAll (nearest (·.minLength) C) (passMinLength v) = true ∧
    optAll (nearest (·.maxLength) C) (passMaxLength v) = true ∧
    optAll (nearest (·.minInc) C) (passMinInc v) = true ∧
    optAll (nearest (·.minExc) C) (passMinExc v) = true ∧
    optAll (nearest (·.maxInc) C) (passMaxInc v) = true ∧
    optAll (nearest (·.maxExc) C) (passMaxExc v) = true ∧
    optAll (nearest (·.totalDigits) C) (passTotal v) = true ∧
    optAll (nearest (·.fractionDigits) C) (passFraction v) = true ∧
    optAll (nearest (·.enum) C) (passEnum v) = true := by
  simp only [validEff, Bool.and_eq_true]
  constructor
  · rintro ⟨⟨⟨⟨⟨⟨⟨⟨⟨a, b⟩, c⟩, d⟩, e⟩, f⟩, g⟩, h⟩, i⟩, j⟩; exact ⟨a, b, c, d, e, f, g, h, i, j⟩
  · rintro ⟨a, b, c, d, e, f, g, h, i, j⟩; exact ⟨⟨⟨⟨⟨⟨⟨⟨⟨a, b⟩, c⟩, d⟩, e⟩, f⟩, g⟩, h⟩, i⟩, j⟩

/-- what `accepts` means: each group of checks reports nothing -/
theorem accepts_iff (C : Chain α) (D : FSet α) : accepts C D = true ↔
    fixedErrs C D = [] ∧ wsErrs C D = [] ∧ lengthErrs C D = [] ∧ boundErrs C D = [] ∧
    digitsErrs C D = [] ∧ enumErrs C D = [] ∧ crossLengthErrs C D = [] ∧ crossBoundErrs D = [] ∧
    crossDigitsErrs C D = [] := by
  simp only [accepts, checkStep, List.isEmpty_iff, List.append_eq_nil_iff]
  constructor
  · rintro ⟨⟨⟨⟨⟨⟨⟨⟨a, b⟩, c⟩, d⟩, e⟩, f⟩, g⟩, h⟩, i⟩; exact ⟨a, b, c, d, e, f, g, h, i⟩
  · rintro ⟨a, b, c, d, e, f, g, h, i⟩; exact ⟨⟨⟨⟨⟨⟨⟨⟨a, b⟩, c⟩, d⟩, e⟩, f⟩, g⟩, h⟩, i⟩

/-- a value that is valid for the whole chain passes the nearest facet of every kind -/
theorem validChain_nearest {β : Type} (get : FSet α → Option β) (pass : Val α → β → Bool)
    (hget : ∀ (S : FSet α) (v : Val α), S.valid v = true → optAll (get S) (pass v) = true)
    (C : Chain α) (v : Val α) (h : validChain C v = true) :
    optAll (nearest get C) (pass v) = true := by
  cases hn : nearest get C with
  | none => rfl
  | some x =>
    obtain ⟨S, hS, hg⟩ := nearest_mem get C x hn
    have := hget S v (validChain_mem C v h S hS)
    rw [hg] at this
    exact this

theorem validChain_imp_validEff (C : Chain α) (v : Val α) (h : validChain C v = true) :
    validEff C v = true := by
  rw [validEff_iff]
  refine ⟨?_, ?_, ?_, ?_, ?_, ?_, ?_, ?_, ?_, ?_⟩ <;>
    (apply validChain_nearest _ _ _ C v h; intro S v hv; rw [valid_iff] at hv; simp [hv])


/-! ### an accepted step narrows every kind it overrides -/

variable [Std.IsLinearOrder α] [Std.LawfulOrderLT α]

theorem narrow_length (C : Chain α) (D : FSet α) (h : lengthErrs C D = []) (f : F Nat)
    (hD : D.length = some f) (v : Val α) (hp : passLength v f = true) :
    optAll (nearest (·.length) C) (passLength v) = true := by
  cases hn : nearest (·.length) C with
  | none => rfl
  | some b =>
    simp only [lengthErrs, hD, hn, List.append_eq_nil_iff, err_nil] at h
    simp only [optAll, passLength] at hp ⊢
    have := h.1.1
    grind

theorem narrow_minLength (C : Chain α) (D : FSet α) (h : lengthErrs C D = []) (f : F Nat)
    (hD : D.minLength = some f) (v : Val α) (hp : passMinLength v f = true) :
    optAll (nearest (·.minLength) C) (passMinLength v) = true := by
  cases hn : nearest (·.minLength) C with
  | none => rfl
  | some b =>
    simp only [lengthErrs, hD, hn, List.append_eq_nil_iff, err_nil] at h
    simp only [optAll, passMinLength] at hp ⊢
    have := h.1.2
    grind

theorem narrow_maxLength (C : Chain α) (D : FSet α) (h : lengthErrs C D = []) (f : F Nat)
    (hD : D.maxLength = some f) (v : Val α) (hp : passMaxLength v f = true) :
    optAll (nearest (·.maxLength) C) (passMaxLength v) = true := by
  cases hn : nearest (·.maxLength) C with
  | none => rfl
  | some b =>
    simp only [lengthErrs, hD, hn, List.append_eq_nil_iff, err_nil] at h
    simp only [optAll, passMaxLength] at hp ⊢
    have := h.2
    grind

theorem narrow_total (C : Chain α) (D : FSet α) (h : digitsErrs C D = []) (f : F Nat)
    (hD : D.totalDigits = some f) (v : Val α) (hp : passTotal v f = true) :
    optAll (nearest (·.totalDigits) C) (passTotal v) = true := by
  cases hn : nearest (·.totalDigits) C with
  | none => rfl
  | some b =>
    simp only [digitsErrs, hD, hn, List.append_eq_nil_iff, err_nil] at h
    simp only [optAll, passTotal] at hp ⊢
    have := h.1
    grind

theorem narrow_fraction (C : Chain α) (D : FSet α) (h : digitsErrs C D = []) (f : F Nat)
    (hD : D.fractionDigits = some f) (v : Val α) (hp : passFraction v f = true) :
    optAll (nearest (·.fractionDigits) C) (passFraction v) = true := by
  cases hn : nearest (·.fractionDigits) C with
  | none => rfl
  | some b =>
    simp only [digitsErrs, hD, hn, List.append_eq_nil_iff, err_nil] at h
    simp only [optAll, passFraction] at hp ⊢
    have := h.2
    grind

/-- the bound of an accepted minInclusive is a valid value of the base chain -/
theorem bound_minInc (C : Chain α) (D : FSet α) (h : boundErrs C D = []) (f : F (Val α))
    (hD : D.minInc = some f) : validChain C f.v = true := by
  simp only [boundErrs, hD, List.append_eq_nil_iff, err_nil] at h
  simpa using h.1.1.1

theorem bound_maxInc (C : Chain α) (D : FSet α) (h : boundErrs C D = []) (f : F (Val α))
    (hD : D.maxInc = some f) : validChain C f.v = true := by
  simp only [boundErrs, hD, List.append_eq_nil_iff, err_nil] at h
  simpa using h.1.2

theorem bound_minExc (C : Chain α) (D : FSet α) (h : boundErrs C D = []) (f : F (Val α))
    (hD : D.minExc = some f) : validChainBut C (some f.v.ord) none f.v = true := by
  simp only [boundErrs, hD, List.append_eq_nil_iff, err_nil] at h
  simpa using h.1.1.2.1

theorem bound_maxExc (C : Chain α) (D : FSet α) (h : boundErrs C D = []) (f : F (Val α))
    (hD : D.maxExc = some f) : validChainBut C none (some f.v.ord) f.v = true := by
  simp only [boundErrs, hD, List.append_eq_nil_iff, err_nil] at h
  simpa using h.2.1

theorem narrow_minInc (C : Chain α) (D : FSet α) (h : boundErrs C D = []) (f : F (Val α))
    (hD : D.minInc = some f) (v : Val α) (hp : passMinInc v f = true) :
    optAll (nearest (·.minInc) C) (passMinInc v) = true := by
  cases hn : nearest (·.minInc) C with
  | none => rfl
  | some b =>
    obtain ⟨S, hS, hg⟩ := nearest_mem _ C b hn
    have hv := validChain_mem C f.v (bound_minInc C D h f hD) S hS
    rw [valid_iff] at hv
    have h4 := hv.2.2.2.1
    simp only [hg, optAll, passMinInc] at h4 hp ⊢
    grind

theorem narrow_maxInc (C : Chain α) (D : FSet α) (h : boundErrs C D = []) (f : F (Val α))
    (hD : D.maxInc = some f) (v : Val α) (hp : passMaxInc v f = true) :
    optAll (nearest (·.maxInc) C) (passMaxInc v) = true := by
  cases hn : nearest (·.maxInc) C with
  | none => rfl
  | some b =>
    obtain ⟨S, hS, hg⟩ := nearest_mem _ C b hn
    have hv := validChain_mem C f.v (bound_maxInc C D h f hD) S hS
    rw [valid_iff] at hv
    have h4 := hv.2.2.2.2.2.1
    simp only [hg, optAll, passMaxInc] at h4 hp ⊢
    grind

theorem narrow_minExc (C : Chain α) (D : FSet α) (h : boundErrs C D = []) (f : F (Val α))
    (hD : D.minExc = some f) (v : Val α) (hp : passMinExc v f = true) :
    optAll (nearest (·.minExc) C) (passMinExc v) = true := by
  cases hn : nearest (·.minExc) C with
  | none => rfl
  | some b =>
    obtain ⟨S, hS, hg⟩ := nearest_mem _ C b hn
    have hv := validChainBut_mem C _ _ f.v (bound_minExc C D h f hD) S hS
    rw [validBut_iff] at hv
    have h4 := hv.2.2.2.2.1
    simp only [hg, optAll, passMinExc, Bool.or_eq_true, beq_iff_eq, Option.some.injEq] at h4 hp ⊢
    grind

theorem narrow_maxExc (C : Chain α) (D : FSet α) (h : boundErrs C D = []) (f : F (Val α))
    (hD : D.maxExc = some f) (v : Val α) (hp : passMaxExc v f = true) :
    optAll (nearest (·.maxExc) C) (passMaxExc v) = true := by
  cases hn : nearest (·.maxExc) C with
  | none => rfl
  | some b =>
    obtain ⟨S, hS, hg⟩ := nearest_mem _ C b hn
    have hv := validChainBut_mem C _ _ f.v (bound_maxExc C D h f hD) S hS
    rw [validBut_iff] at hv
    have h4 := hv.2.2.2.2.2.2.1
    simp only [hg, optAll, passMaxExc, Bool.or_eq_true, beq_iff_eq, Option.some.injEq] at h4 hp ⊢
    grind

theorem narrow_enum (C : Chain α) (D : FSet α) (h : enumErrs C D = []) (l : List (Val α))
    (hD : D.enum = some l) (v : Val α) (hp : passEnum v l = true) :
    optAll (nearest (·.enum) C) (passEnum v) = true := by
  simp only [enumErrs, hD, err_nil, Bool.not_eq_false', List.all_eq_true] at h
  have hv : validChain C v = true := h v (by simpa [passEnum] using hp)
  exact validChain_nearest _ _ (fun S v hv => by rw [valid_iff] at hv; simp [hv]) C v hv

/-- the step of a generic kind: overriding facet passes ⇒ the base's nearest facet passes -/
theorem optAll_cons {β : Type} (get : FSet α → Option β) (pass : Val α → β → Bool) (D : FSet α)
    (C : Chain α) (v : Val α)
    (hnar : ∀ f, get D = some f → pass v f = true → optAll (nearest get C) (pass v) = true)
    (h : optAll (nearest get (D :: C)) (pass v) = true) :
    optAll (nearest get C) (pass v) = true := by
  cases hD : get D with
  | none => rw [nearest_cons_none get D C hD] at h; exact h
  | some f =>
    rw [nearest_cons_some get D C f hD] at h
    exact hnar f hD (by simpa [optAll] using h)

/-- accepted step: every value that satisfies the effective facets of the derived type satisfies
    the effective facets of the base type -/
theorem eff_narrows (C : Chain α) (D : FSet α) (h : accepts C D = true) (v : Val α)
    (hv : validEff (D :: C) v = true) : validEff C v = true := by
  rw [accepts_iff] at h
  obtain ⟨_, _, hl, hb, hd, he, _, _, _⟩ := h
  rw [validEff_iff] at hv ⊢
  obtain ⟨a1, a2, a3, a4, a5, a6, a7, a8, a9, a10⟩ := hv
  exact ⟨optAll_cons _ _ D C v (fun f hf hp => narrow_length C D hl f hf v hp) a1,
    optAll_cons _ _ D C v (fun f hf hp => narrow_minLength C D hl f hf v hp) a2,
    optAll_cons _ _ D C v (fun f hf hp => narrow_maxLength C D hl f hf v hp) a3,
    optAll_cons _ _ D C v (fun f hf hp => narrow_minInc C D hb f hf v hp) a4,
    optAll_cons _ _ D C v (fun f hf hp => narrow_minExc C D hb f hf v hp) a5,
    optAll_cons _ _ D C v (fun f hf hp => narrow_maxInc C D hb f hf v hp) a6,
    optAll_cons _ _ D C v (fun f hf hp => narrow_maxExc C D hb f hf v hp) a7,
    optAll_cons _ _ D C v (fun f hf hp => narrow_total C D hd f hf v hp) a8,
    optAll_cons _ _ D C v (fun f hf hp => narrow_fraction C D hd f hf v hp) a9,
    optAll_cons _ _ D C v (fun f hf hp => narrow_enum C D he f hf v hp) a10⟩

/-- the facets a step declares are the nearest of their kind: a value that satisfies the effective
    facets of `D :: C` passes every validator of `D` -/
theorem eff_imp_step (C : Chain α) (D : FSet α) (v : Val α) (hv : validEff (D :: C) v = true) :
    D.valid v = true := by
  rw [validEff_iff] at hv
  rw [valid_iff]
  obtain ⟨a1, a2, a3, a4, a5, a6, a7, a8, a9, a10⟩ := hv
  have key : ∀ {β : Type} (get : FSet α → Option β) (pass : Val α → β → Bool),
      optAll (nearest get (D :: C)) (pass v) = true → optAll (get D) (pass v) = true := by
    intro β get pass h
    cases hD : get D with
    | none => rfl
    | some f => rw [nearest_cons_some get D C f hD] at h; exact h
  exact ⟨key _ _ a1, key _ _ a2, key _ _ a3, key _ _ a4, key _ _ a5, key _ _ a6, key _ _ a7,
    key _ _ a8, key _ _ a9, key _ _ a10⟩

/-- on a chain whose steps were all accepted, the effective facets denote exactly the values the
    chained validation accepts -/
theorem eff_iff_chain : ∀ (C : Chain α), Accepted C → ∀ v, validEff C v = true ↔ validChain C v = true := by
  intro C
  induction C with
  | nil => intro _ v; simp [validEff, validChain, nearest, optAll]
  | cons D C ih =>
    intro hacc v
    obtain ⟨hD, hC⟩ := hacc
    constructor
    · intro hv
      have h1 := eff_imp_step C D v hv
      have h2 := (ih hC v).1 (eff_narrows C D hD v hv)
      simp only [validChain, List.all_cons, Bool.and_eq_true] at h2 ⊢
      exact ⟨h1, h2⟩
    · exact validChain_imp_validEff (D :: C) v


/-- an accepted step is stored as declared -/
theorem stored_of_accepts (C : Chain α) (D : FSet α) (h : accepts C D = true) : stored C D = D := by
  rw [accepts_iff] at h
  have he := h.2.2.2.2.2.1
  unfold stored
  cases hD : D.enum with
  | none => cases D; simp_all
  | some l =>
    simp only [enumErrs, hD, err_nil, Bool.not_eq_false', List.all_eq_true] at he
    have : l.filter (validChain C) = l := List.filter_eq_self.mpr he
    cases D; simp_all

theorem storedChain_of_accepted : ∀ (C : Chain α), Accepted C → storedChain C = C := by
  intro C
  induction C with
  | nil => intro _; rfl
  | cons D C ih =>
    intro h
    simp only [storedChain, ih h.2, stored_of_accepts C D h.1]

/-! ### white space: accepted steps only move along preserve → replace → collapse -/

theorem ws_monotone (C : Chain α) (D : FSet α) (h : accepts C D = true) :
    wsRank (effWs C) ≤ wsRank (effWs (D :: C)) := by
  rw [accepts_iff] at h
  have hw := h.2.1
  unfold effWs
  cases hD : D.ws with
  | none => rw [nearest_cons_none _ D C hD]; exact Nat.le_refl _
  | some f =>
    rw [nearest_cons_some _ D C f hD]
    cases hn : nearest (·.ws) C with
    | none => simp [wsRank]
    | some b =>
      simp only [wsErrs, hD, hn, Option.map_some] at hw
      cases hf : f.v <;> cases hb : b.v <;> simp [hf, hb, wsRank, err] at hw ⊢

end

open XsVerif.Datatypes in
section
theorem wsReplace_fix (W : Char → Bool) (t : Str)
    (h : ∀ c ∈ t, W c = true → c = ' ') : wsReplace W t = t := by
  unfold wsReplace
  induction t with
  | nil => rfl
  | cons c cs ih =>
    simp only [List.map_cons, List.cons.injEq]
    constructor
    · by_cases hc : W c = true
      · simp [h c (by simp) hc]
      · simp [hc]
    · exact ih (fun d hd => h d (by simp [hd]))

theorem wsReplace_ws (W : Char → Bool) (_hsp : W ' ' = true) (s : Str) :
    ∀ c ∈ wsReplace W s, W c = true → c = ' ' := by
  intro c hc hw
  simp only [wsReplace, List.mem_map] at hc
  obtain ⟨d, _, rfl⟩ := hc
  by_cases hd : W d = true
  · simp [hd]
  · simp_all

/-- a coarser (or equal) normalisation after a finer one changes nothing -/
theorem normalize_absorb (W : Char → Bool) (hsp : W ' ' = true) (b d : Ws) (h : wsRank b ≤ wsRank d)
    (s : Str) : normalize W b (normalize W d s) = normalize W d s := by
  cases b <;> cases d <;> simp [wsRank] at h <;> simp only [normalize]
  · exact wsReplace_fix W _ (wsReplace_ws W hsp s)
  · exact wsReplace_fix W _ (normalize_collapse_spec' W hsp s)
  · exact wsCollapse_fix W _ (wsCollapse_sqz W hsp s) (by unfold wsCollapse strip; exact rstrip_last W _)
where
  normalize_collapse_spec' (W : Char → Bool) (hsp : W ' ' = true) (s : Str) :
      ∀ c ∈ wsCollapse W s, W c = true → c = ' ' :=
    (sqz_spec W true _ (wsCollapse_sqz W hsp s)).1

/-- on a type whose steps were all accepted, the text that reaches the validators is the text
    normalised once with the type's own white space value -/
theorem normChain_eq : ∀ (C : Chain Int), Accepted C → ∀ s,
    normChain C s = Datatypes.normalize Datatypes.isXmlWs (effWs C) s := by
  intro C
  induction C with
  | nil => intro _ s; simp [normChain, effWs, nearest, Datatypes.normalize]
  | cons D C ih =>
    intro hacc s
    simp only [normChain]
    rw [ih hacc.2]
    exact normalize_absorb _ (by decide) _ _ (ws_monotone C D hacc.1) s
end

end XsVerif.Facets
