/-
  Helper lemmas for C04 (Model/Modes.lean): characterisation of the generator run in each mode.
-/
import XsVerif.Model.Modes

namespace XsVerif.Modes
variable {D : Type}

@[simp] theorem errsOf_append (a b : List (Item D)) : errsOf (a ++ b) = errsOf a ++ errsOf b := by
  induction a with
  | nil => rfl
  | cons i k ih => cases i <;> simp [errsOf, ih]

@[simp] theorem dataOf_append (a b : List (Item D)) : dataOf (a ++ b) = dataOf a ++ dataOf b := by
  induction a with
  | nil => rfl
  | cons i k ih => cases i <;> simp [dataOf, ih]

@[simp] theorem errsOf_map_err (l : List Err) : errsOf (l.map (Item.err (D := D))) = l := by
  induction l with
  | nil => rfl
  | cons e k ih => simp [errsOf, ih]

@[simp] theorem dataOf_map_err (l : List Err) : dataOf (l.map (Item.err (D := D))) = [] := by
  induction l with
  | nil => rfl
  | cons e k ih => simp [dataOf, ih]

@[simp] theorem cons_items (i : Item D) (g : Gen D) : (g.cons i).items = i :: g.items := rfl
@[simp] theorem cons_raised (i : Item D) (g : Gen D) : (g.cons i).raised = g.raised := rfl
@[simp] theorem prepend_items (l : List (Item D)) (g : Gen D) : (g.prepend l).items = l ++ g.items := rfl
@[simp] theorem prepend_raised (l : List (Item D)) (g : Gen D) : (g.prepend l).raised = g.raised := rfl

/-- lax and skip runs never raise (raise_or_collect only raises in strict mode). -/
theorem gen_lax_raised (s : List (Step D)) (b : List Err) : (gen .lax s b).raised = none := by
  induction s generalizing b with
  | nil => rfl
  | cons st k ih => cases st <;> simp [gen, ih]

theorem gen_skip_raised (s : List (Step D)) (b : List Err) : (gen .skip s b).raised = none := by
  induction s generalizing b with
  | nil => rfl
  | cons st k ih => cases st <;> simp [gen, ih] <;> split <;> simp [ih]

/-- the data yielded by a lax / skip run are the results of the script, whatever the buffer. -/
theorem gen_lax_data (s : List (Step D)) (b : List Err) : dataOf (gen .lax s b).items = results s := by
  induction s generalizing b with
  | nil => rfl
  | cons st k ih => cases st <;> simp [gen, results, dataOf, ih]

theorem gen_skip_data (s : List (Step D)) (b : List Err) : dataOf (gen .skip s b).items = results s := by
  induction s generalizing b with
  | nil => rfl
  | cons st k ih => cases st <;> simp [gen, results, dataOf, ih] <;> split <;> simp [dataOf, ih]

/-- after a `direct` only direct / result / stop steps follow (no more flushes). -/
theorem tail_lax_errs (s : List (Step D)) (b : List Err) (h : tail2 s = true) :
    errsOf (gen .lax s b).items = events s := by
  induction s generalizing b with
  | nil => rfl
  | cons st k ih =>
    cases st <;> simp [tail2] at h <;> simp [gen, events, errsOf, ih, h]

/-- **lax run of a disciplined script**: the errors yielded are the pending buffer followed by
    the error events of the script, in call order. -/
theorem gen_lax_errs (s : List (Step D)) (p : Bool) (b : List Err) (h : wf s p = true)
    (hb : p = false → b = []) : errsOf (gen .lax s b).items = b ++ events s := by
  induction s generalizing p b with
  | nil => simp [wf] at h; simp [gen, events, errsOf, hb h]
  | cons st k ih =>
    cases st with
    | collect e =>
      simp [wf] at h
      simp [gen, events, ih true (b ++ [e]) h (by simp)]
    | direct e sk =>
      simp [wf] at h
      obtain ⟨⟨hp, ht⟩, _⟩ := h
      simp [gen, events, errsOf, tail_lax_errs k _ ht, hb hp]
    | flush =>
      simp [wf] at h
      simp [gen, events, ih false [] h (by simp)]
    | result d =>
      simp [wf] at h
      obtain ⟨hp, hk⟩ := h
      simp [gen, events, errsOf, hb hp, ih false [] hk (by simp)]
    | stop =>
      simp [wf] at h
      simp [gen, events, errsOf, hb h]

/-- **strict run**: with an empty buffer the run raises the first error event, or (no event)
    yields exactly the results. -/
theorem gen_strict (s : List (Step D)) :
    (events s = [] → (gen .strict s []).raised = none ∧ errsOf (gen .strict s []).items = [] ∧
        dataOf (gen .strict s []).items = results s) ∧
    (∀ e r, events s = e :: r → (gen .strict s []).raised = some e ∧
        errsOf (gen .strict s []).items = []) := by
  induction s with
  | nil => simp [gen, events, errsOf, dataOf, results]
  | cons st k ih =>
    cases st <;> simp [gen, events, errsOf, dataOf, results] <;> grind

theorem decodeLoop_lax (l : List (Item D)) (ds : List D) (es : List Err) :
    decodeLoop .lax l ds es = .ok (ds ++ dataOf l, es ++ errsOf l) := by
  induction l generalizing ds es with
  | nil => simp [decodeLoop, dataOf, errsOf]
  | cons i k ih => cases i <;> simp [decodeLoop, dataOf, errsOf, ih]

theorem decodeLoop_skip (l : List (Item D)) (ds : List D) (es : List Err) :
    decodeLoop .skip l ds es = .ok (ds ++ dataOf l, es) := by
  induction l generalizing ds es with
  | nil => simp [decodeLoop, dataOf]
  | cons i k ih => cases i <;> simp [decodeLoop, dataOf, ih]

theorem decodeLoop_strict_noerr (l : List (Item D)) (ds : List D) (es : List Err)
    (h : errsOf l = []) : decodeLoop .strict l ds es = .ok (ds ++ dataOf l, es) := by
  induction l generalizing ds es with
  | nil => simp [decodeLoop, dataOf]
  | cons i k ih => cases i <;> simp [errsOf] at h <;> simp [decodeLoop, dataOf, ih _ _ h]

end XsVerif.Modes
