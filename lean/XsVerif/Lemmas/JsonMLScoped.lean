/-
  JsonML with namespace declarations below the root: the one-level round trip of `encK` (the name of a child is
  un-mapped in the child's own namespace context, jsonml.py:126-131) and the contract `ScopedOK` of the scoped
  recursion (Lemmas/Tree.lean).  The lemmas about the element's own data (attribute dict, declarations) are the
  ones of Lemmas/JsonML.lean; what changes is what is known about a converted child: a JsonML list whose head
  string un-maps to the child's name *in the child's scope* — not the name as the parent would write it.
-/
import XsVerif.Lemmas.JsonML
import XsVerif.Lemmas.Tree

namespace XsVerif.Conv.JsonML
open XsVerif.Conv

/-- `number`/`encBody`/`enc` are `numberK`/`encBodyK`/`encK` when a child's name is un-mapped with the
    element's mapper -/
theorem numberK_eq (m : Mapper) (useNs : Bool) : ∀ (l : List J) (k : Nat),
    numberK (fun _ => m.um) useNs k l = number m useNs k l := by
  intro l
  induction l with
  | nil => intro k; rfl
  | cons e r ih =>
    intro k
    unfold numberK number
    split <;> simp only [ih]

theorem encBodyK_eq (m : Mapper) (useNs : Bool) (f : Facts) (tag : String) (a : List (String × J))
    (x : List (String × String)) (body : List J) :
    encBodyK (fun _ => m.um) useNs f tag a x body = encBody m useNs f tag a x body := by
  unfold encBodyK encBody
  split <;> simp only [numberK_eq]

theorem encK_eq (m : Mapper) (useNs : Bool) (f : Facts) (name : String) (obj : J) :
    encK m (fun _ => m.um) useNs f name obj = enc m useNs f name obj := by
  unfold encK enc
  split <;> try rfl
  split <;> try rfl
  simp only [encBodyK_eq]

/-- what `element_decode` may be given for a valid element (one level), namespaces processed: `WF1` without the
    clause about the children's names (they are not un-mapped with this element's mapper) -/
structure WF1K {α : Type} (m : Mapper) (f : Facts) (hd : Hd) (its : List (Item α)) : Prop where
  tag : m.um (m.mp hd.tag) = hd.tag
  attrsUm : ∀ kv ∈ hd.attrs, m.umA (m.mpA kv.1) = kv.1
  attrsNodup : ((attrPairs m hd).map (·.1)).Nodup
  attrsNodup' : (hd.attrs.map (·.1)).Nodup
  attrsNotXmlns : ∀ kv ∈ hd.attrs, isXmlnsKey (m.mpA kv.1) = false
  xmlnsNodup : ((xmlnsEntries "" hd.xmlns).map (·.1)).Nodup
  textOk : ∀ t, hd.text = some t → t.isMap = false ∧ t.isNull = false
  textStr : ∀ t, hd.text = some t → f.simple = false → t.isSeq = false
  textAlone : hd.text.isSome = true → its = []
  groupIff : f.hasGroup = !f.simple
  simpleNoItems : f.simple = true → its = []
  emptyNoItems : f.emptyContent = true → its = []
  cdataStr : ∀ i v, Item.cdata i v ∈ its → v.isSeq = false ∧ v.isMap = false

/-- the part of `WF1K` about the element's own data is a `WF1` (over an empty content) -/
theorem WF1K.own {α : Type} {m : Mapper} {f : Facts} {hd : Hd} {its : List (Item α)} (w : WF1K m f hd its) :
    WF1 m true f hd ([] : List (Item Unit)) :=
  { tag := w.tag, attrsUm := w.attrsUm, attrsNodup := w.attrsNodup, attrsNodup' := w.attrsNodup',
    attrsNotXmlns := w.attrsNotXmlns, xmlnsNodup := w.xmlnsNodup, textOk := w.textOk, textStr := w.textStr,
    textAlone := fun _ => rfl, groupIff := w.groupIff, simpleNoItems := fun _ => rfl, emptyNoItems := fun _ => rfl,
    cdataStr := by intro i v h; simp at h, kidsUm := by intro nm s v h; simp at h }

/-- every converted child is a JsonML list whose head un-maps to the child's name by `umK` -/
def KidsK (umK : J → String → String) (its : List (Item J)) : Prop :=
  ∀ nm s v, Item.child nm s v ∈ its → ∃ h rest, v = .list (.atom "s" h :: rest) ∧ umK v h = nm

theorem numberK_items {m : Mapper} {umK : J → String → String} (its : List (Item J)) (k : Nat)
    (hc : ∀ i v, Item.cdata i v ∈ its → v.isSeq = false ∧ v.isMap = false)
    (hk : KidsK umK its) :
    numberK umK true k (its.map (itemJ m)) = .ok (renum k its) := by
  induction its generalizing k with
  | nil => rfl
  | cons a its ih =>
    have ih' := fun k => ih k (fun i v h => hc i v (by simp [h])) (fun nm s v h => hk nm s v (by simp [h]))
    cases a with
    | cdata i v =>
      obtain ⟨h1, h2⟩ := hc i v (by simp)
      cases v <;> simp [J.isSeq] at h1 <;>
        simp [itemJ, numberK, ih', renum, bind, Except.bind, pure, Except.pure]
    | child nm s v =>
      obtain ⟨h, rest, hv, hum⟩ := hk nm s v (by simp)
      subst hv
      simp [itemJ, J.isNull, numberK, ih', renum, hum, bind, Except.bind, pure, Except.pure]

theorem itemJ_notMapK {m : Mapper} {umK f hd} {its : List (Item J)} (w : WF1K m f hd its) (hk : KidsK umK its) :
    ∀ it ∈ its, (itemJ m it).isMap = false := by
  intro it hit
  cases it with
  | cdata i v => exact (w.cdataStr i v hit).2
  | child nm s v =>
    obtain ⟨h, rest, hv, _⟩ := hk nm s v hit
    subst hv
    simp [itemJ, J.isNull, J.isMap]

theorem body_head_notMapK {m : Mapper} {umK f hd} {its : List (Item J)} (w : WF1K m f hd its) (hk : KidsK umK its) :
    ∀ x, (bodyOf m f hd its).head? = some x → x.isMap = false := by
  intro x hx
  unfold bodyOf textPart at hx
  cases ht : hd.text with
  | some t =>
    simp [ht] at hx
    subst hx
    exact (w.textOk t ht).1
  | none =>
    simp only [ht, List.nil_append] at hx
    split at hx
    · cases its with
      | nil => simp at hx
      | cons a its =>
        simp at hx
        subst hx
        exact itemJ_notMapK w hk a (by simp)
    · simp at hx

theorem split_restK {m : Mapper} {umK f hd} {its : List (Item J)} (w : WF1K m f hd its) (hk : KidsK umK its) :
    splitAttrs m (header m true hd ++ bodyOf m f hd its) = (hd.attrs, bodyOf m f hd its) ∧
    xmlnsOf true (header m true hd ++ bodyOf m f hd its) = hd.xmlns := by
  have w0 := w.own
  have hA := decAttrs_eq w0
  unfold header
  by_cases he : (decAttrs m true hd).isEmpty = true
  · simp only [he, if_true, List.nil_append]
    rw [hA] at he
    have h0 : attrPairs m hd = [] ∧ xpart true hd = [] := by
      simpa [List.isEmpty_iff] using he
    have hattrs : hd.attrs = [] := by
      have := h0.1; unfold attrPairs at this; simpa using this
    refine ⟨?_, ?_⟩
    · rw [splitAttrs_noDict m _ (body_head_notMapK w hk), hattrs]
    · rw [xmlnsOf_noDict true _ (body_head_notMapK w hk)]
      have := h0.2
      unfold xpart at this
      simp at this
      cases hx : hd.xmlns with
      | nil => rfl
      | cons a l => simp [hx, xmlnsEntries] at this
  · rw [if_neg he]
    simp only [List.cons_append, List.nil_append]
    refine ⟨?_, ?_⟩
    · simp only [splitAttrs]
      rw [hA, filter_attrs w0, unmap_attrs w0]
    · simp only [xmlnsOf]
      rw [hA, List.filterMap_append, xmlnsOf_attrs w0]
      unfold xpart
      cases hx : hd.xmlns with
      | nil => simp
      | cons a l =>
        simp only [List.isEmpty_cons, Bool.not_false, Bool.and_self, if_true, List.nil_append]
        rw [xmlnsOf_entries]

theorem numberK_single {umK : J → String → String} (t : J) (h : t.isSeq = false) :
    numberK umK true 1 [t] = .ok [.cdata 1 t] := by
  cases t <;> simp [J.isSeq] at h <;> simp [numberK, bind, Except.bind, pure, Except.pure]

/-- encBodyK on the decoded body -/
theorem encBodyK_body {m : Mapper} {umK f hd} {its : List (Item J)} (w : WF1K m f hd its) (hk : KidsK umK its)
    (x : List (String × String)) :
    encBodyK umK true f hd.tag hd.attrs x (bodyOf m f hd its) =
      .ok (if shift f hd then
             ({ hd with text := none, xmlns := x }, match hd.text with | some t => [.cdata 1 t] | none => [])
           else ({ hd with xmlns := x }, renum 1 its)) := by
  obtain ⟨tag, text, attrs, xmlns⟩ := hd
  cases text with
  | some t =>
    have hits : its = [] := w.textAlone (by simp)
    subst hits
    have ht := w.textOk t rfl
    simp only [bodyOf, textPart, List.map_nil, ite_self, List.append_nil, encBodyK, shift, Option.isSome_some,
      Bool.true_and]
    by_cases hc : (f.simple || (f.emptyContent && f.mixed)) = true
    · simp [hc, ht.2, renum]
    · have hs : f.simple = false := by
        cases h : f.simple <;> simp [h] at hc ⊢
      have hseq := w.textStr t rfl hs
      simp only [hc, Bool.false_eq_true, if_false, Bool.not_false, if_true]
      rw [numberK_single t hseq]
      rfl
  | none =>
    simp only [bodyOf, textPart, List.nil_append, shift, Option.isSome_none, Bool.false_and, Bool.false_eq_true,
      if_false]
    by_cases hg : f.hasGroup = true
    · simp only [hg, if_true]
      have hsimple : f.simple = false := by
        have := w.groupIff; rw [hg] at this; cases h : f.simple <;> simp [h] at this ⊢
      have hnum := @numberK_items m umK its 1 w.cdataStr hk
      cases its with
      | nil => simp [encBodyK, renum]
      | cons a its =>
        have hne : f.emptyContent = false := by
          cases h : f.emptyContent
          · rfl
          · have := w.emptyNoItems h; simp at this
        cases its with
        | nil =>
          simp only [List.map_cons, List.map_nil, encBodyK, hsimple, hne, Bool.false_and, Bool.or_self,
            Bool.false_eq_true, if_false]
          simp only [List.map_cons, List.map_nil] at hnum
          rw [hnum]; rfl
        | cons b its =>
          simp only [List.map_cons, encBodyK]
          simp only [List.map_cons] at hnum
          rw [hnum]; rfl
    · have hg' : f.hasGroup = false := by cases h : f.hasGroup <;> simp [h] at hg ⊢
      have hsimple : f.simple = true := by
        have := w.groupIff; rw [hg'] at this; cases h : f.simple <;> simp [h] at this ⊢
      have hits := w.simpleNoItems hsimple
      subst hits
      simp [hg', encBodyK, renum]

/-- **one level, children un-mapped in their own context**: `element_encode (element_decode data) = norm1 data` -/
theorem level_roundtripK {m : Mapper} {umK f hd} {its : List (Item J)} (w : WF1K m f hd its) (hk : KidsK umK its) :
    encK m umK true f hd.tag (dec m true f hd its) = .ok (norm1 true f hd its) := by
  rw [dec_eq]
  obtain ⟨hsplit, hx⟩ := split_restK (f := f) w hk
  simp only [encK, beq_self_eq_true, if_true, w.tag, bne_self_eq_false, Bool.false_eq_true, if_false]
  cases hr : header m true hd ++ bodyOf m f hd its with
  | nil =>
    rw [hr] at hsplit hx
    have h1 : hd.attrs = [] := by
      have := congrArg Prod.fst hsplit; simpa [splitAttrs] using this.symm
    have hb : bodyOf m f hd its = [] := by
      have := congrArg Prod.snd hsplit; simpa [splitAttrs] using this.symm
    have h2 : hd.xmlns = [] := by
      rw [← hx]; rfl
    have h3 := encBodyK_body w hk hd.xmlns
    rw [hb, h1, h2] at h3
    simp only [encBodyK] at h3
    injection h3 with h3
    simp only [norm1, h1, h2, if_true]
    exact congrArg Except.ok h3
  | cons a l =>
    simp only
    rw [← hr, hsplit, hx]
    simp only
    rw [encBodyK_body w hk]
    rfl

/-- `element_encode` reports the declarations that `get_xmlns_from_data` reads from the object -/
theorem encBodyK_xmlns {umK : J → String → String} {f tag a x body hd its}
    (h : encBodyK umK true f tag a x body = .ok (hd, its)) : hd.xmlns = x := by
  unfold encBodyK at h
  split at h
  · cases h; rfl
  · split at h
    · cases h; rfl
    · simp only [bind, Except.bind] at h
      split at h
      · cases h
      · cases h; rfl
  · simp only [bind, Except.bind] at h
    split at h
    · cases h
    · cases h; rfl

theorem encK_xmlns {m : Mapper} {umK : J → String → String} {f nm v hd its}
    (h : encK m umK true f nm v = .ok (hd, its)) : hd.xmlns = xmlnsOfObj true v := by
  unfold encK at h
  split at h
  · cases h
  · split at h
    · split at h
      · simp only at h
        split at h
        · cases h
        · split at h
          · cases h; rfl
          · rw [encBodyK_xmlns h]; rfl
      · cases h
    · split at h <;> cases h
    · cases h
  · cases h
  · cases h

/-! ### the contract of the scoped recursion -/

/-- what a converted child named `nm` looks like to an element whose scope is `sc`: a JsonML list whose head
    string denotes `nm` under the declarations in `sc` extended with the ones the child carries -/
def InvS (m : NsScope → Mapper) (sc : NsScope) (nm : String) (v : J) : Prop :=
  ∃ h rest, v = .list (.atom "s" h :: rest) ∧ (m (sc.push (xmlnsOf true rest))).um h = nm

theorem renum_naturalS {α β} (g : α → β) (k : Nat) (l : List (Item α)) :
    renum k (mapIt g l) = mapIt g (renum k l) := by
  induction l generalizing k with
  | nil => rfl
  | cons a l ih => cases a <;> simp_all [renum, mapIt, Item.map]

theorem renum_childrenS {α} (k : Nat) (l : List (Item α)) (nm : String) (s : Bool) (v : α)
    (h : Item.child nm s v ∈ renum k l) : ∃ s', Item.child nm s' v ∈ l := by
  induction l generalizing k with
  | nil => simp [renum] at h
  | cons a l ih =>
    cases a with
    | cdata i w =>
      simp only [renum, List.mem_cons] at h
      rcases h with h | h
      · cases h
      · obtain ⟨s', hs⟩ := ih _ h; exact ⟨s', by simp [hs]⟩
    | child nm' s'' w =>
      simp only [renum, List.mem_cons, Item.child.injEq] at h
      rcases h with ⟨rfl, _, rfl⟩ | h
      · exact ⟨s'', by simp⟩
      · obtain ⟨s', hs⟩ := ih _ h; exact ⟨s', by simp [hs]⟩

theorem shapeS_nil {α} {l : List (Item α)} (h : shape l = []) : l = [] := by
  cases l with
  | nil => rfl
  | cons a l => simp [shape, mapIt] at h

theorem wf1K_of_shape {m : Mapper} {f hd} {its : List (Item J)} (hc : ∀ i v, Item.cdata i v ∈ its → v.isSeq = false ∧ v.isMap = false)
    (w : WF1K m f hd (shape its)) : WF1K m f hd its :=
  { tag := w.tag, attrsUm := w.attrsUm, attrsNodup := w.attrsNodup, attrsNodup' := w.attrsNodup',
    attrsNotXmlns := w.attrsNotXmlns, xmlnsNodup := w.xmlnsNodup, textOk := w.textOk, textStr := w.textStr,
    textAlone := fun h => shapeS_nil (w.textAlone h), groupIff := w.groupIff,
    simpleNoItems := fun h => shapeS_nil (w.simpleNoItems h),
    emptyNoItems := fun h => shapeS_nil (w.emptyNoItems h),
    cdataStr := hc }

theorem mem_shape_cdataS {α} {l : List (Item α)} {i v} (h : Item.cdata i v ∈ l) :
    Item.cdata i v ∈ shape l := by
  simp only [shape, mapIt, List.mem_map]
  exact ⟨_, h, rfl⟩

theorem jsonml_scopedOK (m : NsScope → Mapper) :
    ScopedOK (sconv m) (InvS m) (fun sc f hd sh => WF1K (m sc) f hd sh)
      (fun {_} f hd its => norm1 true f hd its) Eq where
  rt := by
    intro sc f hd its w hk
    have w' : WF1K (m sc) f hd its :=
      wf1K_of_shape (fun i v h => w.cdataStr i v (mem_shape_cdataS h)) w
    refine ⟨_, ?_, ItemsRel.refl_eq _⟩
    have hk' : KidsK (fun e s => (m (sc.push (xmlnsOfObj true e))).um s) its := by
      intro nm s v hm
      obtain ⟨h, rest, hv, hum⟩ := hk nm s v hm
      subst hv
      exact ⟨h, rest, rfl, hum⟩
    exact level_roundtripK w' hk'
  encR := by intro sc f nm v v' h; rw [h]
  inv := by
    intro sc f hd its w hk
    have w' : WF1K (m (sc.push hd.xmlns)) f hd its :=
      wf1K_of_shape (fun i v h => w.cdataStr i v (mem_shape_cdataS h)) w
    have hk' : KidsK (fun e s => (m ((sc.push hd.xmlns).push (xmlnsOfObj true e))).um s) its := by
      intro nm s v hm
      obtain ⟨h, rest, hv, hum⟩ := hk nm s v hm
      subst hv
      exact ⟨h, rest, rfl, hum⟩
    refine ⟨(m (sc.push hd.xmlns)).mp hd.tag, header (m (sc.push hd.xmlns)) true hd ++ bodyOf (m (sc.push hd.xmlns)) f hd its, ?_, ?_⟩
    · exact dec_eq _ true f hd its
    · rw [(split_restK (f := f) w' hk').2]
      exact w'.tag
  natural := by
    intro α β g f hd its
    unfold norm1
    by_cases hs : shift f hd = true
    · cases hd.text <;> simp [hs, mapIt, Item.map]
    · have := renum_naturalS g 1 its
      simp only [mapIt] at this
      simp [hs, mapIt, this]
  children := by
    intro α f hd its nm s v h
    unfold norm1 at h
    by_cases hs : shift f hd = true
    · cases ht : hd.text <;> simp [hs, ht] at h
    · simp only [hs, Bool.false_eq_true, if_false] at h
      exact renum_childrenS _ _ _ _ _ h
  encXmlns := by
    intro sc f nm v hd its h
    exact encK_xmlns h
  normXmlns := by
    intro f hd its
    by_cases hs : shift f hd = true <;> simp [norm1, hs]
  xmlnsR := by intro v v' h; rw [h]

end XsVerif.Conv.JsonML
