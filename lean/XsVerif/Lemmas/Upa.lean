/-
  Correctness of the UPA oracle of Model/Upa.lean (generic in leaf type, symbol type, matcher).
-/
import XsVerif.Lemmas.Rx
import XsVerif.Model.Upa

set_option linter.unusedSectionVars false

namespace XsVerif.Rx
variable {L σ : Type} (m : L → σ → Bool)

/-! ### interleaving helpers -/

theorem interleave_nil_left : ∀ v : List σ, Interleave [] v v
  | [] => .nil
  | c :: v => .right c (interleave_nil_left v)

theorem interleave_append : ∀ u v : List σ, Interleave u v (u ++ v)
  | [], v => interleave_nil_left v
  | c :: u, v => .left c (interleave_append u v)

theorem interleave_mem {u v w : List σ} (h : Interleave u v w) (c : σ) : c ∈ w ↔ c ∈ u ∨ c ∈ v := by
  induction h with
  | nil => simp
  | left d _ ih => simp [ih, or_assoc]
  | right d _ ih =>
    simp only [List.mem_cons, ih]
    constructor
    · rintro (h | h | h)
      · exact .inr (.inl h)
      · exact .inl h
      · exact .inr (.inr h)
    · rintro (h | h | h)
      · exact .inr (.inl h)
      · exact .inl h
      · exact .inr (.inr h)

theorem over_nil (syms : List σ) : Over syms [] := by intro c h; cases h

theorem over_append {syms u v : List σ} : Over syms (u ++ v) ↔ Over syms u ∧ Over syms v := by
  unfold Over
  constructor
  · intro h
    exact ⟨fun c hc => h c (List.mem_append.mpr (.inl hc)), fun c hc => h c (List.mem_append.mpr (.inr hc))⟩
  · rintro ⟨h1, h2⟩ c hc
    rcases List.mem_append.mp hc with h | h
    · exact h1 c h
    · exact h2 c h

theorem over_cons {syms : List σ} {c : σ} {v : List σ} : Over syms (c :: v) ↔ c ∈ syms ∧ Over syms v := by
  unfold Over
  constructor
  · intro h
    exact ⟨h c (by simp), fun d hd => h d (by simp [hd])⟩
  · rintro ⟨h1, h2⟩ d hd
    rcases List.mem_cons.mp hd with rfl | hd
    · exact h1
    · exact h2 d hd

theorem over_flatten {syms : List σ} {ws : List (List σ)} :
    Over syms ws.flatten ↔ ∀ x ∈ ws, Over syms x := by
  induction ws with
  | nil => simp [over_nil]
  | cons a t ih => simp [over_append, ih]

theorem over_replicate_flatten {syms : List σ} {w : List σ} (n : Nat) (h : Over syms w) :
    Over syms (List.replicate n w).flatten := by
  rw [over_flatten]
  intro x hx
  rw [(List.mem_replicate.mp hx).2]
  exact h

/-! ### `inhabited` -/

/-- `inhabited` decides whether the language contains a word over `syms`. -/
theorem inhabited_iff (syms : List σ) (r : Rx L) :
    inhabited m syms r = true ↔ ∃ w, Over syms w ∧ Lang m r w := by
  induction r with
  | empty => simp [inhabited, Lang]
  | eps =>
    simp only [inhabited, Lang, true_iff]
    exact ⟨[], over_nil syms, rfl⟩
  | sym a =>
    simp only [inhabited, Lang, List.any_eq_true]
    constructor
    · rintro ⟨c, hc, hm⟩
      exact ⟨[c], over_cons.mpr ⟨hc, over_nil syms⟩, c, rfl, hm⟩
    · rintro ⟨w, ho, c, rfl, hm⟩
      exact ⟨c, (over_cons.mp ho).1, hm⟩
  | cat r s ihr ihs =>
    simp only [inhabited, Lang, Bool.and_eq_true, ihr, ihs]
    constructor
    · rintro ⟨⟨u, hu, h1⟩, ⟨v, hv, h2⟩⟩
      exact ⟨u ++ v, over_append.mpr ⟨hu, hv⟩, u, v, rfl, h1, h2⟩
    · rintro ⟨w, ho, u, v, rfl, h1, h2⟩
      obtain ⟨hu, hv⟩ := over_append.mp ho
      exact ⟨⟨u, hu, h1⟩, ⟨v, hv, h2⟩⟩
  | alt r s ihr ihs =>
    simp only [inhabited, Lang, Bool.or_eq_true, ihr, ihs]
    constructor
    · rintro (⟨w, ho, h⟩ | ⟨w, ho, h⟩)
      · exact ⟨w, ho, .inl h⟩
      · exact ⟨w, ho, .inr h⟩
    · rintro ⟨w, ho, h | h⟩
      · exact .inl ⟨w, ho, h⟩
      · exact .inr ⟨w, ho, h⟩
  | shuffle r s ihr ihs =>
    simp only [inhabited, Lang, Bool.and_eq_true, ihr, ihs]
    constructor
    · rintro ⟨⟨u, hu, h1⟩, ⟨v, hv, h2⟩⟩
      exact ⟨u ++ v, over_append.mpr ⟨hu, hv⟩, u, v, interleave_append u v, h1, h2⟩
    · rintro ⟨w, ho, u, v, hi, h1, h2⟩
      refine ⟨⟨u, ?_, h1⟩, ⟨v, ?_, h2⟩⟩
      · intro c hc; exact ho c ((interleave_mem hi c).mpr (.inl hc))
      · intro c hc; exact ho c ((interleave_mem hi c).mpr (.inr hc))
  | rep r lo hi ih =>
    simp only [inhabited, Lang, Bool.and_eq_true, Bool.or_eq_true, beq_iff_eq, ih]
    constructor
    · rintro ⟨hle, h0 | ⟨w, ho, hw⟩⟩
      · subst h0
        exact ⟨[], over_nil syms, [], rfl, Nat.le_refl _, by cases hi <;> simp [leHi], by simp⟩
      · refine ⟨(List.replicate lo w).flatten, over_replicate_flatten lo ho, List.replicate lo w, rfl,
          by simp, ?_, ?_⟩
        · cases hi <;> simp_all [leHi, loLeHi]
        · intro x hx; rw [(List.mem_replicate.mp hx).2]; exact hw
    · rintro ⟨w, ho, ws, rfl, hlo, hhi, hall⟩
      refine ⟨?_, ?_⟩
      · cases hi <;> simp_all [leHi, loLeHi]; omega
      · cases ws with
        | nil => left; simpa using hlo
        | cons x t =>
          right
          exact ⟨x, (over_flatten.mp ho) x (by simp), hall x (by simp)⟩

/-! ### `norm` -/

section norm
variable [DecidableEq L]

theorem altList_iff (r : Rx L) (w : List σ) : (∃ x ∈ altList r, Lang m x w) ↔ Lang m r w := by
  induction r with
  | alt r s ihr ihs =>
    simp only [altList, List.mem_append, Lang, ← ihr, ← ihs]
    constructor
    · rintro ⟨x, hx | hx, h⟩
      · exact .inl ⟨x, hx, h⟩
      · exact .inr ⟨x, hx, h⟩
    · rintro (⟨x, hx, h⟩ | ⟨x, hx, h⟩)
      · exact ⟨x, .inl hx, h⟩
      · exact ⟨x, .inr hx, h⟩
  | empty => simp [altList, Lang]
  | eps => simp [altList]
  | sym a => simp [altList]
  | cat r s _ _ => simp [altList]
  | rep r lo hi _ => simp [altList]
  | shuffle r s _ _ => simp [altList]

theorem mkAlt_iff (l : List (Rx L)) (w : List σ) : Lang m (mkAlt l) w ↔ ∃ x ∈ l, Lang m x w := by
  induction l with
  | nil => simp [mkAlt, Lang]
  | cons x t ih =>
    cases t with
    | nil => simp [mkAlt]
    | cons y t =>
      simp only [mkAlt, Lang, ih]
      constructor
      · rintro (h | ⟨z, hz, h⟩)
        · exact ⟨x, by simp, h⟩
        · exact ⟨z, List.mem_cons_of_mem _ hz, h⟩
      · rintro ⟨z, hz, h⟩
        rcases List.mem_cons.mp hz with rfl | hz
        · exact .inl h
        · exact .inr ⟨z, hz, h⟩

theorem mem_dedup (l : List (Rx L)) (x : Rx L) : x ∈ dedup l ↔ x ∈ l := by
  induction l with
  | nil => simp [dedup]
  | cons a t ih =>
    simp only [dedup, List.mem_cons, List.mem_filter, ih, decide_eq_true_eq]
    constructor
    · rintro (h | ⟨h, _⟩)
      · exact .inl h
      · exact .inr h
    · intro h
      by_cases hx : x = a
      · exact .inl hx
      · rcases h with h | h
        · exact .inl h
        · exact .inr ⟨h, hx⟩

theorem lang_eps_cat (s : Rx L) (w : List σ) : Lang m (.cat .eps s) w ↔ Lang m s w := by
  simp only [Lang]
  constructor
  · rintro ⟨u, v, rfl, rfl, h⟩; simpa using h
  · intro h; exact ⟨[], w, rfl, rfl, h⟩

theorem interleave_nil_left_iff {v w : List σ} : Interleave [] v w ↔ v = w := by
  constructor
  · intro h
    generalize hu : ([] : List σ) = u at h
    induction h with
    | nil => rfl
    | left c _ _ => cases hu
    | right c _ ih => rw [ih hu]
  · rintro rfl; exact interleave_nil_left v

theorem interleave_nil_right : ∀ u : List σ, Interleave u [] u
  | [] => .nil
  | c :: u => .left c (interleave_nil_right u)

theorem interleave_nil_right_iff {u w : List σ} : Interleave u [] w ↔ u = w := by
  constructor
  · intro h
    generalize hv : ([] : List σ) = v at h
    induction h with
    | nil => rfl
    | left c _ ih => rw [ih hv]
    | right c _ _ => cases hv
  · rintro rfl; exact interleave_nil_right u

theorem lang_eps_shuffle (s : Rx L) (w : List σ) : Lang m (.shuffle .eps s) w ↔ Lang m s w := by
  simp only [Lang]
  constructor
  · rintro ⟨u, v, hi, rfl, h⟩
    rw [interleave_nil_left_iff] at hi
    subst hi; exact h
  · intro h; exact ⟨[], w, interleave_nil_left w, rfl, h⟩

theorem lang_shuffle_eps (r : Rx L) (w : List σ) : Lang m (.shuffle r .eps) w ↔ Lang m r w := by
  simp only [Lang]
  constructor
  · rintro ⟨u, v, hi, h, rfl⟩
    rw [interleave_nil_right_iff] at hi
    subst hi; exact h
  · intro h; exact ⟨w, [], interleave_nil_right w, h, rfl⟩

/-- `norm` preserves the language. -/
theorem norm_iff (r : Rx L) : ∀ w, Lang m (norm r) w ↔ Lang m r w := by
  induction r with
  | empty => intro w; simp [norm]
  | eps => intro w; simp [norm]
  | sym a => intro w; simp [norm]
  | rep r lo hi _ => intro w; simp [norm]
  | alt r s ihr ihs =>
    intro w
    simp only [norm, mkAlt_iff, mem_dedup, List.mem_append]
    rw [show Lang m (.alt r s) w ↔ Lang m r w ∨ Lang m s w from Iff.rfl, ← ihr, ← ihs,
      ← altList_iff m (norm r), ← altList_iff m (norm s)]
    constructor
    · rintro ⟨x, hx | hx, h⟩
      · exact .inl ⟨x, hx, h⟩
      · exact .inr ⟨x, hx, h⟩
    · rintro (⟨x, hx, h⟩ | ⟨x, hx, h⟩)
      · exact ⟨x, .inl hx, h⟩
      · exact ⟨x, .inr hx, h⟩
  | cat r s ihr _ =>
    intro w
    simp only [norm]
    split
    · rename_i h
      simp only [Bool.or_eq_true] at h
      simp only [Lang, false_iff]
      rintro ⟨u, v, _, h1, h2⟩
      rcases h with h | h
      · exact isEmpty_sound m _ h u ((ihr u).mpr h1)
      · exact isEmpty_sound m s h v h2
    · split
      · rename_i he
        rw [← lang_eps_cat m s w]
        simp only [Lang, ← ihr, he]
      · simp only [Lang, ihr]
  | shuffle r s ihr ihs =>
    intro w
    simp only [norm]
    split
    · rename_i h
      simp only [Bool.or_eq_true] at h
      simp only [Lang, false_iff]
      rintro ⟨u, v, _, h1, h2⟩
      rcases h with h | h
      · exact isEmpty_sound m _ h u ((ihr u).mpr h1)
      · exact isEmpty_sound m _ h v ((ihs v).mpr h2)
    · split
      · rename_i he
        rw [ihs, ← lang_eps_shuffle m s w]
        simp only [Lang, ← ihr, he]
      · split
        · rename_i he
          rw [ihr, ← lang_shuffle_eps m r w]
          simp only [Lang, ← ihs, he]
        · simp only [Lang, ihr, ihs]

theorem step_iff (c : σ) (r : Rx L) (w : List σ) : Lang m (step m c r) w ↔ Lang m r (c :: w) := by
  unfold step
  rw [norm_iff, deriv_iff]

theorem steps_iff (u : List σ) : ∀ (r : Rx L) (v : List σ), Lang m (steps m r u) v ↔ Lang m r (u ++ v) := by
  induction u with
  | nil => intro r v; simp [steps]
  | cons c u ih =>
    intro r v
    simp only [steps, List.cons_append]
    rw [ih, step_iff]

/-! ### certificates and witnesses -/

variable [DecidableEq σ]

/-- live states stay in a closed set -/
theorem closed_reach (syms : List σ) (S : List (Rx L))
    (hcl : ∀ r ∈ S, closedAt m syms S r = true) :
    ∀ (u : List σ), Over syms u → ∀ r ∈ S, inhabited m syms (steps m r u) = true → steps m r u ∈ S := by
  intro u
  induction u with
  | nil => intro _ r hr _; simpa [steps] using hr
  | cons c u ih =>
    intro ho r hr hin
    obtain ⟨hc, hu⟩ := over_cons.mp ho
    simp only [steps] at hin ⊢
    have hlive : inhabited m syms (step m c r) = true := by
      obtain ⟨w, hw, hl⟩ := (inhabited_iff m syms _).mp hin
      rw [steps_iff] at hl
      exact (inhabited_iff m syms _).mpr ⟨u ++ w, over_append.mpr ⟨hu, hw⟩, hl⟩
    have hmem : step m c r ∈ S := by
      have h := hcl r hr
      simp only [closedAt, List.all_eq_true] at h
      have h' := h c hc
      rw [hlive] at h'
      simpa using h'
    exact ih hu _ hmem hin

/-- **Soundness of certificates**: a finite set of states that contains the start state, is closed
    under live normalised derivatives and has no conflicting state proves `Upa`. -/
theorem certOk_sound (syms : List σ) (cmp : σ → σ → Bool) (r0 : Rx L) (S : List (Rx L))
    (h : certOk m syms cmp r0 S = true) : Upa m syms cmp r0 := by
  simp only [certOk, Bool.and_eq_true, List.all_eq_true, List.contains_iff_mem] at h
  obtain ⟨h0, hS⟩ := h
  intro u hu ⟨c1, hc1, c2, hc2, hcmp, v1, v2, hv1, hv2, hl1, hl2⟩
  have hr1 : Lang m (step m c1 (steps m r0 u)) v1 := by rw [step_iff, steps_iff]; exact hl1
  have hr2 : Lang m (step m c2 (steps m r0 u)) v2 := by rw [step_iff, steps_iff]; exact hl2
  have hin : inhabited m syms (steps m r0 u) = true := by
    refine (inhabited_iff m syms _).mpr ⟨c1 :: v1, over_cons.mpr ⟨hc1, hv1⟩, ?_⟩
    rw [steps_iff]; exact hl1
  have hmem := closed_reach m syms S (fun r hr => (hS r hr).2) u hu r0 h0 hin
  have hnc := (hS _ hmem).1
  simp only [noConflict, List.all_eq_true] at hnc
  have := hnc c1 hc1 c2 hc2
  rw [hcmp, (inhabited_iff m syms _).mpr ⟨v1, hv1, hr1⟩, (inhabited_iff m syms _).mpr ⟨v2, hv2, hr2⟩] at this
  simp at this

/-- **Soundness of witnesses**: a validated witness is a real conflict. -/
theorem witnessOk_sound (syms : List σ) (cmp : σ → σ → Bool) (r0 : Rx L) (u : List σ) (c1 c2 : σ)
    (h : witnessOk m syms cmp r0 u c1 c2 = true) : ¬ Upa m syms cmp r0 := by
  simp only [witnessOk, Bool.and_eq_true, List.all_eq_true, List.contains_iff_mem] at h
  obtain ⟨⟨⟨⟨⟨hu, hc1⟩, hc2⟩, hcmp⟩, hi1⟩, hi2⟩ := h
  obtain ⟨v1, hv1, hl1⟩ := (inhabited_iff m syms _).mp hi1
  obtain ⟨v2, hv2, hl2⟩ := (inhabited_iff m syms _).mp hi2
  rw [step_iff, steps_iff] at hl1 hl2
  intro hupa
  exact hupa u hu ⟨c1, hc1, c2, hc2, hcmp, v1, v2, hv1, hv2, hl1, hl2⟩

theorem upaCheck_cert (syms : List σ) (cmp : σ → σ → Bool) (r0 : Rx L) (fuel : Nat) (S : List (Rx L))
    (h : upaCheck m syms cmp r0 fuel = .cert S) : Upa m syms cmp r0 := by
  unfold upaCheck at h
  split at h
  · split at h
    · rename_i hc
      cases h
      exact certOk_sound m syms cmp r0 _ hc
    · cases h
  · split at h <;> cases h
  · cases h

theorem upaCheck_witness (syms : List σ) (cmp : σ → σ → Bool) (r0 : Rx L) (fuel : Nat)
    (u : List σ) (c1 c2 : σ)
    (h : upaCheck m syms cmp r0 fuel = .witness u c1 c2) : ¬ Upa m syms cmp r0 := by
  unfold upaCheck at h
  split at h
  · split at h <;> cases h
  · split at h
    · rename_i hc
      cases h
      exact witnessOk_sound m syms cmp r0 _ _ _ hc
    · cases h
  · cases h

end norm

/-! ### symbols of words come from leaves -/

theorem lang_syms (r : Rx L) : ∀ w, Lang m r w → ∀ c ∈ w, ∃ l ∈ leaves r, m l c = true := by
  induction r with
  | empty => intro w h; exact absurd h (by simp [Lang])
  | eps => intro w h c hc; simp only [Lang] at h; subst h; cases hc
  | sym a =>
    rintro w ⟨d, rfl, hm⟩ c hc
    simp only [List.mem_cons, List.not_mem_nil, or_false] at hc
    subst hc
    exact ⟨a, by simp [leaves], hm⟩
  | cat r s ihr ihs =>
    rintro w ⟨u, v, rfl, h1, h2⟩ c hc
    rcases List.mem_append.mp hc with hc | hc
    · obtain ⟨l, hl, hm⟩ := ihr u h1 c hc
      exact ⟨l, by simp [leaves, hl], hm⟩
    · obtain ⟨l, hl, hm⟩ := ihs v h2 c hc
      exact ⟨l, by simp [leaves, hl], hm⟩
  | alt r s ihr ihs =>
    rintro w (h | h) c hc
    · obtain ⟨l, hl, hm⟩ := ihr w h c hc
      exact ⟨l, by simp [leaves, hl], hm⟩
    · obtain ⟨l, hl, hm⟩ := ihs w h c hc
      exact ⟨l, by simp [leaves, hl], hm⟩
  | shuffle r s ihr ihs =>
    rintro w ⟨u, v, hi, h1, h2⟩ c hc
    rcases (interleave_mem hi c).mp hc with hc | hc
    · obtain ⟨l, hl, hm⟩ := ihr u h1 c hc
      exact ⟨l, by simp [leaves, hl], hm⟩
    · obtain ⟨l, hl, hm⟩ := ihs v h2 c hc
      exact ⟨l, by simp [leaves, hl], hm⟩
  | rep r lo hi ih =>
    rintro w ⟨ws, rfl, _, _, hall⟩ c hc
    obtain ⟨x, hx, hcx⟩ := List.mem_flatten.mp hc
    obtain ⟨l, hl, hm⟩ := ih x (hall x hx) c hcx
    exact ⟨l, by simpa [leaves] using hl, hm⟩

end XsVerif.Rx

/-! ### content-model instance -/

namespace XsVerif.CM
open XsVerif.Wildcard XsVerif.Rx

mutual
theorem Particle.leaves_toRx : (p : Particle) → Rx.leaves p.toRx = p.leaves
  | .leaf l lo hi => by simp [Particle.toRx, Rx.leaves, Particle.leaves]
  | .group _ .seq lo hi ps => by simp [Particle.toRx, Rx.leaves, Particle.leaves, Particles.leaves_toSeq ps]
  | .group _ .choice lo hi ps => by simp [Particle.toRx, Rx.leaves, Particle.leaves, Particles.leaves_toChoice ps]
  | .group _ .all lo hi ps => by simp [Particle.toRx, Rx.leaves, Particle.leaves, Particles.leaves_toAll ps]
theorem Particles.leaves_toSeq : (ps : Particles) → Rx.leaves ps.toSeq = ps.leaves
  | .nil => by simp [Particles.toSeq, Rx.leaves, Particles.leaves]
  | .cons p ps => by
    simp [Particles.toSeq, Rx.leaves, Particles.leaves, Particle.leaves_toRx p, Particles.leaves_toSeq ps]
theorem Particles.leaves_toChoice : (ps : Particles) → Rx.leaves ps.toChoice = ps.leaves
  | .nil => by simp [Particles.toChoice, Rx.leaves, Particles.leaves]
  | .cons p ps => by
    simp [Particles.toChoice, Rx.leaves, Particles.leaves, Particle.leaves_toRx p, Particles.leaves_toChoice ps]
theorem Particles.leaves_toAll : (ps : Particles) → Rx.leaves ps.toAll = ps.leaves
  | .nil => by simp [Particles.toAll, Rx.leaves, Particles.leaves]
  | .cons p ps => by
    simp [Particles.toAll, Rx.leaves, Particles.leaves, Particle.leaves_toRx p, Particles.leaves_toAll ps]
end

theorem mem_symsOf {sigma : List QN} {p : Particle} {c : ASym} :
    c ∈ symsOf sigma p ↔ c.1 ∈ sigma ∧ ∃ l ∈ p.leaves, l.matches c.1 = true ∧ l.id = c.2 := by
  obtain ⟨a, x⟩ := c
  simp only [symsOf, List.mem_flatMap, List.mem_map, List.mem_filter, Prod.mk.injEq]
  constructor
  · rintro ⟨b, hb, l, ⟨hl, hm⟩, rfl, rfl⟩
    exact ⟨hb, l, hl, hm, rfl⟩
  · rintro ⟨ha, l, hl, hm, rfl⟩
    exact ⟨a, ha, l, ⟨hl, hm⟩, rfl, rfl⟩

/-- every word of the attributed language whose names are in Σ is a word over `symsOf Σ p` -/
theorem lang_over_syms {sigma : List QN} {p : Particle} {w : List ASym}
    (hl : Lang mm p.toRx w) (hn : ∀ c ∈ w, c.1 ∈ sigma) : Over (symsOf sigma p) w := by
  intro c hc
  obtain ⟨l, hlm, hm⟩ := lang_syms mm p.toRx w hl c hc
  rw [Particle.leaves_toRx] at hlm
  simp only [mm, Bool.and_eq_true, beq_iff_eq] at hm
  exact mem_symsOf.mpr ⟨hn c hc, l, hlm, hm.2, hm.1⟩

end XsVerif.CM

/-! ### live leaves (not below a repetition with upper bound 0) -/

namespace XsVerif.Rx
variable {L σ : Type} (m : L → σ → Bool)

/-- leaves not below a repetition with upper bound 0 -/
def liveLeaves : Rx L → List L
  | .empty => []
  | .eps => []
  | .sym a => [a]
  | .cat r s => liveLeaves r ++ liveLeaves s
  | .alt r s => liveLeaves r ++ liveLeaves s
  | .rep r _ hi => if hi == some 0 then [] else liveLeaves r
  | .shuffle r s => liveLeaves r ++ liveLeaves s

theorem lang_syms_live (r : Rx L) : ∀ w, Lang m r w → ∀ c ∈ w, ∃ l ∈ liveLeaves r, m l c = true := by
  induction r with
  | empty => intro w h; exact absurd h (by simp [Lang])
  | eps => intro w h c hc; simp only [Lang] at h; subst h; cases hc
  | sym a =>
    rintro w ⟨d, rfl, hm⟩ c hc
    simp only [List.mem_cons, List.not_mem_nil, or_false] at hc
    subst hc
    exact ⟨a, by simp [liveLeaves], hm⟩
  | cat r s ihr ihs =>
    rintro w ⟨u, v, rfl, h1, h2⟩ c hc
    rcases List.mem_append.mp hc with hc | hc
    · obtain ⟨l, hl, hm⟩ := ihr u h1 c hc
      exact ⟨l, by simp [liveLeaves, hl], hm⟩
    · obtain ⟨l, hl, hm⟩ := ihs v h2 c hc
      exact ⟨l, by simp [liveLeaves, hl], hm⟩
  | alt r s ihr ihs =>
    rintro w (h | h) c hc
    · obtain ⟨l, hl, hm⟩ := ihr w h c hc
      exact ⟨l, by simp [liveLeaves, hl], hm⟩
    · obtain ⟨l, hl, hm⟩ := ihs w h c hc
      exact ⟨l, by simp [liveLeaves, hl], hm⟩
  | shuffle r s ihr ihs =>
    rintro w ⟨u, v, hi, h1, h2⟩ c hc
    rcases (interleave_mem hi c).mp hc with hc | hc
    · obtain ⟨l, hl, hm⟩ := ihr u h1 c hc
      exact ⟨l, by simp [liveLeaves, hl], hm⟩
    · obtain ⟨l, hl, hm⟩ := ihs v h2 c hc
      exact ⟨l, by simp [liveLeaves, hl], hm⟩
  | rep r lo hi ih =>
    rintro w ⟨ws, rfl, _, hhi, hall⟩ c hc
    obtain ⟨x, hx, hcx⟩ := List.mem_flatten.mp hc
    by_cases h0 : hi = some 0
    · subst h0
      simp only [leHi, Nat.le_zero, List.length_eq_zero_iff] at hhi
      subst hhi
      cases hx
    · obtain ⟨l, hl, hm⟩ := ih x (hall x hx) c hcx
      exact ⟨l, by simpa [liveLeaves, h0] using hl, hm⟩
end XsVerif.Rx

namespace XsVerif.CM
open XsVerif.Wildcard XsVerif.Rx

mutual
theorem Particle.liveLeaves_toRx : (p : Particle) → Rx.liveLeaves p.toRx = p.liveLeaves
  | .leaf l lo hi => by simp [Particle.toRx, Rx.liveLeaves, Particle.liveLeaves]
  | .group _ .seq lo hi ps => by
    simp [Particle.toRx, Rx.liveLeaves, Particle.liveLeaves, Particles.liveLeaves_toSeq ps]
  | .group _ .choice lo hi ps => by
    simp [Particle.toRx, Rx.liveLeaves, Particle.liveLeaves, Particles.liveLeaves_toChoice ps]
  | .group _ .all lo hi ps => by
    simp [Particle.toRx, Rx.liveLeaves, Particle.liveLeaves, Particles.liveLeaves_toAll ps]
theorem Particles.liveLeaves_toSeq : (ps : Particles) → Rx.liveLeaves ps.toSeq = ps.liveLeaves
  | .nil => by simp [Particles.toSeq, Rx.liveLeaves, Particles.liveLeaves]
  | .cons p ps => by
    simp [Particles.toSeq, Rx.liveLeaves, Particles.liveLeaves, Particle.liveLeaves_toRx p, Particles.liveLeaves_toSeq ps]
theorem Particles.liveLeaves_toChoice : (ps : Particles) → Rx.liveLeaves ps.toChoice = ps.liveLeaves
  | .nil => by simp [Particles.toChoice, Rx.liveLeaves, Particles.liveLeaves]
  | .cons p ps => by
    simp [Particles.toChoice, Rx.liveLeaves, Particles.liveLeaves, Particle.liveLeaves_toRx p, Particles.liveLeaves_toChoice ps]
theorem Particles.liveLeaves_toAll : (ps : Particles) → Rx.liveLeaves ps.toAll = ps.liveLeaves
  | .nil => by simp [Particles.toAll, Rx.liveLeaves, Particles.liveLeaves]
  | .cons p ps => by
    simp [Particles.toAll, Rx.liveLeaves, Particles.liveLeaves, Particle.liveLeaves_toRx p, Particles.liveLeaves_toAll ps]
end
end XsVerif.CM

/-! ### renaming symbols -/

namespace XsVerif.Rx
variable {L σ : Type} (m : L → σ → Bool)

theorem interleave_map (f : σ → σ) {u v w : List σ} (h : Interleave u v w) :
    Interleave (u.map f) (v.map f) (w.map f) := by
  induction h with
  | nil => exact .nil
  | left c _ ih => exact .left (f c) ih
  | right c _ ih => exact .right (f c) ih

/-- renaming the symbols of a word by a function that no leaf of the expression can tell from the
    identity (on the symbols of that word) keeps the word in the language -/
theorem lang_map (f : σ → σ) (r : Rx L) : ∀ w, (∀ l ∈ leaves r, ∀ c ∈ w, m l (f c) = m l c) →
    Lang m r w → Lang m r (w.map f) := by
  induction r with
  | empty => intro w _ h; exact absurd h (by simp [Lang])
  | eps => intro w _ h; simp only [Lang] at h ⊢; subst h; rfl
  | sym a =>
    rintro w hf ⟨c, rfl, hm⟩
    exact ⟨f c, rfl, by rw [hf a (by simp [leaves]) c (by simp)]; exact hm⟩
  | cat r s ihr ihs =>
    rintro w hf ⟨u, v, rfl, h1, h2⟩
    refine ⟨u.map f, v.map f, by simp, ihr u ?_ h1, ihs v ?_ h2⟩
    · intro l hl c hc; exact hf l (by simp [leaves, hl]) c (by simp [hc])
    · intro l hl c hc; exact hf l (by simp [leaves, hl]) c (by simp [hc])
  | alt r s ihr ihs =>
    rintro w hf (h | h)
    · exact .inl (ihr w (fun l hl c hc => hf l (by simp [leaves, hl]) c hc) h)
    · exact .inr (ihs w (fun l hl c hc => hf l (by simp [leaves, hl]) c hc) h)
  | shuffle r s ihr ihs =>
    rintro w hf ⟨u, v, hi, h1, h2⟩
    refine ⟨u.map f, v.map f, interleave_map f hi, ihr u ?_ h1, ihs v ?_ h2⟩
    · intro l hl c hc; exact hf l (by simp [leaves, hl]) c ((interleave_mem hi c).mpr (.inl hc))
    · intro l hl c hc; exact hf l (by simp [leaves, hl]) c ((interleave_mem hi c).mpr (.inr hc))
  | rep r lo hi ih =>
    rintro w hf ⟨ws, rfl, hlo, hhi, hall⟩
    refine ⟨ws.map (List.map f), by simp [List.map_flatten], by simpa using hlo, by simpa using hhi, ?_⟩
    intro x hx
    obtain ⟨y, hy, rfl⟩ := List.mem_map.mp hx
    refine ih y ?_ (hall y hy)
    intro l hl c hc
    exact hf l (by simpa [leaves] using hl) c (List.mem_flatten.mpr ⟨y, hy, hc⟩)
end XsVerif.Rx
