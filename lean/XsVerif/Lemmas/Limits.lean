/-
  Helper lemmas for C11 (Model/Limits.lean): the parse folds over the events of a forest.
-/
import XsVerif.Model.Limits

namespace XsVerif.Limits

theorem eagerGo_others (j : Nat) (rest : List Ev) (l e : Int) :
    eagerGo (List.replicate j Ev.other ++ rest) l e = eagerGo rest l e := by
  induction j with
  | zero => simp
  | succ n ih => simpa [List.replicate_succ, eagerGo] using ih

theorem lazyGo_others (j : Nat) (rest : List Ev) (l : Int) :
    lazyGo (List.replicate j Ev.other ++ rest) l = lazyGo rest l := by
  induction j with
  | zero => simp
  | succ n ih => simpa [List.replicate_succ, lazyGo] using ih

/-- a forest within both budgets is consumed: the level budget is given back, the element budget
    is reduced by the number of elements. -/
theorem eagerGo_within (f : Forest) (rest : List Ev) (l e : Int)
    (hd : (f.depth : Int) ≤ l) (hs : (f.size : Int) ≤ e) :
    eagerGo (f.events ++ rest) l e = eagerGo rest l (e - f.size) := by
  induction f generalizing rest l e with
  | nil j => simp [Forest.events, Forest.size, eagerGo_others]
  | cons j c s ihc ihs =>
    simp only [Forest.depth, Forest.size] at hd hs
    have h1 : (c.depth : Int) + 1 ≤ l := by omega
    have h2 : (s.depth : Int) ≤ l := by omega
    simp only [Forest.events, List.append_assoc, List.cons_append, eagerGo_others]
    rw [eagerGo]
    have a1 : ¬ (l - 1 < 0) := by omega
    have a2 : ¬ (e - 1 < 0) := by omega
    simp only [a1, a2, if_false]
    rw [ihc _ (l - 1) (e - 1) (by omega) (by omega)]
    rw [eagerGo]
    rw [ihs rest (l - 1 + 1) (e - 1 - c.size) (by omega) (by omega)]
    simp only [Forest.size]
    congr 1 <;> omega

/-- a forest that exceeds one of the budgets is refused, whatever follows. -/
theorem eagerGo_exceeds (f : Forest) (rest : List Ev) (l e : Int) (hl : 0 ≤ l) (he : 0 ≤ e)
    (h : l < f.depth ∨ e < f.size) : eagerGo (f.events ++ rest) l e ≠ .ok := by
  induction f generalizing rest l e with
  | nil j => simp [Forest.depth, Forest.size] at h; omega
  | cons j c s ihc ihs =>
    simp only [Forest.depth, Forest.size] at h
    simp only [Forest.events, List.append_assoc, List.cons_append, eagerGo_others]
    rw [eagerGo]
    by_cases a1 : l - 1 < 0
    · simp [a1]
    · by_cases a2 : e - 1 < 0
      · simp [a1, a2]
      · simp only [a1, a2, if_false]
        by_cases hc : l - 1 < c.depth ∨ e - 1 < c.size
        · exact ihc _ _ _ (by omega) (by omega) hc
        · rw [eagerGo_within c _ _ _ (by omega) (by omega), eagerGo]
          apply ihs _ _ _ (by omega) (by omega)
          omega

theorem lazyGo_within (f : Forest) (rest : List Ev) (l : Int) (hd : (f.depth : Int) ≤ l) :
    lazyGo (f.events ++ rest) l = lazyGo rest l := by
  induction f generalizing rest l with
  | nil j => simp [Forest.events, lazyGo_others]
  | cons j c s ihc ihs =>
    simp only [Forest.depth] at hd
    simp only [Forest.events, List.append_assoc, List.cons_append, lazyGo_others]
    rw [lazyGo]
    have a1 : ¬ (l - 1 < 0) := by omega
    simp only [a1, if_false]
    rw [ihc _ (l - 1) (by omega), lazyGo, ihs rest (l - 1 + 1) (by omega)]
    congr 1; omega

theorem lazyGo_exceeds (f : Forest) (rest : List Ev) (l : Int) (hl : 0 ≤ l) (h : l < f.depth) :
    lazyGo (f.events ++ rest) l ≠ .ok := by
  induction f generalizing rest l with
  | nil j => simp [Forest.depth] at h; omega
  | cons j c s ihc ihs =>
    simp only [Forest.depth] at h
    simp only [Forest.events, List.append_assoc, List.cons_append, lazyGo_others]
    rw [lazyGo]
    by_cases a1 : l - 1 < 0
    · simp [a1]
    · simp only [a1, if_false]
      by_cases hc : l - 1 < c.depth
      · exact ihc _ _ (by omega) hc
      · rw [lazyGo_within c _ _ (by omega), lazyGo]
        apply ihs _ _ (by omega)
        omega

/-- the frame budget of the descent is linear in the depth of the forest -/
theorem descendFits_iff (tail : Nat) (f : Forest) (free : Int) :
    descendFits tail f free = true ↔ (2 * f.depth + tail : Int) ≤ free := by
  induction f generalizing free with
  | nil j => simp [descendFits, Forest.depth]
  | cons j c s ihc ihs =>
    unfold descendFits
    simp only [framesPerLevel, Forest.depth]
    by_cases h : free - ((2 : Nat) : Int) < 0
    · simp only [h, if_true]
      constructor
      · intro x; cases x
      · intro x; omega
    · simp only [h, if_false, Bool.and_eq_true, ihc, ihs]
      constructor
      · intro ⟨a, b⟩; omega
      · intro x; constructor <;> omega

end XsVerif.Limits
