/-
  Helper lemmas for C02: shape and idempotence of white-space collapse
  (`_REGEX_SPACES.sub(' ', text).strip(' ')`, simple_types.py:447-463).  Core Lean only.
-/
import XsVerif.Model.Datatypes

namespace XsVerif.Datatypes

/-- normal form of `squeeze`: every white character is a blank and no two white characters are adjacent;
    `prevW` = the character before the text is white (so the text must not start with one) -/
def sqz (W : Char → Bool) : Bool → Str → Bool
  | _, [] => true
  | prevW, c :: cs => if W c then (c == ' ' && !prevW && sqz W true cs) else sqz W false cs

theorem sqz_squeeze (W : Char → Bool) (hsp : W ' ' = true) (s : Str) (b : Bool) :
    sqz W b (squeeze W b s) = true := by
  induction s generalizing b with
  | nil => simp [squeeze, sqz]
  | cons c cs ih =>
    by_cases hc : W c = true
    · cases b with
      | true => simp only [squeeze, hc, if_true]; exact ih true
      | false => simp [squeeze, hc, sqz, hsp, ih true]
    · simp only [squeeze, hc, sqz, Bool.false_eq_true, if_false]; exact ih false

theorem sqz_mono (W : Char → Bool) (t : Str) (h : sqz W true t = true) : sqz W false t = true := by
  cases t with
  | nil => rfl
  | cons c cs =>
    by_cases hc : W c = true
    · simp [sqz, hc] at h
    · simpa [sqz, hc] using h

theorem sqz_of_any (W : Char → Bool) (b : Bool) (t : Str) (h : sqz W b t = true) : sqz W false t = true := by
  cases b with
  | true => exact sqz_mono W t h
  | false => exact h

theorem sqz_lstrip (W : Char → Bool) (b : Bool) (t : Str) (h : sqz W b t = true) :
    sqz W true (lstrip W t) = true := by
  induction t generalizing b with
  | nil => rfl
  | cons c cs ih =>
    by_cases hc : W c = true
    · simp only [lstrip, List.dropWhile_cons, hc, if_true]
      simp only [sqz, hc, if_true, Bool.and_eq_true] at h
      exact ih true h.2
    · simp only [lstrip, List.dropWhile_cons, hc, Bool.false_eq_true, if_false]
      simp only [sqz, hc, Bool.false_eq_true, if_false] at h ⊢
      exact h

theorem sqz_rstrip (W : Char → Bool) (b : Bool) (t : Str) (h : sqz W b t = true) :
    sqz W b (rstrip W t) = true := by
  induction t generalizing b with
  | nil => rfl
  | cons c cs ih =>
    simp only [rstrip]
    by_cases hc : W c = true
    · simp only [sqz, hc, if_true, Bool.and_eq_true] at h
      have i := ih true h.2
      cases hr : rstrip W cs with
      | nil => simp [hc, sqz]
      | cons d r => simp only [sqz, hc, if_true, Bool.and_eq_true]; rw [hr] at i; exact ⟨h.1, i⟩
    · simp only [sqz, hc, Bool.false_eq_true, if_false] at h
      have i := ih false h
      cases hr : rstrip W cs with
      | nil => simp [hc, sqz]
      | cons d r => simp only [sqz, hc, Bool.false_eq_true, if_false]; rw [hr] at i; exact i

/-- `rstrip` leaves no white character at the end -/
theorem rstrip_last (W : Char → Bool) (t : Str) : ∀ x, (rstrip W t).getLast? = some x → W x = false := by
  induction t with
  | nil => simp [rstrip]
  | cons c cs ih =>
    intro x hx
    simp only [rstrip] at hx
    cases hr : rstrip W cs with
    | nil =>
      rw [hr] at hx
      by_cases hc : W c = true
      · simp [hc] at hx
      · simp [hc] at hx; subst hx; simpa using hc
    | cons d r =>
      rw [hr] at hx ih
      simp only [List.getLast?_cons_cons] at hx
      exact ih x hx

theorem rstrip_fix (W : Char → Bool) (t : Str) (h : ∀ x, t.getLast? = some x → W x = false) :
    rstrip W t = t := by
  induction t with
  | nil => rfl
  | cons c cs ih =>
    simp only [rstrip]
    cases cs with
    | nil =>
      have := h c (by simp)
      simp [rstrip, this]
    | cons d r =>
      have i := ih (fun x hx => h x (by simpa [List.getLast?_cons_cons] using hx))
      rw [i]

theorem squeeze_fix (W : Char → Bool) (b : Bool) (t : Str) (h : sqz W b t = true) : squeeze W b t = t := by
  induction t generalizing b with
  | nil => rfl
  | cons c cs ih =>
    by_cases hc : W c = true
    · simp only [sqz, hc, if_true, Bool.and_eq_true, beq_iff_eq, Bool.not_eq_true'] at h
      obtain ⟨⟨h1, h2⟩, h3⟩ := h
      subst h2
      subst h1
      simp only [squeeze, hc, if_true, Bool.false_eq_true, if_false, ih true h3]
    · simp only [sqz, hc, Bool.false_eq_true, if_false] at h
      simp only [squeeze, hc, Bool.false_eq_true, if_false, ih false h]

theorem lstrip_fix (W : Char → Bool) (t : Str) (h : sqz W true t = true) : lstrip W t = t := by
  cases t with
  | nil => rfl
  | cons c cs =>
    by_cases hc : W c = true
    · simp [sqz, hc] at h
    · simp [lstrip, hc]

/-- what `sqz` means, in words -/
theorem sqz_spec (W : Char → Bool) (b : Bool) (t : Str) (h : sqz W b t = true) :
    (∀ c ∈ t, W c = true → c = ' ') ∧ (b = true → ∀ x, t.head? = some x → W x = false) ∧
    (∀ pre a c post, t = pre ++ a :: c :: post → ¬ (W a = true ∧ W c = true)) := by
  induction t generalizing b with
  | nil => simp
  | cons x xs ih =>
    by_cases hx : W x = true
    · simp only [sqz, hx, if_true, Bool.and_eq_true, beq_iff_eq, Bool.not_eq_true'] at h
      obtain ⟨⟨h1, h2⟩, h3⟩ := h
      obtain ⟨i1, i2, i3⟩ := ih true h3
      refine ⟨?_, ?_, ?_⟩
      · intro c hc hw
        rcases List.mem_cons.mp hc with rfl | hc
        · exact h1
        · exact i1 c hc hw
      · intro hb; rw [hb] at h2; cases h2
      · intro pre a c post e
        cases pre with
        | nil =>
          simp only [List.nil_append, List.cons.injEq] at e
          obtain ⟨rfl, e⟩ := e
          intro hw
          have := i2 rfl c (by simp [e])
          rw [this] at hw; exact absurd hw.2 (by simp)
        | cons p ps =>
          simp only [List.cons_append, List.cons.injEq] at e
          exact i3 ps a c post e.2
    · simp only [sqz, hx, Bool.false_eq_true, if_false] at h
      obtain ⟨i1, -, i3⟩ := ih false h
      refine ⟨?_, ?_, ?_⟩
      · intro c hc hw
        rcases List.mem_cons.mp hc with rfl | hc
        · exact absurd hw hx
        · exact i1 c hc hw
      · intro _ y hy; simp at hy; subst hy; simpa using hx
      · intro pre a c post e
        cases pre with
        | nil =>
          simp only [List.nil_append, List.cons.injEq] at e
          obtain ⟨rfl, -⟩ := e
          intro hw; exact hx hw.1
        | cons p ps =>
          simp only [List.cons_append, List.cons.injEq] at e
          exact i3 ps a c post e.2

theorem wsCollapse_sqz (W : Char → Bool) (hsp : W ' ' = true) (s : Str) :
    sqz W true (wsCollapse W s) = true := by
  unfold wsCollapse strip
  exact sqz_rstrip W true _ (sqz_lstrip W false _ (sqz_squeeze W hsp s false))

/-- a text in normal form is left unchanged by collapse -/
theorem wsCollapse_fix (W : Char → Bool) (t : Str) (h1 : sqz W true t = true)
    (h2 : ∀ x, t.getLast? = some x → W x = false) : wsCollapse W t = t := by
  unfold wsCollapse strip
  rw [squeeze_fix W false t (sqz_mono W t h1), lstrip_fix W t h1, rstrip_fix W t h2]


/-! ### the second collapse made by elementpath on binaries (`epCollapse`) -/

theorem sqz_congr (W W' : Char → Bool) (b : Bool) (t : Str) (h : ∀ c ∈ t, W c = W' c) :
    sqz W b t = sqz W' b t := by
  induction t generalizing b with
  | nil => rfl
  | cons c cs ih =>
    have hc := h c (by simp)
    have hcs : ∀ x ∈ cs, W x = W' x := fun x hx => h x (by simp [hx])
    simp only [sqz, hc, ih _ hcs]

theorem mem_squeeze (W : Char → Bool) (b : Bool) (s : Str) : ∀ c ∈ squeeze W b s, c ∈ s ∨ c = ' ' := by
  induction s generalizing b with
  | nil => simp [squeeze]
  | cons x xs ih =>
    intro c hc
    by_cases hx : W x = true
    · cases b with
      | true =>
        simp only [squeeze, hx, if_true] at hc
        rcases ih true c hc with h | h
        · left; simp [h]
        · right; exact h
      | false =>
        simp only [squeeze, hx, if_true, Bool.false_eq_true, if_false, List.mem_cons] at hc
        rcases hc with rfl | hc
        · right; rfl
        · rcases ih true c hc with h | h
          · left; simp [h]
          · right; exact h
    · simp only [squeeze, hx, Bool.false_eq_true, if_false, List.mem_cons] at hc
      rcases hc with rfl | hc
      · left; simp
      · rcases ih false c hc with h | h
        · left; simp [h]
        · right; exact h

theorem mem_rstrip (W : Char → Bool) (s : Str) : ∀ c ∈ rstrip W s, c ∈ s := by
  induction s with
  | nil => simp [rstrip]
  | cons x xs ih =>
    intro c hc
    simp only [rstrip] at hc
    cases hr : rstrip W xs with
    | nil =>
      rw [hr] at hc
      by_cases hx : W x = true
      · simp [hx] at hc
      · simp [hx] at hc; simp [hc]
    | cons d r =>
      rw [hr] at hc ih
      simp only [List.mem_cons] at hc ⊢
      rcases hc with rfl | hc
      · left; rfl
      · right; exact ih c (by simpa using hc)

theorem mem_wsCollapse (W : Char → Bool) (s : Str) : ∀ c ∈ wsCollapse W s, c ∈ s ∨ c = ' ' := by
  intro c hc
  unfold wsCollapse strip lstrip at hc
  exact mem_squeeze W false s c ((List.dropWhile_sublist W).subset (mem_rstrip W _ c hc))

theorem xmlWs_sub_epWs (c : Char) (h : isXmlWs c = true) : isEpWs c = true := by
  simp only [isXmlWs, Bool.or_eq_true, beq_iff_eq] at h
  rcases h with ((rfl | rfl) | rfl) | rfl <;> decide

/-- a text that xmlschema has collapsed and that contains no white space outside the XSD class is left
    unchanged by elementpath's `collapse_white_spaces` -/
theorem epCollapse_collapsed (s : Str) (h : ∀ c ∈ s, isEpWs c = true → isXmlWs c = true) :
    epCollapse (wsCollapse isXmlWs s) = wsCollapse isXmlWs s := by
  have hq := wsCollapse_sqz isXmlWs (by decide) s
  have hl : ∀ x, (wsCollapse isXmlWs s).getLast? = some x → isXmlWs x = false := by
    unfold wsCollapse strip; exact rstrip_last isXmlWs _
  obtain ⟨h1, -, -⟩ := sqz_spec isXmlWs true _ hq
  have hmem := mem_wsCollapse isXmlWs s
  generalize wsCollapse isXmlWs s = t at *
  -- on the characters of t: white (any of the three classes) ↔ blank
  have e1 : ∀ c ∈ t, isXmlWs c = isEpWs c := by
    intro c hc
    cases hx : isXmlWs c with
    | true => exact (xmlWs_sub_epWs c hx).symm
    | false =>
      cases he : isEpWs c with
      | false => rfl
      | true =>
        rcases hmem c hc with hs | rfl
        · rw [h c hs he] at hx; cases hx
        · revert hx; decide
  have e2 : ∀ c ∈ t, isXmlWs c = (c == ' ') := by
    intro c hc
    cases hx : isXmlWs c with
    | true => rw [h1 c hc hx]; rfl
    | false =>
      cases hb : (c == ' ') with
      | false => rfl
      | true => rw [eq_of_beq hb] at hx; revert hx; decide
  have q1 : sqz isEpWs true t = true := by rw [← sqz_congr isXmlWs isEpWs true t e1]; exact hq
  have q2 : sqz (· == ' ') true t = true := by rw [← sqz_congr isXmlWs (· == ' ') true t e2]; exact hq
  unfold epCollapse strip
  rw [squeeze_fix isEpWs false t (sqz_mono isEpWs t q1), lstrip_fix (· == ' ') t q2,
    rstrip_fix (· == ' ') t (fun x hx => by
      have := hl x hx
      rw [e2 x (List.mem_of_getLast? hx)] at this; exact this)]

end XsVerif.Datatypes
