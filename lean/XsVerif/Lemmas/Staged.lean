/-
  Helper lemmas for C09 (staged build = well-founded denotation).
-/
import XsVerif.Model.Staged

namespace XsVerif.Staged

variable {g : Name → Option Decl} {rank : Name → Nat}

theorem den_eq_of_rank (hac : Acyclic g rank) :
    ∀ n m q, rank q < n → rank q < m → den g n q = den g m q := by
  intro n
  induction n with
  | zero => intro m q h; omega
  | succ k ih =>
    intro m q hn hm
    cases m with
    | zero => omega
    | succ j =>
      simp only [den]
      cases hg : g q with
      | none => rfl
      | some d =>
        simp only
        congr 1
        apply List.map_congr_left
        intro x hx
        have := hac q d hg x hx
        exact ih j x (by omega) (by omega)

/-- `denote` is the (unique) solution of the recursive equation of the declaration table. -/
theorem denote_unfold (hac : Acyclic g rank) (q : Name) :
    denote g rank q = match g q with
      | none => .missing q
      | some d => .ok q d.id (d.deps.map (denote g rank)) := by
  show den g (rank q + 1) q = _
  rw [den]
  cases hg : g q with
  | none => rfl
  | some d =>
    simp only
    congr 1
    apply List.map_congr_left
    intro x hx
    have := hac q d hg x hx
    exact den_eq_of_rank hac _ _ x (by omega) (by omega)

/-- Invariant of the maps during a build of an acyclic table. -/
structure Inv (g : Name → Option Decl) (rank : Name → Nat) (s : State) : Prop where
  stored : ∀ q c, s.store q = some c → c = denote g rank q ∧ g q ≠ none
  staged : ∀ q d, s.staging q = some d → g q = some d
  total : ∀ q d, g q = some d → s.store q ≠ none ∨ s.staging q ≠ none

/-- What one lookup guarantees. -/
structure Post (g : Name → Option Decl) (rank : Name → Nat) (s : State) (q : Name)
    (r : State × Res) : Prop where
  res : r.2 = denote g rank q
  inv : Inv g rank r.1
  marked : ∀ x, r.1.marked x = s.marked x
  mono : ∀ x c, s.store x = some c → r.1.store x = some c
  done : g q ≠ none → r.1.store q = some (denote g rank q)

theorem fold_post (n : Nat)
    (ih : ∀ s q, Inv g rank s → rank q < n → (∀ m, s.marked m = true → rank q < rank m) →
      Post g rank s q (lookup n s q)) :
    ∀ ds s, Inv g rank s →
      (∀ x ∈ ds, rank x < n ∧ ∀ m, s.marked m = true → rank x < rank m) →
      (foldDeps (lookup n) s ds).2 = ds.map (denote g rank) ∧
      Inv g rank (foldDeps (lookup n) s ds).1 ∧
      (∀ x, (foldDeps (lookup n) s ds).1.marked x = s.marked x) ∧
      (∀ x c, s.store x = some c → (foldDeps (lookup n) s ds).1.store x = some c) := by
  intro ds
  induction ds with
  | nil => intro s hs _; simp [foldDeps, hs]
  | cons d ds ihd =>
    intro s hs hds
    have hd := hds d (List.mem_cons_self ..)
    have p := ih s d hs hd.1 hd.2
    have hrest : ∀ x ∈ ds, rank x < n ∧ ∀ m, (lookup n s d).1.marked m = true → rank x < rank m := by
      intro x hx
      have := hds x (List.mem_cons_of_mem _ hx)
      refine ⟨this.1, ?_⟩
      intro m hm
      rw [p.marked] at hm
      exact this.2 m hm
    obtain ⟨h1, h2, h3, h4⟩ := ihd (lookup n s d).1 p.inv hrest
    simp only [foldDeps, List.map_cons]
    refine ⟨?_, h2, ?_, ?_⟩
    · rw [h1, p.res]
    · intro x; rw [h3, p.marked]
    · intro x c hx; exact h4 x c (p.mono x c hx)

theorem lookup_post (hac : Acyclic g rank) :
    ∀ n s q, Inv g rank s → rank q < n → (∀ m, s.marked m = true → rank q < rank m) →
      Post g rank s q (lookup n s q) := by
  intro n
  induction n with
  | zero => intro s q _ h; omega
  | succ n ih =>
    intro s q hs hn hm
    unfold lookup
    cases hst : s.store q with
    | some c =>
      simp only
      have := hs.stored q c hst
      exact ⟨this.1, ⟨hs.stored, hs.staged, hs.total⟩, fun _ => rfl, fun _ _ h => h,
        fun _ => by simp only; rw [hst, this.1]⟩
    | none =>
      simp only
      cases hsg : s.staging q with
      | none =>
        simp only
        have hg : g q = none := by
          cases hgq : g q with
          | none => rfl
          | some d => rcases hs.total q d hgq with h | h <;> simp_all
        refine ⟨?_, ⟨hs.stored, hs.staged, hs.total⟩, fun _ => rfl, fun _ _ h => h, fun h => absurd hg h⟩
        rw [denote_unfold hac, hg]
      | some d =>
        simp only
        have hg : g q = some d := hs.staged q d hsg
        have hnm : s.marked q = false := by
          cases h : s.marked q with
          | false => rfl
          | true => have := hm q h; omega
        simp only [hnm, Bool.false_eq_true, ↓reduceIte]
        -- the state with the circularity marker set
        have hs1 : Inv g rank { s with marked := set s.marked q true, log := Ev.enter q :: s.log } :=
          ⟨hs.stored, hs.staged, hs.total⟩
        have hds : ∀ x ∈ d.deps, rank x < n ∧
            ∀ m, (set s.marked q true) m = true → rank x < rank m := by
          intro x hx
          have hlt := hac q d hg x hx
          refine ⟨by omega, ?_⟩
          intro m hmm
          unfold set at hmm
          split at hmm
          · subst_vars; exact hlt
          · have := hm m hmm; omega
        obtain ⟨h1, h2, h3, h4⟩ := fold_post n ih d.deps _ hs1 hds
        have hval : Res.ok q d.id (foldDeps (lookup n)
            { s with marked := set s.marked q true, log := Ev.enter q :: s.log } d.deps).2
            = denote g rank q := by
          rw [h1, denote_unfold hac q, hg]
        refine ⟨hval, ⟨?_, ?_, ?_⟩, ?_, ?_, ?_⟩
        · intro x c hx
          simp only [set] at hx
          split at hx
          · subst_vars
            simp only [Option.some.injEq] at hx
            rw [← hx, hval]; simp [hg]
          · exact h2.stored x c hx
        · intro x dx hx
          simp only [set] at hx
          split at hx
          · cases hx
          · exact h2.staged x dx hx
        · intro x dx hgx
          simp only [set]
          by_cases hxq : x = q
          · left; simp [hxq]
          · simp only [hxq, ↓reduceIte]; exact h2.total x dx hgx
        · intro x
          simp only [set]
          split
          · subst_vars; exact hnm.symm
          · have := h3 x; simp only [set] at this; simp_all
        · intro x c hx
          simp only [set]
          split
          · subst_vars; simp_all
          · exact h4 x c hx
        · intro _
          simp only [set, ↓reduceIte]
          rw [hval]

/-- `buildAll` over any list of names, in an acyclic table. -/
theorem buildAll_post (hac : Acyclic g rank) (n : Nat) (hn : ∀ q, rank q < n) :
    ∀ order s, Inv g rank s → (∀ m, s.marked m = false) →
      Inv g rank (buildAll n s order) ∧ (∀ m, (buildAll n s order).marked m = false) ∧
      (∀ x c, s.store x = some c → (buildAll n s order).store x = some c) ∧
      (∀ q ∈ order, g q ≠ none → (buildAll n s order).store q = some (denote g rank q)) := by
  intro order
  induction order with
  | nil => intro s hs hm; simp [buildAll, hs, hm]
  | cons q qs ih =>
    intro s hs hm
    simp only [buildAll]
    by_cases hst : (s.staging q).isSome
    · simp only [hst, ↓reduceIte]
      have p := lookup_post hac n s q hs (hn q) (by intro m h; simp [hm m] at h)
      have hm' : ∀ m, (lookup n s q).1.marked m = false := by intro m; rw [p.marked, hm]
      obtain ⟨i1, i2, i3, i4⟩ := ih _ p.inv hm'
      refine ⟨i1, i2, fun x c hx => i3 x c (p.mono x c hx), ?_⟩
      intro x hx hg
      rcases List.mem_cons.mp hx with rfl | hx
      · exact i3 _ _ (p.done hg)
      · exact i4 x hx hg
    · simp only [hst, Bool.false_eq_true, ↓reduceIte]
      obtain ⟨i1, i2, i3, i4⟩ := ih s hs hm
      refine ⟨i1, i2, i3, ?_⟩
      intro x hx hg
      rcases List.mem_cons.mp hx with rfl | hx
      · -- not staged, declared ⇒ already stored
        cases hgx : g x with
        | none => exact absurd hgx hg
        | some d =>
          rcases hs.total x d hgx with h | h
          · cases hsx : s.store x with
            | none => exact absurd hsx h
            | some c =>
              have := hs.stored x c hsx
              rw [← this.1]; exact i3 x c hsx
          · simp only [Option.isSome_iff_ne_none] at hst; exact absurd h hst
      · exact i4 x hx hg

theorem initState_inv (hac : Acyclic g rank) (pre : Name → Bool)
    (hpre : ∀ q d, pre q = true → g q = some d → d.deps = []) :
    Inv g rank (initState pre g) := by
  refine ⟨?_, ?_, ?_⟩
  · intro q c h
    simp only [initState] at h
    split at h
    · cases hg : g q with
      | none => simp [hg] at h
      | some d =>
        simp only [hg, Option.map_some, Option.some.injEq] at h
        refine ⟨?_, by simp⟩
        rw [denote_unfold hac, hg, ← h]
        simp [hpre q d (by assumption) hg]
    · cases h
  · intro q d h
    simp only [initState] at h
    split at h
    · cases h
    · exact h
  · intro q d hg
    simp only [initState]
    by_cases hp : pre q = true
    · left; simp [hp, hg]
    · right; simp [hp, hg]

/-- After `buildAll` over an order that covers every staged name the store is exactly the denotation. -/
theorem buildAll_store (hac : Acyclic g rank) (n : Nat) (hn : ∀ q, rank q < n)
    (s : State) (hs : Inv g rank s) (hm : ∀ m, s.marked m = false) (order : List Name)
    (hcov : ∀ q d, s.staging q = some d → q ∈ order) (q : Name) :
    (buildAll n s order).store q = (g q).map (fun _ => denote g rank q) := by
  obtain ⟨i1, _, i3, i4⟩ := buildAll_post hac n hn order s hs hm
  cases hg : g q with
  | none =>
    simp only [Option.map_none]
    cases h : (buildAll n s order).store q with
    | none => rfl
    | some c => exact absurd hg (i1.stored q c h).2
  | some d =>
    simp only [Option.map_some]
    rcases hs.total q d hg with h | h
    · cases hsx : s.store q with
      | none => exact absurd hsx h
      | some c => rw [← (hs.stored q c hsx).1]; exact i3 q c hsx
    · cases hsg : s.staging q with
      | none => exact absurd hsg h
      | some d' => exact i4 q (hcov q d' hsg) (by simp [hg])

/-- on-demand lookups (`maps.types[name]` before `build`) keep the invariant -/
def lookups (n : Nat) : State → List Name → State
  | s, [] => s
  | s, q :: qs => lookups n (lookup n s q).1 qs

theorem lookups_inv (hac : Acyclic g rank) (n : Nat) (hn : ∀ q, rank q < n) :
    ∀ qs s, Inv g rank s → (∀ m, s.marked m = false) →
      Inv g rank (lookups n s qs) ∧ (∀ m, (lookups n s qs).marked m = false) := by
  intro qs
  induction qs with
  | nil => intro s hs hm; exact ⟨hs, hm⟩
  | cons q qs ih =>
    intro s hs hm
    have p := lookup_post hac n s q hs (hn q) (by intro m h; simp [hm m] at h)
    exact ih _ p.inv (by intro m; rw [p.marked, hm])

/-- a lookup never stages anything -/
theorem lookup_staging_none (x : Name) :
    ∀ k s a, s.staging x = none → (lookup k s a).1.staging x = none := by
  intro k
  induction k with
  | zero => intro s a h; simpa [lookup] using h
  | succ k ihk =>
    intro s a h
    have hf : ∀ ds s, s.staging x = none → (foldDeps (lookup k) s ds).1.staging x = none := by
      intro ds
      induction ds with
      | nil => intro s h; exact h
      | cons e ds ihd => intro s h; exact ihd _ (ihk s e h)
    unfold lookup
    split
    · exact h
    · split
      · exact h
      · split
        · exact h
        · simp only [set]
          split
          · rfl
          · exact hf _ _ h

theorem lookups_staging_none (x : Name) (n : Nat) :
    ∀ qs s, s.staging x = none → (lookups n s qs).staging x = none := by
  intro qs
  induction qs with
  | nil => intro s h; exact h
  | cons a qs ih => intro s h; exact ih _ (lookup_staging_none x n s a h)

/-! ### load -/

theorem loadOne_dup (st : LState) (q : Name) (d d' : Decl) (h : st.staged.lookup q = some d)
    (hne : d.id ≠ d'.id) : q ∈ (loadOne st (q, d')).errors := by
  simp [loadOne, h, hne]

theorem loadOne_errors_grow (st : LState) (p : Name × Decl) (q : Name) (h : q ∈ st.errors) :
    q ∈ (loadOne st p).errors := by
  unfold loadOne
  split
  · exact h
  · split
    · exact h
    · simp [h]

theorem lookup_cons' (p : Name × Decl) (l : List (Name × Decl)) (q : Name) :
    (p :: l).lookup q = if q = p.1 then some p.2 else l.lookup q := by
  cases p with
  | mk k b => simp only [List.lookup_cons]; cases h : (q == k) <;> simp_all

theorem foldl_loadOne_lookup (l : List (Name × Decl)) :
    ∀ (st : LState) (q : Name),
      (l.foldl loadOne st).staged.lookup q = (st.staged.lookup q).or (l.lookup q) := by
  induction l with
  | nil => intro st q; simp
  | cons p l ih =>
    intro st q
    simp only [List.foldl_cons]
    rw [ih]
    unfold loadOne
    cases hp : st.staged.lookup p.1 with
    | none =>
      simp only [List.lookup_append, lookup_cons', List.lookup_nil]
      cases st.staged.lookup q <;> by_cases hq : q = p.1 <;> simp [hq]
    | some d =>
      have : (if d.id = p.2.id then st else { st with errors := st.errors ++ [p.1] }).staged = st.staged := by
        split <;> rfl
      simp only [this, lookup_cons']
      by_cases hq : q = p.1
      · subst hq; simp [hp]
      · simp [hq]

theorem loadAll_lookup (l : List (Name × Decl)) (q : Name) :
    (loadAll l).staged.lookup q = l.lookup q := by
  unfold loadAll
  rw [foldl_loadOne_lookup]; simp

theorem foldl_loadOne_errors (l : List (Name × Decl)) :
    ∀ (st : LState), (l.map (·.1)).Nodup → (∀ p ∈ l, st.staged.lookup p.1 = none) →
      (l.foldl loadOne st).errors = st.errors := by
  induction l with
  | nil => intro st _ _; rfl
  | cons p l ih =>
    intro st hnd hnone
    simp only [List.map_cons, List.nodup_cons] at hnd
    simp only [List.foldl_cons]
    have hp := hnone p (List.mem_cons_self ..)
    have hone : loadOne st p = { st with staged := st.staged ++ [p] } := by
      unfold loadOne; simp [hp]
    rw [hone, ih _ hnd.2]
    intro p' hp'
    have : p'.1 ≠ p.1 := by
      intro h
      exact hnd.1 (h ▸ List.mem_map_of_mem (f := (·.1)) hp')
    simp [List.lookup_append, hnone p' (List.mem_cons_of_mem _ hp'), lookup_cons', this]

theorem lookup_mem_keys {l : List (Name × Decl)} {q : Name} {d : Decl}
    (h : l.lookup q = some d) : q ∈ l.map (·.1) := by
  induction l with
  | nil => simp at h
  | cons p l ih =>
    rw [lookup_cons'] at h
    by_cases hq : q = p.1
    · simp [hq]
    · simp only [hq, ↓reduceIte] at h; simp [ih h]

theorem lookup_eq_some_iff_mem {l : List (Name × Decl)} (hnd : (l.map (·.1)).Nodup)
    (q : Name) (d : Decl) : l.lookup q = some d ↔ (q, d) ∈ l := by
  induction l with
  | nil => simp
  | cons p l ih =>
    simp only [List.map_cons, List.nodup_cons] at hnd
    rw [lookup_cons', List.mem_cons]
    by_cases hq : q = p.1
    · simp only [hq, ↓reduceIte, Option.some.injEq]
      constructor
      · intro h; left; rw [← h]
      · rintro (h | h)
        · rw [← h]
        · exfalso; apply hnd.1; exact List.mem_map_of_mem (f := (·.1)) h
    · simp only [hq, ↓reduceIte, ih hnd.2]
      constructor
      · intro h; right; exact h
      · rintro (h | h)
        · exfalso; apply hq; rw [← h]
        · exact h

theorem perm_lookup {l₁ l₂ : List (Name × Decl)} (hp : l₁.Perm l₂)
    (hnd : (l₁.map (·.1)).Nodup) (q : Name) : l₁.lookup q = l₂.lookup q := by
  have hnd2 : (l₂.map (·.1)).Nodup := (hp.map (·.1)).nodup hnd
  apply Option.ext
  intro d
  rw [lookup_eq_some_iff_mem hnd, lookup_eq_some_iff_mem hnd2, hp.mem_iff]

/-! ### locations -/

theorem normGo_append (l₁ l₂ : List String) :
    ∀ acc, normGo acc (l₁ ++ l₂) = normGo (normGo acc l₁).reverse l₂ := by
  induction l₁ with
  | nil => intro acc; simp [normGo]
  | cons s l ih =>
    intro acc
    simp only [List.cons_append, normGo]
    split
    · exact ih acc
    · split
      · exact ih _
      · exact ih _

theorem normGo_plain (l : List String) (hl : ∀ s ∈ l, Plain s) :
    ∀ acc, normGo acc l = acc.reverse ++ l := by
  induction l with
  | nil => intro acc; simp [normGo]
  | cons s l ih =>
    intro acc
    have hs := hl s (List.mem_cons_self ..)
    unfold Plain at hs
    simp only [normGo, hs.1, hs.2.1, hs.2.2, or_self, ↓reduceIte]
    rw [ih (fun x hx => hl x (List.mem_cons_of_mem _ hx))]
    simp

theorem normGo_is_plain (l : List String) :
    ∀ acc, (∀ s ∈ acc, Plain s) → ∀ s ∈ normGo acc l, Plain s := by
  induction l with
  | nil => intro acc h s hs; simp only [normGo, List.mem_reverse] at hs; exact h s hs
  | cons x l ih =>
    intro acc h
    simp only [normGo]
    split
    · exact ih acc h
    · split
      · exact ih _ (fun s hs => h s (List.mem_of_mem_tail hs))
      · apply ih
        intro s hs
        rcases List.mem_cons.mp hs with rfl | hs
        · unfold Plain; grind
        · exact h s hs

/-! ### include de-duplication -/

theorem includeGo_nodup (docs : List Doc) :
    ∀ n visited todo, visited.Nodup → (includeGo docs n visited todo).Nodup := by
  intro n
  induction n with
  | zero => intro v t h; simpa [includeGo] using h
  | succ n ih =>
    intro v t h
    cases t with
    | nil => simpa [includeGo] using h
    | cons k todo =>
      simp only [includeGo]
      split
      · exact ih _ _ h
      · split
        · exact ih _ _ h
        · apply ih
          rw [List.nodup_append]
          refine ⟨h, by simp, ?_⟩
          intro a ha b hb
          simp only [List.mem_singleton] at hb
          subst hb
          intro hab; subst hab; contradiction

/-! ### circular references are reported -/

/-- what any lookup preserves about a name `q` whose circularity marker is set: it stays marked, staged and
    unbuilt (nobody but the pending build of `q` itself touches it) -/
structure Keeps (q : Name) (s s' : State) : Prop where
  marked : s'.marked q = true
  store : s'.store q = none
  staging : s'.staging q = s.staging q

theorem fold_keeps (q : Name) (f : State → Name → State × Res)
    (hf : ∀ s x, s.marked q = true → s.store q = none → Keeps q s (f s x).1) :
    ∀ ds s, s.marked q = true → s.store q = none → Keeps q s (foldDeps f s ds).1 := by
  intro ds
  induction ds with
  | nil => intro s hm hs; exact ⟨hm, hs, rfl⟩
  | cons d ds ih =>
    intro s hm hs
    have k1 := hf s d hm hs
    have k2 := ih (f s d).1 k1.marked k1.store
    exact ⟨k2.marked, k2.store, k2.staging.trans k1.staging⟩

theorem lookup_keeps (q : Name) :
    ∀ n s x, s.marked q = true → s.store q = none → Keeps q s (lookup n s x).1 := by
  intro n
  induction n with
  | zero => intro s x hm hs; exact ⟨hm, hs, rfl⟩
  | succ n ih =>
    intro s x hm hs
    unfold lookup
    split
    · exact ⟨hm, hs, rfl⟩
    · split
      · exact ⟨hm, hs, rfl⟩
      · split
        · exact ⟨hm, hs, rfl⟩
        · rename_i hx
          have hxq : q ≠ x := by intro h; subst h; exact hx hm
          rename_i d _
          have k := fold_keeps q (lookup n) ih d.deps
            { s with marked := set s.marked x true, log := Ev.enter x :: s.log }
            (by simp [set, hxq, hm]) hs
          refine ⟨?_, ?_, ?_⟩
          · simp only [set, hxq, ↓reduceIte]; exact k.marked
          · simp only [set, hxq, ↓reduceIte]; exact k.store
          · simp only [set, hxq, ↓reduceIte]; exact k.staging

theorem fold_reports (q : Name) (n : Nat) (d : Decl) :
    ∀ ds s, s.marked q = true → s.store q = none → s.staging q = some d → q ∈ ds →
      Res.circ q ∈ (foldDeps (lookup (n + 1)) s ds).2 := by
  intro ds
  induction ds with
  | nil => intro s _ _ _ h; cases h
  | cons x ds ih =>
    intro s hm hs hg hq
    simp only [foldDeps]
    by_cases hx : x = q
    · subst hx
      have : (lookup (n + 1) s x).2 = .circ x := by simp [lookup, hs, hg, hm]
      rw [this]; exact List.mem_cons_self ..
    · have hq' : q ∈ ds := by
        rcases List.mem_cons.mp hq with h | h
        · exact absurd h.symm hx
        · exact h
      have k := lookup_keeps q (n + 1) s x hm hs
      exact List.mem_cons_of_mem _ (ih _ k.marked k.store (k.staging.trans hg) hq')

/-! ### include registration: first wins, and only RESOLVED locations count -/

/-- what is registered stays registered, in its place: later inclusions never displace a document -/
theorem includeGo_prefix (docs : List Doc) :
    ∀ n visited todo, visited <+: includeGo docs n visited todo := by
  intro n
  induction n with
  | zero => intro v t; simp [includeGo]
  | succ n ih =>
    intro v t
    cases t with
    | nil => simp [includeGo]
    | cons k todo =>
      simp only [includeGo]
      split
      · exact ih _ _
      · split
        · exact ih _ _
        · exact (List.prefix_append v [k]).trans (ih _ _)

/-- two descriptions of the same documents: same keys, same RESOLVED include locations (the spelled locations
    and the directories they are relative to may differ) -/
def SameResolved (d₁ d₂ : Doc) : Prop := d₁.key = d₂.key ∧ resolvedIncludes d₁ = resolvedIncludes d₂

/-- document lists that describe the same documents position by position -/
inductive AllSame : List Doc → List Doc → Prop
  | nil : AllSame [] []
  | cons {d₁ d₂ l₁ l₂} : SameResolved d₁ d₂ → AllSame l₁ l₂ → AllSame (d₁ :: l₁) (d₂ :: l₂)

theorem findDoc_sameResolved : ∀ (l₁ l₂ : List Doc), AllSame l₁ l₂ → ∀ k,
    (findDoc l₁ k = none ∧ findDoc l₂ k = none) ∨
    (∃ d₁ d₂, findDoc l₁ k = some d₁ ∧ findDoc l₂ k = some d₂ ∧ SameResolved d₁ d₂)
  | [], [], _, k => Or.inl ⟨rfl, rfl⟩
  | [], _ :: _, h, _ => by cases h
  | _ :: _, [], h, _ => by cases h
  | d₁ :: l₁, d₂ :: l₂, h, k => by
    cases h with
    | cons hd tl =>
      unfold findDoc
      simp only [List.find?_cons]
      by_cases e : d₁.key = k
      · have e2 : d₂.key = k := by rw [← hd.1]; exact e
        simp only [e, e2, decide_true]
        exact Or.inr ⟨d₁, d₂, rfl, rfl, hd⟩
      · have e2 : ¬ d₂.key = k := by rw [← hd.1]; exact e
        simp only [e, e2, decide_false]
        exact findDoc_sameResolved l₁ l₂ tl k

theorem includeGo_sameResolved (l₁ l₂ : List Doc) (h : AllSame l₁ l₂) :
    ∀ n visited todo, includeGo l₁ n visited todo = includeGo l₂ n visited todo := by
  intro n
  induction n with
  | zero => intro v t; simp [includeGo]
  | succ n ih =>
    intro v t
    cases t with
    | nil => simp [includeGo]
    | cons k todo =>
      simp only [includeGo]
      by_cases hk : k ∈ v
      · simp only [hk, if_true]; exact ih _ _
      · simp only [hk, if_false]
        rcases findDoc_sameResolved l₁ l₂ h k with ⟨a, b⟩ | ⟨d₁, d₂, a, b, c⟩
        · rw [a, b]; exact ih _ _
        · rw [a, b]
          have := c.2
          unfold resolvedIncludes at this
          simp only [this]
          exact ih _ _

end XsVerif.Staged
