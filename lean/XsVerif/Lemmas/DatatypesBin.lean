/-
  Specification lemmas for the binary datatypes (xs:hexBinary, xs:base64Binary) of the datatype
  model (C02).  Core Lean only.
-/
import XsVerif.Model.Datatypes
import XsVerif.Model.DatatypesDate
import XsVerif.Lemmas.Datatypes
namespace XsVerif.Datatypes

/-! ## xs:hexBinary -/

/-- xs:hexBinary lexical space (XSD Part 2 §3.2.15): a sequence of `n` pairs of hex digits -/
def HexLex (s : Str) (n : Nat) : Prop :=
  ∃ ps : List (Char × Char), s = ps.flatMap (fun p => [p.1, p.2]) ∧
    (∀ p ∈ ps, isHex p.1 = true ∧ isHex p.2 = true) ∧ n = ps.length

/-- value of a hex digit and the octets denoted by a literal -/
def hexVal (c : Char) : Nat :=
  if isDig c then c.toNat - 48 else if 'a' ≤ c && c ≤ 'f' then c.toNat - 87 else c.toNat - 55
def hexOctets : Str → List Nat
  | a :: b :: r => (16 * hexVal a + hexVal b) :: hexOctets r
  | _ => []

/-- the 22 hex digits -/
def hexChars : List Char := "0123456789abcdefABCDEF".toList

theorem isHex_mem (c : Char) (h : isHex c = true) : c ∈ hexChars := by
  have hr : (48 ≤ c.toNat ∧ c.toNat ≤ 57) ∨ (97 ≤ c.toNat ∧ c.toNat ≤ 102) ∨
      (65 ≤ c.toNat ∧ c.toNat ≤ 70) := by
    simp [isHex, isDig, Char.le_def, UInt32.le_iff_toNat_le] at h
    omega
  have : c.toNat = 48 ∨ c.toNat = 49 ∨ c.toNat = 50 ∨ c.toNat = 51 ∨ c.toNat = 52 ∨ c.toNat = 53 ∨
      c.toNat = 54 ∨ c.toNat = 55 ∨ c.toNat = 56 ∨ c.toNat = 57 ∨ c.toNat = 97 ∨ c.toNat = 98 ∨
      c.toNat = 99 ∨ c.toNat = 100 ∨ c.toNat = 101 ∨ c.toNat = 102 ∨ c.toNat = 65 ∨ c.toNat = 66 ∨
      c.toNat = 67 ∨ c.toNat = 68 ∨ c.toNat = 69 ∨ c.toNat = 70 := by omega
  rw [← Char.ofNat_toNat c]
  rcases this with h | h | h | h | h | h | h | h | h | h | h | h | h | h | h | h | h | h | h | h | h | h <;>
    rw [h] <;> decide

set_option maxRecDepth 4000 in
theorem hexChars_facts :
    ∀ x ∈ hexChars, isHex x.toUpper = true ∧ x.toUpper.toUpper = x.toUpper ∧ hexVal x < 16 := by
  decide

set_option maxRecDepth 4000 in
theorem hexChars_up :
    ∀ x ∈ hexChars, ∀ y ∈ hexChars, (x.toUpper = y.toUpper ↔ hexVal x = hexVal y) := by
  decide

theorem isHex_toUpper (c : Char) (h : isHex c = true) : isHex c.toUpper = true :=
  (hexChars_facts c (isHex_mem c h)).1
theorem toUpper_idem_hex (c : Char) (h : isHex c = true) : c.toUpper.toUpper = c.toUpper :=
  (hexChars_facts c (isHex_mem c h)).2.1
theorem hexVal_lt (c : Char) (h : isHex c = true) : hexVal c < 16 :=
  (hexChars_facts c (isHex_mem c h)).2.2
theorem toUpper_eq_iff_hexVal (x y : Char) (hx : isHex x = true) (hy : isHex y = true) :
    x.toUpper = y.toUpper ↔ hexVal x = hexVal y :=
  hexChars_up x (isHex_mem x hx) y (isHex_mem y hy)

/-- the pairs of a string (a trailing odd character is dropped) -/
def strPairs : Str → List (Char × Char)
  | a :: b :: r => (a, b) :: strPairs r
  | _ => []

theorem strPairs_flat (s : Str) (h : s.length % 2 = 0) :
    s = (strPairs s).flatMap (fun p => [p.1, p.2]) := by
  fun_induction strPairs s with
  | case1 a b r ih =>
    simp only [List.length_cons] at h
    have := ih (by omega)
    simp only [List.flatMap_cons, List.cons_append, List.nil_append]
    rw [← this]
  | case2 s hs =>
    match s, hs with
    | [], _ => simp
    | [a], _ => simp at h
    | a :: b :: r, hs => exact absurd rfl (hs a b r)

theorem strPairs_mem (s : Str) : ∀ p ∈ strPairs s, p.1 ∈ s ∧ p.2 ∈ s := by
  fun_induction strPairs s with
  | case1 a b r ih =>
    intro p hp
    rcases List.mem_cons.mp hp with rfl | hp
    · simp
    · have := ih p hp
      simp [this.1, this.2]
  | case2 s hs => intro p hp; cases hp

theorem flatPairs_length (ps : List (Char × Char)) :
    (ps.flatMap (fun p => [p.1, p.2])).length = 2 * ps.length := by
  induction ps with
  | nil => rfl
  | cons p ps ih => simp only [List.flatMap_cons, List.length_append, ih, List.length_cons, List.length_nil]; omega

theorem flatPairs_all (ps : List (Char × Char)) (h : ∀ p ∈ ps, isHex p.1 = true ∧ isHex p.2 = true) :
    ∀ c ∈ ps.flatMap (fun p => [p.1, p.2]), isHex c = true := by
  intro c hc
  rcases List.mem_flatMap.mp hc with ⟨p, hp, hcp⟩
  have := h p hp
  simp at hcp
  rcases hcp with rfl | rfl
  · exact this.1
  · exact this.2

theorem hexOk_spec (s : Str) : hexOk s = true ↔ (∀ c ∈ s, isHex c = true) ∧ s.length % 2 = 0 := by
  simp [hexOk]

theorem hexOk_iff (s : Str) : hexOk s = true ↔ ∃ n, HexLex s n := by
  rw [hexOk_spec]
  constructor
  · rintro ⟨hall, hlen⟩
    refine ⟨_, strPairs s, strPairs_flat s hlen, ?_, rfl⟩
    intro p hp
    have := strPairs_mem s p hp
    exact ⟨hall _ this.1, hall _ this.2⟩
  · rintro ⟨n, ps, rfl, hps, -⟩
    refine ⟨flatPairs_all ps hps, ?_⟩
    rw [flatPairs_length]; omega

theorem hex_len (s : Str) (n : Nat) (h : HexLex s n) : Val.len? (.atom (.hex s)) = some n := by
  obtain ⟨ps, rfl, -, rfl⟩ := h
  simp only [Val.len?, flatPairs_length]
  congr 1; omega

theorem hexUp_idem (s : Str) (h : ∀ c ∈ s, isHex c = true) : hexUp (hexUp s) = hexUp s := by
  induction s with
  | nil => rfl
  | cons c cs ih =>
    simp only [hexUp, List.map_cons] at ih ⊢
    rw [toUpper_idem_hex c (h c (by simp)), ih (fun x hx => h x (by simp [hx]))]

/-- `str(HexBinary)` is the upper-cased literal: it is again a hexBinary literal of the same length,
    and (Python `==` of the model, which compares upper-cased literals) it equals the original -/
theorem hex_roundtrip (de : DtVal → DtVal → Bool) (s : Str) (h : hexOk s = true) :
    hexOk (hexUp s) = true ∧ AVal.pyEq de (.hex (hexUp s)) (.hex s) = true ∧
    Val.len? (.atom (.hex (hexUp s))) = Val.len? (.atom (.hex s)) := by
  obtain ⟨hall, hlen⟩ := (hexOk_spec s).mp h
  refine ⟨?_, ?_, ?_⟩
  · rw [hexOk_spec]
    refine ⟨?_, by simpa [hexUp] using hlen⟩
    intro c hc
    simp only [hexUp, List.mem_map] at hc
    obtain ⟨x, hx, rfl⟩ := hc
    exact isHex_toUpper x (hall x hx)
  · simp only [AVal.pyEq, hexUp_idem s hall, beq_self_eq_true]
  · simp [Val.len?, hexUp]

theorem hexOctets_flat (p : Char × Char) (r : Str) :
    hexOctets (p.1 :: p.2 :: r) = (16 * hexVal p.1 + hexVal p.2) :: hexOctets r := rfl

theorem hex_eq_pairs (pa pb : List (Char × Char))
    (ha : ∀ p ∈ pa, isHex p.1 = true ∧ isHex p.2 = true)
    (hb : ∀ p ∈ pb, isHex p.1 = true ∧ isHex p.2 = true) :
    hexUp (pa.flatMap (fun p => [p.1, p.2])) = hexUp (pb.flatMap (fun p => [p.1, p.2])) ↔
    hexOctets (pa.flatMap (fun p => [p.1, p.2])) = hexOctets (pb.flatMap (fun p => [p.1, p.2])) := by
  induction pa generalizing pb with
  | nil =>
    cases pb with
    | nil => simp
    | cons q qs => simp [hexUp, hexOctets]
  | cons p ps ih =>
    cases pb with
    | nil => simp [hexUp, hexOctets]
    | cons q qs =>
      have hp := ha p (by simp)
      have hq := hb q (by simp)
      have ih' := ih qs (fun x hx => ha x (by simp [hx])) (fun x hx => hb x (by simp [hx]))
      simp only [List.flatMap_cons, List.cons_append, List.nil_append, hexOctets_flat]
      simp only [hexUp, List.map_cons, List.cons.injEq] at ih' ⊢
      rw [ih', toUpper_eq_iff_hexVal _ _ hp.1 hq.1, toUpper_eq_iff_hexVal _ _ hp.2 hq.2]
      have l1 := hexVal_lt _ hp.1
      have l2 := hexVal_lt _ hp.2
      have l3 := hexVal_lt _ hq.1
      have l4 := hexVal_lt _ hq.2
      constructor
      · rintro ⟨e1, e2, e3⟩; rw [e1, e2, e3]; exact ⟨rfl, rfl⟩
      · rintro ⟨e1, e3⟩; exact ⟨by omega, by omega, e3⟩

/-- the model's equality of hexBinary values (upper-cased literals) is equality of the octet sequences
    (Python compares `decode()`) -/
theorem hex_eq_iff_octets (a b : Str) (ha : hexOk a = true) (hb : hexOk b = true) :
    hexUp a = hexUp b ↔ hexOctets a = hexOctets b := by
  obtain ⟨_, pa, rfl, hpa, -⟩ := (hexOk_iff a).mp ha
  obtain ⟨_, pb, rfl, hpb, -⟩ := (hexOk_iff b).mp hb
  exact hex_eq_pairs pa pb hpa hpb

theorem hexOctets_length (s : Str) (h : hexOk s = true) :
    (hexOctets s).length = s.length / 2 ∧ ∀ o ∈ hexOctets s, o < 256 := by
  obtain ⟨_, ps, rfl, hps, -⟩ := (hexOk_iff s).mp h
  clear h
  induction ps with
  | nil => simp [hexOctets]
  | cons p ps ih =>
    have hp := hps p (by simp)
    have ih' := ih (fun x hx => hps x (by simp [hx]))
    simp only [List.flatMap_cons, List.cons_append, List.nil_append, hexOctets_flat,
      List.length_cons, List.mem_cons]
    refine ⟨by omega, ?_⟩
    intro o ho
    rcases ho with rfl | ho
    · have l1 := hexVal_lt _ hp.1
      have l2 := hexVal_lt _ hp.2
      omega
    · exact ih'.2 o ho

/-! ## xs:base64Binary -/

/-- xs:base64Binary lexical space on a text without blanks (XSD Part 2 §3.2.16):
    ((B64 B64 B64 B64)* (B64 B64 B64 B64 | B64 B64 B16 '=' | B64 B04 '=' '='))?  with the number of octets -/
def B64Quad (q : Str) : Prop :=
  ∃ a b c d, q = [a, b, c, d] ∧ isB64 a = true ∧ isB64 b = true ∧ isB64 c = true ∧ isB64 d = true
def B64Final (q : Str) (k : Nat) : Prop :=
  ∃ a b c d, q = [a, b, c, d] ∧ isB64 a = true ∧
    ((isB64 b = true ∧ isB64 c = true ∧ isB64 d = true ∧ k = 3) ∨
     (isB64 b = true ∧ c ∈ "AEIMQUYcgkosw048".toList ∧ d = '=' ∧ k = 2) ∨
     (b ∈ "AQgw".toList ∧ c = '=' ∧ d = '=' ∧ k = 1))
def B64Lex (t : Str) (n : Nat) : Prop :=
  (t = [] ∧ n = 0) ∨
  ∃ (qs : List Str) (fin : Str) (k : Nat), t = qs.flatten ++ fin ∧ (∀ q ∈ qs, B64Quad q) ∧ B64Final fin k ∧
    n = 3 * qs.length + k

theorem isB64_ne_eq (c : Char) (h : isB64 c = true) : c ≠ '=' := by
  intro h'; subst h'; revert h; decide

theorem b16_ne_eq (c : Char) (h : c ∈ "AEIMQUYcgkosw048".toList) : c ≠ '=' := by
  intro h'; subst h'; revert h; decide

/-- the check of the final quantum in `b64Groups` -/
theorem b64Final_iff (a b c d : Char) :
    ((isB64 a && isB64 b && isB64 c && isB64 d) ||
     (isB64 a && isB64 b && "AEIMQUYcgkosw048".toList.contains c && d == '=') ||
     (isB64 a && "AQgw".toList.contains b && c == '=' && d == '=')) = true ↔
    ∃ k, B64Final [a, b, c, d] k := by
  constructor
  · intro h
    simp only [Bool.or_eq_true, Bool.and_eq_true, List.contains_iff_mem, beq_iff_eq] at h
    rcases h with (⟨⟨⟨h1, h2⟩, h3⟩, h4⟩ | ⟨⟨⟨h1, h2⟩, h3⟩, h4⟩) | ⟨⟨⟨h1, h2⟩, h3⟩, h4⟩
    · exact ⟨3, a, b, c, d, rfl, h1, Or.inl ⟨h2, h3, h4, rfl⟩⟩
    · exact ⟨2, a, b, c, d, rfl, h1, Or.inr (Or.inl ⟨h2, h3, h4, rfl⟩)⟩
    · exact ⟨1, a, b, c, d, rfl, h1, Or.inr (Or.inr ⟨h2, h3, h4, rfl⟩)⟩
  · rintro ⟨k, a', b', c', d', heq, h1, h⟩
    simp only [List.cons.injEq, and_true] at heq
    obtain ⟨rfl, rfl, rfl, rfl⟩ := heq
    simp only [Bool.or_eq_true, Bool.and_eq_true, List.contains_iff_mem, beq_iff_eq]
    rcases h with ⟨h2, h3, h4, -⟩ | ⟨h2, h3, h4, -⟩ | ⟨h2, h3, h4, -⟩
    · exact Or.inl (Or.inl ⟨⟨⟨h1, h2⟩, h3⟩, h4⟩)
    · exact Or.inl (Or.inr ⟨⟨⟨h1, h2⟩, h3⟩, h4⟩)
    · exact Or.inr ⟨⟨⟨h1, h2⟩, h3⟩, h4⟩

/-- non-empty part of `B64Lex`, without the octet count -/
def B64Shape (t : Str) : Prop :=
  ∃ (qs : List Str) (fin : Str) (k : Nat), t = qs.flatten ++ fin ∧ (∀ q ∈ qs, B64Quad q) ∧ B64Final fin k

theorem b64Groups_sound (fuel : Nat) (t : Str) (h : b64Groups fuel t = true) : B64Shape t := by
  induction fuel generalizing t with
  | zero =>
    match t, h with
    | [a, b, c, d], h =>
      simp only [b64Groups] at h
      obtain ⟨k, hk⟩ := (b64Final_iff a b c d).mp h
      exact ⟨[], _, k, rfl, by simp, hk⟩
    | [], h => simp [b64Groups] at h
    | [_], h => simp [b64Groups] at h
    | [_, _], h => simp [b64Groups] at h
    | [_, _, _], h => simp [b64Groups] at h
    | _ :: _ :: _ :: _ :: _ :: _, h => simp [b64Groups] at h
  | succ f ih =>
    match t, h with
    | [a, b, c, d], h =>
      simp only [b64Groups] at h
      obtain ⟨k, hk⟩ := (b64Final_iff a b c d).mp h
      exact ⟨[], _, k, rfl, by simp, hk⟩
    | [], h => simp [b64Groups] at h
    | [_], h => simp [b64Groups] at h
    | [_, _], h => simp [b64Groups] at h
    | [_, _, _], h => simp [b64Groups] at h
    | a :: b :: c :: d :: e :: r, h =>
      simp only [b64Groups, Bool.and_eq_true] at h
      obtain ⟨⟨⟨⟨h1, h2⟩, h3⟩, h4⟩, h5⟩ := h
      obtain ⟨qs, fin, k, heq, hqs, hfin⟩ := ih _ h5
      refine ⟨[a, b, c, d] :: qs, fin, k, ?_, ?_, hfin⟩
      · simp [heq]
      · intro q hq
        rcases List.mem_cons.mp hq with rfl | hq
        · exact ⟨a, b, c, d, rfl, h1, h2, h3, h4⟩
        · exact hqs q hq

theorem b64Final_length {fin : Str} {k : Nat} (h : B64Final fin k) : fin.length = 4 := by
  obtain ⟨a, b, c, d, rfl, -⟩ := h; rfl

theorem b64Quads_length (qs : List Str) (h : ∀ q ∈ qs, B64Quad q) : qs.flatten.length = 4 * qs.length := by
  induction qs with
  | nil => rfl
  | cons q qs ih =>
    obtain ⟨a, b, c, d, rfl, -⟩ := h q (by simp)
    have := ih (fun x hx => h x (by simp [hx]))
    simp only [List.flatten_cons, List.length_append, List.length_cons, List.length_nil, this]
    omega

theorem b64Groups_complete (qs : List Str) (fin : Str) (k : Nat) (hqs : ∀ q ∈ qs, B64Quad q)
    (hfin : B64Final fin k) (fuel : Nat) (hf : qs.length ≤ fuel) :
    b64Groups fuel (qs.flatten ++ fin) = true := by
  induction qs generalizing fuel with
  | nil =>
    have hk : ∃ k, B64Final fin k := ⟨k, hfin⟩
    obtain ⟨a, b, c, d, rfl, -⟩ := hfin
    simp only [List.flatten_nil, List.nil_append]
    cases fuel <;> (simp only [b64Groups]; exact (b64Final_iff a b c d).mpr hk)
  | cons q qs ih =>
    obtain ⟨a, b, c, d, rfl, h1, h2, h3, h4⟩ := hqs q (by simp)
    have hqs' : ∀ x ∈ qs, B64Quad x := fun x hx => hqs x (by simp [hx])
    have hlen : (qs.flatten ++ fin).length ≠ 0 := by
      rw [List.length_append, b64Final_length hfin]; omega
    cases fuel with
    | zero => simp at hf
    | succ f =>
      have ih' := ih hqs' f (by simpa using hf)
      simp only [List.flatten_cons, List.cons_append, List.nil_append]
      generalize qs.flatten ++ fin = rest at ih' hlen
      match rest, hlen with
      | e :: r, _ =>
        simp only [b64Groups, h1, h2, h3, h4, Bool.true_and]
        exact ih'

theorem b64Groups_iff (t : Str) : b64Groups t.length t = true ↔ B64Shape t := by
  constructor
  · exact b64Groups_sound _ t
  · rintro ⟨qs, fin, k, rfl, hqs, hfin⟩
    apply b64Groups_complete qs fin k hqs hfin
    rw [List.length_append, b64Quads_length qs hqs]; omega

theorem b64Lex_iff (t : Str) : (∃ n, B64Lex t n) ↔ (t = [] ∨ B64Shape t) := by
  constructor
  · rintro ⟨n, ⟨rfl, -⟩ | ⟨qs, fin, k, h1, h2, h3, -⟩⟩
    · exact Or.inl rfl
    · exact Or.inr ⟨qs, fin, k, h1, h2, h3⟩
  · rintro (rfl | ⟨qs, fin, k, h1, h2, h3⟩)
    · exact ⟨0, Or.inl ⟨rfl, rfl⟩⟩
    · exact ⟨_, Or.inr ⟨qs, fin, k, h1, h2, h3, rfl⟩⟩

theorem b64Shape_ne_nil {t : Str} (h : B64Shape t) : t ≠ [] := by
  obtain ⟨qs, fin, k, rfl, -, hfin⟩ := h
  intro h0
  have := congrArg List.length h0
  rw [List.length_append, b64Final_length hfin] at this
  simp at this

/-- `Base64Binary(value)` accepts exactly the base64Binary literals (blanks removed) -/
theorem parseB64_iff (s t : Str) :
    parseB64 s = some t ↔ (t = s.filter (· != ' ') ∧ ∃ n, B64Lex t n) := by
  rw [b64Lex_iff]
  unfold parseB64
  simp only
  generalize s.filter (· != ' ') = u
  by_cases hu : u = []
  · subst hu
    simp only [List.isEmpty_nil, if_true, Option.some.injEq]
    constructor
    · intro h; exact ⟨h.symm, Or.inl h.symm⟩
    · intro h; exact h.1.symm
  · have hne : u.isEmpty = false := by cases u <;> simp_all
    simp only [hne, Bool.false_eq_true, if_false]
    by_cases hg : b64Groups u.length u = true
    · simp only [hg, if_true, Option.some.injEq]
      constructor
      · intro h; subst h; exact ⟨rfl, Or.inr ((b64Groups_iff u).mp hg)⟩
      · intro h; exact h.1.symm
    · simp only [hg, Bool.false_eq_true, if_false]
      constructor
      · intro h; cases h
      · rintro ⟨rfl, h | h⟩
        · exact absurd h hu
        · exact absurd ((b64Groups_iff _).mpr h) hg

/-- `len()` of a Base64Binary (the length facets) is the number of octets of the literal -/
theorem b64_len (t : Str) (n : Nat) (h : B64Lex t n) : b64Len t = n := by
  rcases h with ⟨rfl, rfl⟩ | ⟨qs, fin, k, rfl, hqs, hfin, rfl⟩
  · rfl
  · have hl := b64Quads_length qs hqs
    obtain ⟨a, b, c, d, rfl, h1, h⟩ := hfin
    have hlen : (qs.flatten ++ [a, b, c, d]).length = 4 * qs.length + 4 := by
      simp [hl]
    have hrev : (qs.flatten ++ [a, b, c, d]).reverse = d :: c :: b :: a :: qs.flatten.reverse := by
      simp
    unfold b64Len
    simp only [hlen, hrev, List.drop_succ_cons, List.drop_zero, List.head?_cons, Option.map_some,
      Option.getD_some, beq_iff_eq]
    have hz : ¬ (4 * qs.length + 4 = 0) := by omega
    have hdiv : (4 * qs.length + 4) / 4 * 3 = 3 * qs.length + 3 := by omega
    rw [if_neg hz, hdiv]
    rcases h with ⟨h2, h3, h4, rfl⟩ | ⟨h2, h3, rfl, rfl⟩ | ⟨h2, rfl, rfl, rfl⟩
    · rw [if_neg (isB64_ne_eq c h3), if_neg (isB64_ne_eq d h4)]
    · rw [if_neg (b16_ne_eq c h3), if_pos rfl]; omega
    · rw [if_pos rfl]; omega

/-- `str(Base64Binary)` is the stored literal; decoding it again gives the same value -/
theorem b64_roundtrip (s t : Str) (h : parseB64 s = some t) : parseB64 t = some t := by
  obtain ⟨ht, hn⟩ := (parseB64_iff s t).mp h
  refine (parseB64_iff t t).mpr ⟨?_, hn⟩
  rw [ht, List.filter_filter]
  simp

end XsVerif.Datatypes
