/-
  C01/C05 (deepening): the encoder's child loop and the validator's child loop agree whenever the
  validator reports no error — the converse of Props/C05Encode.lean `step_simulation`.
-/
import XsVerif.Props.C01
import XsVerif.Props.C05Encode

namespace XsVerif.CM
open XsVerif.Wildcard XsVerif.Props.C01 XsVerif.Props.C05

/-- **One step, converse direction**: when the validator's loop reports nothing for a child (and the
    model is not yet broken), the encoder's loop does exactly the same thing with that name. -/
theorem step_simulation_conv (A : Arena) (oc : OC) (n root i : Nat) (q : QN) :
    ∀ (fuel : Nat) (ls : LoopSt), ls.broken = false → ls.errors = [] →
      (childStep A oc n root i q fuel ls).errors = [] →
      encStep A oc root i q fuel ls = childStep A oc n root i q fuel ls ∧
        (childStep A oc n root i q fuel ls).broken = false := by
  intro fuel
  induction fuel with
  | zero =>
    intro ls _ _ h
    unfold childStep at h
    simp at h
  | succ f ih =>
    intro ls hb he h
    unfold childStep at h ⊢
    unfold encStep
    simp only at h ⊢
    split
    · -- the model has ended: the validator always reports an error when not broken
      rename_i hel
      simp only [hel] at h
      split at h
      · simp at h
      · simp [hb] at h
    · rename_i e hel
      simp only [hel] at h
      split
      · rename_i hm
        simp only [hm, if_true] at h
        split <;> rename_i s errs hadv <;> simp only [hadv] at h ⊢ <;> exact ⟨trivial, hb⟩
      · rename_i hm
        simp only [hm, Bool.false_eq_true, if_false] at h
        split <;> rename_i s errs hadv <;> simp only [hadv] at h ⊢
        all_goals
          cases errs with
          | cons e t => simp at h
          | nil =>
            simp only [List.map_nil, List.append_nil] at h ⊢
            exact ih { ls with s := s } hb he h

theorem childStep_fold_extends (A : Arena) (oc : OC) (n root fuel : Nat) :
    ∀ (l : List (QN × Nat)) (ls : LoopSt),
      ∃ u, (l.foldl (fun ls (x : QN × Nat) => childStep A oc n root x.2 x.1 fuel ls) ls).errors = ls.errors ++ u := by
  intro l
  induction l with
  | nil => intro ls; exact ⟨[], by simp⟩
  | cons y t ih =>
    intro ls
    simp only [List.foldl_cons]
    obtain ⟨u, hu⟩ := ih (childStep A oc n root y.2 y.1 fuel ls)
    obtain ⟨v, hv⟩ := childStep_extends A oc n root y.2 y.1 fuel ls
    exact ⟨v ++ u, by rw [hu, hv, List.append_assoc]⟩

/-- the whole child loop, converse direction -/
theorem loop_simulation_conv (A : Arena) (oc : OC) (n root fuel : Nat) :
    ∀ (l : List (QN × Nat)) (ls : LoopSt), ls.broken = false → ls.errors = [] →
      (l.foldl (fun ls (x : QN × Nat) => childStep A oc n root x.2 x.1 fuel ls) ls).errors = [] →
      l.foldl (fun ls (x : QN × Nat) => encStep A oc root x.2 x.1 fuel ls) ls =
        l.foldl (fun ls (x : QN × Nat) => childStep A oc n root x.2 x.1 fuel ls) ls := by
  intro l
  induction l with
  | nil => intro ls _ _ _; rfl
  | cons x t ih =>
    intro ls hb he h
    simp only [List.foldl_cons] at h ⊢
    obtain ⟨u, hu⟩ := childStep_fold_extends A oc n root fuel t (childStep A oc n root x.2 x.1 fuel ls)
    rw [hu] at h
    have h1 : (childStep A oc n root x.2 x.1 fuel ls).errors = [] := (List.append_eq_nil_iff.mp h).1
    obtain ⟨e, hb'⟩ := step_simulation_conv A oc n root x.2 x.1 fuel ls hb he h1
    rw [e]
    exact ih _ hb' h1 (by rw [hu]; exact h)

end XsVerif.CM
