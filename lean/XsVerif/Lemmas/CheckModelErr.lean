/-
  C15: where an error of the port of `check_model` comes from.  Every error is the verdict `pairErr` of
  one visited particle against one earlier visited particle (`outer_err_mem`); an EDC error means that
  `is_consistent` failed for that pair (`pairErr_edc`).
-/
import XsVerif.Lemmas.CheckModelSeq

namespace XsVerif.CM
open XsVerif.Wildcard

variable (M : Ctx)

theorem upaStep_not_edc (e : Nat) (cp : List Nat) (pe : Nat) (pp : List Nat) (acc : Acc) (a b : Nat) :
    (M.upaStep e cp pe pp acc).2 ≠ some (.edc a b) := by
  unfold Ctx.upaStep
  rcases stage1_shape M e cp pe pp with ⟨err, h⟩ | h | h
  · rw [h acc]
    have := h acc
    unfold Ctx.stage1 at this
    simp only [] at this
    intro hc
    simp only [Option.some.injEq] at hc
    subst hc
    repeat' split at this
    all_goals simp at this
  · rw [h acc]; simp
  · obtain ⟨a1, h1⟩ := h acc
    rw [h1]
    simp only [stage2_snd, Ctx.stage2Err]
    repeat' split
    all_goals simp

theorem pairErr_edc (e : Nat) (cp : List Nat) (en : Entry) (a b : Nat)
    (h : M.pairErr e cp en = some (.edc a b)) : a = e ∧ b = en.leaf ∧ M.consistent e en.leaf = false := by
  unfold Ctx.pairErr at h
  split at h
  · rename_i hc
    simp only [Option.some.injEq, CMErr.edc.injEq] at h
    exact ⟨h.1.symm, h.2.symm, by simpa using hc⟩
  · split at h
    · cases h
    · exact absurd h (upaStep_not_edc M e cp en.leaf en.path {} a b)

/-- every error of the outer loop is the verdict of a visited particle against an earlier one -/
theorem outer_err_mem : ∀ (l : List (Nat × List Nat)) (d : List Entry) (acc : Acc) (seen : List Nat) (err : CMErr),
    (∀ en ∈ d, en.leaf ∈ seen) → (M.outer l d acc).err = some err →
    ∃ e cp en, (e, cp) ∈ l ∧ en.leaf ∈ seen ++ l.map (·.1) ∧ M.pairErr e cp en = some err := by
  intro l
  induction l with
  | nil => intro d acc seen err _ h; simp [Ctx.outer] at h
  | cons hd rest ih =>
    obtain ⟨e, cp⟩ := hd
    intro d acc seen err hd h
    unfold Ctx.outer at h
    cases hres : M.against e cp d acc with
    | mk acc' o =>
      have hs := against_snd M e cp d acc
      rw [hres] at h hs
      cases o with
      | some err' =>
        simp only [Option.some.injEq] at h
        subst h
        obtain ⟨en, hen, hp⟩ := List.exists_of_findSome?_eq_some hs.symm
        exact ⟨e, cp, en, by simp, by simp [hd en hen], hp⟩
      | none =>
        simp only [] at h
        obtain ⟨e2, cp2, en, hm, hl, hp⟩ := ih _ acc' (seen ++ [e]) err (by
          intro en hen
          rcases (mem_dictSet _ _ _).mp hen with rfl | ⟨hen, _⟩
          · simp
          · simp [hd en hen]) h
        exact ⟨e2, cp2, en, by simp [hm], by simpa [List.append_assoc] using hl, hp⟩

/-- an EDC error of `check_model` names two visited particles for which `is_consistent` is false -/
theorem checkModel_edc_pair (p : Particle) (e pe : Nat) (h : (M.checkModel p).err = some (.edc e pe)) :
    e ∈ (M.visited p).map (·.1) ∧ pe ∈ (M.visited p).map (·.1) ∧ M.consistent e pe = false := by
  obtain ⟨e', cp, en, hm, hl, hp⟩ := outer_err_mem M (M.visited p) [] {} [] _ (fun en hen => nomatch hen) h
  obtain ⟨rfl, rfl, hc⟩ := pairErr_edc M e' cp en _ _ hp
  exact ⟨List.mem_map.mpr ⟨_, hm, rfl⟩, by simpa using hl, hc⟩

theorem upaStep_err_pair (e : Nat) (cp : List Nat) (pe : Nat) (pp : List Nat) (acc : Acc) (err : CMErr)
    (h : (M.upaStep e cp pe pp acc).2 = some err) : err = .sameGroup pe e ∨ err = .upa pe e := by
  unfold Ctx.upaStep at h
  rcases stage1_shape M e cp pe pp with ⟨err', h1⟩ | h1 | h1
  · rw [h1 acc] at h
    have := h1 acc
    unfold Ctx.stage1 at this
    simp only [] at this
    simp only [Option.some.injEq] at h
    subst h
    repeat' split at this
    all_goals simp at this
    all_goals exact .inl this.symm
  · rw [h1 acc] at h; simp at h
  · obtain ⟨a1, h2⟩ := h1 acc
    rw [h2] at h
    simp only [stage2_snd, Ctx.stage2Err] at h
    repeat' split at h
    all_goals simp at h
    all_goals exact .inr h.symm

/-- a UPA error (either message) of `check_model` names two visited particles — two different objects
    unless the shared-group repair is in the tree, where one object can sit at two places — for which
    `is_overlap` is true and `is_consistent` is true -/
theorem checkModel_upa_pair (p : Particle) (pe e : Nat)
    (h : (M.checkModel p).err = some (.upa pe e) ∨ (M.checkModel p).err = some (.sameGroup pe e)) :
    pe ∈ (M.visited p).map (·.1) ∧ e ∈ (M.visited p).map (·.1) ∧ (M.fx.shared = false → pe ≠ e) ∧
      M.overlap pe e = true ∧
      M.consistent e pe = true := by
  have key : ∀ err, (M.checkModel p).err = some err → (err = .upa pe e ∨ err = .sameGroup pe e) →
      pe ∈ (M.visited p).map (·.1) ∧ e ∈ (M.visited p).map (·.1) ∧ (M.fx.shared = false → pe ≠ e) ∧
      M.overlap pe e = true ∧
        M.consistent e pe = true := by
    intro err herr hk
    obtain ⟨e', cp, en, hm, hl, hp⟩ := outer_err_mem M (M.visited p) [] {} [] _ (fun en hen => nomatch hen) herr
    unfold Ctx.pairErr at hp
    split at hp
    · simp only [Option.some.injEq] at hp
      subst hp
      rcases hk with hk | hk <;> cases hk
    · rename_i hc
      split at hp
      · cases hp
      · rename_i hov
        have hpair := upaStep_err_pair M e' cp en.leaf en.path {} err hp
        have hids : en.leaf = pe ∧ e' = e := by
          rcases hpair with rfl | rfl <;> rcases hk with hk | hk <;> cases hk <;> exact ⟨rfl, rfl⟩
        obtain ⟨rfl, rfl⟩ := hids
        simp only [Bool.or_eq_true, Bool.and_eq_true, Bool.not_eq_true', not_or, Bool.not_eq_false, beq_iff_eq,
          not_and] at hov
        exact ⟨by simpa using hl, List.mem_map.mpr ⟨_, hm, rfl⟩, hov.1, hov.2, by simpa using hc⟩
  rcases h with h | h
  · exact key _ h (.inl rfl)
  · exact key _ h (.inr rfl)

end XsVerif.CM
