/-
  Helper lemmas for the statement-level model of xsi:type widening (Model/ThreadsWiden.lean).
-/
import XsVerif.Model.ThreadsWiden
import XsVerif.Lemmas.Threads

namespace XsVerif.Threads.XW
open XsVerif.Threads

/-! ### sets of facts -/

theorem mem_add (f g : Fact) (s : Sh) : f ∈ add g s ↔ f ∈ s ∨ f = g := by
  unfold add
  split
  · rename_i h
    have hg : g ∈ s := by simpa using h
    constructor
    · intro h; exact Or.inl h
    · intro h; rcases h with h | h
      · exact h
      · subst h; exact hg
  · simp

theorem sub_add (f g : Fact) (s : Sh) (h : f ∈ s) : f ∈ add g s := (mem_add f g s).2 (Or.inl h)

theorem self_add (g : Fact) (s : Sh) : g ∈ add g s := (mem_add g g s).2 (Or.inr rfl)

theorem mem_selOf (s : Sh) (e : El) (i : Idn) : i ∈ selOf s e ↔ Fact.selBy e i ∈ s := by
  unfold selOf
  rw [List.mem_filterMap]
  constructor
  · rintro ⟨f, hf, h⟩
    cases f with
    | xsi p => simp at h
    | elem j e' => simp at h
    | selBy e' j =>
      simp only at h
      split at h
      · rename_i he; subst he; simp only [Option.some.injEq] at h; subst h; exact hf
      · simp at h
  · intro h
    exact ⟨_, h, by simp⟩

/-- `s ⊆ s'` -/
def Sub (s s' : Sh) : Prop := ∀ f, f ∈ s → f ∈ s'

theorem Sub.refl (s : Sh) : Sub s s := fun _ h => h
theorem Sub.add (g : Fact) (s : Sh) : Sub s (add g s) := fun f h => sub_add f g s h

/-! ### A. lower bound: whatever a thread's own walk has widened is seen by that thread -/

def Bound (sch : Sch) (s : Sh) (p : Pair) : Prop :=
  ∀ e, e ∈ sch.sel p → Fact.selBy e (sch.idOf p) ∈ s ∧ Fact.elem (sch.idOf p) e ∈ s

def Closed (sch : Sch) (s : Sh) : Prop := ∀ p, Fact.xsi p ∈ s → Bound sch s p

def PcOk (sch : Sch) (s : Sh) (seen : List Pair) : PC → Prop
  | .loopRd p rest => ∀ e, e ∈ sch.sel p →
      e ∈ rest ∨ (Fact.selBy e (sch.idOf p) ∈ s ∧ Fact.elem (sch.idOf p) e ∈ s)
  | .loopSet p e rest => ∀ e', e' ∈ sch.sel p →
      e' = e ∨ e' ∈ rest ∨ (Fact.selBy e' (sch.idOf p) ∈ s ∧ Fact.elem (sch.idOf p) e' ∈ s)
  | .loopAdd p e rest => Fact.elem (sch.idOf p) e ∈ s ∧ ∀ e', e' ∈ sch.sel p →
      e' = e ∨ e' ∈ rest ∨ (Fact.selBy e' (sch.idOf p) ∈ s ∧ Fact.elem (sch.idOf p) e' ∈ s)
  | .pub p => Bound sch s p
  | .cIter e _ todo done => ∀ p, p ∈ seen → e ∈ sch.sel p → sch.idOf p ∈ done ∨ sch.idOf p ∈ todo
  | .chk p ord => ∀ e, e ∈ sch.sel p → e ∈ ord
  | _ => True

structure ThOk (sch : Sch) (s : Sh) (th : Th) : Prop where
  tasks : ∀ p ord, Task.widen p ord ∈ th.tasks → ∀ e, e ∈ sch.sel p → e ∈ ord
  seen : ∀ p, p ∈ th.seen → Fact.xsi p ∈ s ∧ Bound sch s p
  pc : PcOk sch s th.seen th.pc
  obs : ∀ o, o ∈ th.obs → ∀ p, p ∈ o.seen → o.e ∈ sch.sel p → sch.idOf p ∈ o.ids

theorem Bound.mono {sch : Sch} {s s' : Sh} (h : Sub s s') {p : Pair} (hb : Bound sch s p) : Bound sch s' p :=
  fun e he => ⟨h _ (hb e he).1, h _ (hb e he).2⟩

theorem PcOk.mono {sch : Sch} {s s' : Sh} (h : Sub s s') {seen : List Pair} {pc : PC}
    (hp : PcOk sch s seen pc) : PcOk sch s' seen pc := by
  cases pc with
  | loopRd p rest =>
    intro e he; rcases hp e he with h1 | h1
    · exact Or.inl h1
    · exact Or.inr ⟨h _ h1.1, h _ h1.2⟩
  | loopSet p e rest =>
    intro e' he; rcases hp e' he with h1 | h1 | h1
    · exact Or.inl h1
    · exact Or.inr (Or.inl h1)
    · exact Or.inr (Or.inr ⟨h _ h1.1, h _ h1.2⟩)
  | loopAdd p e rest =>
    refine ⟨h _ hp.1, ?_⟩
    intro e' he; rcases hp.2 e' he with h1 | h1 | h1
    · exact Or.inl h1
    · exact Or.inr (Or.inl h1)
    · exact Or.inr (Or.inr ⟨h _ h1.1, h _ h1.2⟩)
  | pub p => exact Bound.mono h hp
  | cIter e n todo done => exact hp
  | idle => trivial
  | chk p ord => exact hp
  | cRd e => trivial
  | cIterNew e => trivial
  | err => trivial

theorem ThOk.mono {sch : Sch} {s s' : Sh} (h : Sub s s') {th : Th} (ht : ThOk sch s th) : ThOk sch s' th :=
  ⟨ht.tasks, fun p hp => ⟨h _ (ht.seen p hp).1, Bound.mono h (ht.seen p hp).2⟩, PcOk.mono h ht.pc, ht.obs⟩

/-- the shared state only grows -/
theorem stepTh_sub (sch : Sch) (v : Variant) (s : Sh) (th : Th) : Sub s (stepTh sch v s th).1 := by
  unfold stepTh
  split
  · split <;> exact Sub.refl s
  · split <;> exact Sub.refl s
  · exact Sub.refl s
  · split <;> exact Sub.refl s
  · exact Sub.add _ s
  · exact Sub.add _ s
  · exact Sub.add _ s
  · split <;> exact Sub.refl s
  · exact Sub.refl s
  · split
    · exact Sub.refl s
    · split <;> exact Sub.refl s
  · exact Sub.refl s

theorem stepTh_ok (sch : Sch) (v : Variant) (hv : v.addInside = false) (s : Sh) (th : Th)
    (hc : Closed sch s) (ht : ThOk sch s th) :
    Closed sch (stepTh sch v s th).1 ∧ ThOk sch (stepTh sch v s th).1 (stepTh sch v s th).2 := by
  obtain ⟨htasks, hseen, hpc, hobs⟩ := ht
  unfold stepTh
  split
  · -- idle
    split
    · exact ⟨hc, ⟨htasks, hseen, hpc, hobs⟩⟩
    · rename_i p ord ts hts
      rw [hts] at htasks
      exact ⟨hc, ⟨fun q o hq => htasks q o (List.mem_cons_of_mem _ hq), hseen,
        htasks p ord (List.mem_cons_self ..), hobs⟩⟩
    · rename_i e ts hts
      rw [hts] at htasks
      exact ⟨hc, ⟨fun q o hq => htasks q o (List.mem_cons_of_mem _ hq), hseen, trivial, hobs⟩⟩
  · -- chk
    rename_i p ord hp
    rw [hp] at hpc
    split
    · rename_i hin
      have hx : Fact.xsi p ∈ s := by simpa using hin
      refine ⟨hc, ⟨htasks, ?_, trivial, hobs⟩⟩
      intro q hq
      simp only [List.mem_cons] at hq
      rcases hq with rfl | hq
      · exact ⟨hx, hc _ hx⟩
      · exact hseen q hq
    · refine ⟨hc, ⟨htasks, hseen, ?_, hobs⟩⟩
      intro e he; exact Or.inl (hpc e he)
  · -- loopRd []
    rename_i p hp
    rw [hp] at hpc
    refine ⟨hc, ⟨htasks, hseen, ?_, hobs⟩⟩
    intro e he
    rcases hpc e he with h | h
    · simp at h
    · exact h
  · -- loopRd (e :: rest)
    rename_i p e rest hp
    rw [hp] at hpc
    split
    · rename_i hin
      have hx : Fact.elem (sch.idOf p) e ∈ s := by simpa using hin
      refine ⟨hc, ⟨htasks, hseen, ?_, hobs⟩⟩
      simp only [hv, Bool.false_eq_true, if_false]
      refine ⟨hx, ?_⟩
      intro e' he'
      rcases hpc e' he' with h | h
      · simp only [List.mem_cons] at h
        rcases h with h | h
        · exact Or.inl h
        · exact Or.inr (Or.inl h)
      · exact Or.inr (Or.inr h)
    · refine ⟨hc, ⟨htasks, hseen, ?_, hobs⟩⟩
      intro e' he'
      rcases hpc e' he' with h | h
      · simp only [List.mem_cons] at h
        rcases h with h | h
        · exact Or.inl h
        · exact Or.inr (Or.inl h)
      · exact Or.inr (Or.inr h)
  · -- loopSet
    rename_i p e rest hp
    rw [hp] at hpc
    have hsub := Sub.add (Fact.elem (sch.idOf p) e) s
    refine ⟨?_, ⟨htasks, fun q hq => ⟨hsub _ (hseen q hq).1, Bound.mono hsub (hseen q hq).2⟩, ?_, hobs⟩⟩
    · intro q hq
      rcases (mem_add _ _ _).1 hq with h | h
      · exact Bound.mono hsub (hc q h)
      · cases h
    · refine ⟨self_add _ _, ?_⟩
      intro e' he'
      rcases hpc e' he' with h | h | h
      · exact Or.inl h
      · exact Or.inr (Or.inl h)
      · exact Or.inr (Or.inr ⟨hsub _ h.1, hsub _ h.2⟩)
  · -- loopAdd
    rename_i p e rest hp
    rw [hp] at hpc
    have hsub := Sub.add (Fact.selBy e (sch.idOf p)) s
    refine ⟨?_, ⟨htasks, fun q hq => ⟨hsub _ (hseen q hq).1, Bound.mono hsub (hseen q hq).2⟩, ?_, hobs⟩⟩
    · intro q hq
      rcases (mem_add _ _ _).1 hq with h | h
      · exact Bound.mono hsub (hc q h)
      · cases h
    · intro e' he'
      rcases hpc.2 e' he' with h | h | h
      · subst h; exact Or.inr ⟨self_add _ _, hsub _ hpc.1⟩
      · exact Or.inl h
      · exact Or.inr ⟨hsub _ h.1, hsub _ h.2⟩
  · -- pub
    rename_i p hp
    rw [hp] at hpc
    have hsub := Sub.add (Fact.xsi p) s
    refine ⟨?_, ⟨htasks, ?_, trivial, hobs⟩⟩
    · intro q hq
      rcases (mem_add _ _ _).1 hq with h | h
      · exact Bound.mono hsub (hc q h)
      · cases h; exact Bound.mono hsub hpc
    · intro q hq
      simp only [List.mem_cons] at hq
      rcases hq with rfl | hq
      · exact ⟨self_add _ _, Bound.mono hsub hpc⟩
      · exact ⟨hsub _ (hseen q hq).1, Bound.mono hsub (hseen q hq).2⟩
  · -- cRd
    rename_i e hp
    split
    · rename_i hemp
      refine ⟨hc, ⟨htasks, hseen, trivial, ?_⟩⟩
      intro o ho q hq hsel
      simp only [List.mem_append, List.mem_singleton] at ho
      rcases ho with ho | ho
      · exact hobs o ho q hq hsel
      · subst ho
        simp only at hq hsel
        have hb := ((hseen q hq).2 _ hsel).1
        have : sch.idOf q ∈ selOf s e := (mem_selOf s e _).2 hb
        have hnil : selOf s e = [] := by simpa using hemp
        rw [hnil] at this
        simp at this
    · exact ⟨hc, ⟨htasks, hseen, trivial, hobs⟩⟩
  · -- cIterNew
    rename_i e hp
    refine ⟨hc, ⟨htasks, hseen, ?_, hobs⟩⟩
    intro q hq hsel
    exact Or.inr ((mem_selOf s e _).2 ((hseen q hq).2 _ hsel).1)
  · -- cIter
    rename_i e n todo done hp
    rw [hp] at hpc
    split
    · exact ⟨hc, ⟨htasks, hseen, trivial, hobs⟩⟩
    · split
      · refine ⟨hc, ⟨htasks, hseen, trivial, ?_⟩⟩
        intro o ho q hq hsel
        simp only [List.mem_append, List.mem_singleton] at ho
        rcases ho with ho | ho
        · exact hobs o ho q hq hsel
        · subst ho
          simp only at hq hsel ⊢
          rcases hpc q hq hsel with h | h
          · exact h
          · simp at h
      · rename_i i r
        refine ⟨hc, ⟨htasks, hseen, ?_, hobs⟩⟩
        intro q hq hsel
        rcases hpc q hq hsel with h | h
        · exact Or.inl (List.mem_append_left _ h)
        · simp only [List.mem_cons] at h
          rcases h with h | h
          · exact Or.inl (List.mem_append_right _ (by simp [h]))
          · exact Or.inr h
  · -- err
    exact ⟨hc, ⟨htasks, hseen, hpc, hobs⟩⟩

structure CInv (sch : Sch) (c : Cfg) : Prop where
  closed : Closed sch c.sh
  ths : ∀ t, ThOk sch c.sh (c.th t)

theorem cinv_step (sch : Sch) (v : Variant) (hv : v.addInside = false) (t : Nat) (c : Cfg)
    (h : CInv sch c) : CInv sch (step sch v t c) := by
  have h1 := stepTh_ok sch v hv c.sh (c.th t) h.closed (h.ths t)
  have hs := stepTh_sub sch v c.sh (c.th t)
  refine ⟨h1.1, ?_⟩
  intro x
  by_cases hx : x = t
  · subst hx; simp only [step, upd_same]; exact h1.2
  · simp only [step, upd_other _ _ _ _ hx]; exact ThOk.mono hs (h.ths x)

theorem cinv_exec (sch : Sch) (v : Variant) (hv : v.addInside = false) (sched : List Nat) :
    ∀ c, CInv sch c → CInv sch (exec sch v sched c) := by
  induction sched with
  | nil => intro c h; exact h
  | cons t ts ih => intro c h; exact ih _ (cinv_step sch v hv t c h)

theorem cinv_init (sch : Sch) (s₀ : Sh) (h₀ : Closed sch s₀) (prog : Nat → List Task) (hw : WF sch prog) :
    CInv sch (init s₀ prog) :=
  ⟨h₀, fun t => ⟨fun p ord hp e he => (hw t p ord hp e).2 he, by simp [init, initTh], trivial, by simp [init, initTh]⟩⟩

/-! ### B. upper bound: nothing out of thin air — every fact was there initially or is generated by a pair
        that some thread's program widens -/

def Src (prog : Nat → List Task) (p : Pair) : Prop := ∃ t ord, Task.widen p ord ∈ prog t

def Gen (sch : Sch) (P : Pair → Prop) : Fact → Prop
  | .xsi p => P p
  | .elem i e => ∃ p, P p ∧ sch.idOf p = i ∧ e ∈ sch.sel p
  | .selBy e i => ∃ p, P p ∧ sch.idOf p = i ∧ e ∈ sch.sel p

def PcSrc (sch : Sch) (P : Pair → Prop) : PC → Prop
  | .chk p ord => P p ∧ ∀ e, e ∈ ord → e ∈ sch.sel p
  | .pub p => P p
  | .loopRd p rest => P p ∧ ∀ e, e ∈ rest → e ∈ sch.sel p
  | .loopSet p e rest => P p ∧ e ∈ sch.sel p ∧ ∀ e', e' ∈ rest → e' ∈ sch.sel p
  | .loopAdd p e rest => P p ∧ e ∈ sch.sel p ∧ ∀ e', e' ∈ rest → e' ∈ sch.sel p
  | _ => True

structure UOk (sch : Sch) (P : Pair → Prop) (th : Th) : Prop where
  tasks : ∀ p ord, Task.widen p ord ∈ th.tasks → P p ∧ ∀ e, e ∈ ord → e ∈ sch.sel p
  pc : PcSrc sch P th.pc

def Fed (sch : Sch) (P : Pair → Prop) (s₀ s : Sh) : Prop := ∀ f, f ∈ s → f ∈ s₀ ∨ Gen sch P f

theorem Fed.add {sch : Sch} {P : Pair → Prop} {s₀ s : Sh} (h : Fed sch P s₀ s) (g : Fact) (hg : Gen sch P g) :
    Fed sch P s₀ (add g s) := by
  intro f hf
  rcases (mem_add _ _ _).1 hf with h1 | h1
  · exact h f h1
  · subst h1; exact Or.inr hg

theorem stepTh_fed (sch : Sch) (v : Variant) (P : Pair → Prop) (s₀ s : Sh) (th : Th)
    (hf : Fed sch P s₀ s) (hu : UOk sch P th) :
    Fed sch P s₀ (stepTh sch v s th).1 ∧ UOk sch P (stepTh sch v s th).2 := by
  obtain ⟨htasks, hpc⟩ := hu
  unfold stepTh
  split
  · split
    · exact ⟨hf, ⟨htasks, hpc⟩⟩
    · rename_i p ord ts hts
      rw [hts] at htasks
      exact ⟨hf, ⟨fun q o hq => htasks q o (List.mem_cons_of_mem _ hq), htasks p ord (List.mem_cons_self ..)⟩⟩
    · rename_i e ts hts
      rw [hts] at htasks
      exact ⟨hf, ⟨fun q o hq => htasks q o (List.mem_cons_of_mem _ hq), trivial⟩⟩
  · rename_i p ord hp
    rw [hp] at hpc
    split
    · exact ⟨hf, ⟨htasks, trivial⟩⟩
    · exact ⟨hf, ⟨htasks, hpc⟩⟩
  · rename_i p hp
    rw [hp] at hpc
    exact ⟨hf, ⟨htasks, hpc.1⟩⟩
  · rename_i p e rest hp
    rw [hp] at hpc
    have he : e ∈ sch.sel p := hpc.2 e (List.mem_cons_self ..)
    have hr : ∀ e', e' ∈ rest → e' ∈ sch.sel p := fun e' h => hpc.2 e' (List.mem_cons_of_mem _ h)
    split
    · refine ⟨hf, ⟨htasks, ?_⟩⟩
      cases v.addInside
      · exact ⟨hpc.1, he, hr⟩
      · exact ⟨hpc.1, hr⟩
    · exact ⟨hf, ⟨htasks, ⟨hpc.1, he, hr⟩⟩⟩
  · rename_i p e rest hp
    rw [hp] at hpc
    exact ⟨hf.add _ ⟨p, hpc.1, rfl, hpc.2.1⟩, ⟨htasks, hpc⟩⟩
  · rename_i p e rest hp
    rw [hp] at hpc
    exact ⟨hf.add _ ⟨p, hpc.1, rfl, hpc.2.1⟩, ⟨htasks, ⟨hpc.1, hpc.2.2⟩⟩⟩
  · rename_i p hp
    rw [hp] at hpc
    exact ⟨hf.add _ hpc, ⟨htasks, trivial⟩⟩
  · split
    · exact ⟨hf, ⟨htasks, trivial⟩⟩
    · exact ⟨hf, ⟨htasks, trivial⟩⟩
  · exact ⟨hf, ⟨htasks, trivial⟩⟩
  · split
    · exact ⟨hf, ⟨htasks, trivial⟩⟩
    · split
      · exact ⟨hf, ⟨htasks, trivial⟩⟩
      · exact ⟨hf, ⟨htasks, trivial⟩⟩
  · exact ⟨hf, ⟨htasks, hpc⟩⟩

structure UInv (sch : Sch) (P : Pair → Prop) (s₀ : Sh) (c : Cfg) : Prop where
  fed : Fed sch P s₀ c.sh
  ths : ∀ t, UOk sch P (c.th t)

theorem uinv_step (sch : Sch) (v : Variant) (P : Pair → Prop) (s₀ : Sh) (t : Nat) (c : Cfg)
    (h : UInv sch P s₀ c) : UInv sch P s₀ (step sch v t c) := by
  have h1 := stepTh_fed sch v P s₀ c.sh (c.th t) h.fed (h.ths t)
  refine ⟨h1.1, ?_⟩
  intro x
  by_cases hx : x = t
  · subst hx; simp only [step, upd_same]; exact h1.2
  · simp only [step, upd_other _ _ _ _ hx]; exact h.ths x

theorem uinv_exec (sch : Sch) (v : Variant) (P : Pair → Prop) (s₀ : Sh) (sched : List Nat) :
    ∀ c, UInv sch P s₀ c → UInv sch P s₀ (exec sch v sched c) := by
  induction sched with
  | nil => intro c h; exact h
  | cons t ts ih => intro c h; exact ih _ (uinv_step sch v P s₀ t c h)

theorem uinv_init (sch : Sch) (s₀ : Sh) (prog : Nat → List Task) (hw : WF sch prog) :
    UInv sch (Src prog) s₀ (init s₀ prog) :=
  ⟨fun _ h => Or.inl h, fun t => ⟨fun p ord hp => ⟨⟨t, ord, hp⟩, fun e he => (hw t p ord hp e).1 he⟩, trivial⟩⟩

/-! ### C. completion: a thread never forgets a widening of its program -/

def PcAt (p : Pair) : PC → Prop
  | .chk q _ => q = p
  | .pub q => q = p
  | .loopRd q _ => q = p
  | .loopSet q _ _ => q = p
  | .loopAdd q _ _ => q = p
  | _ => False

def KOk (prog : List Task) (th : Th) : Prop :=
  ∀ p ord, Task.widen p ord ∈ prog → Task.widen p ord ∈ th.tasks ∨ p ∈ th.seen ∨ PcAt p th.pc

theorem stepTh_kok (sch : Sch) (v : Variant) (prog : List Task) (s : Sh) (th : Th) (hk : KOk prog th) :
    KOk prog (stepTh sch v s th).2 := by
  unfold stepTh
  split
  · rename_i hp
    split
    · exact hk
    · rename_i p ord ts hts
      intro q o hq
      rcases hk q o hq with h | h | h
      · rw [hts] at h
        simp only [List.mem_cons] at h
        rcases h with h | h
        · cases h; exact Or.inr (Or.inr rfl)
        · exact Or.inl h
      · exact Or.inr (Or.inl h)
      · rw [hp] at h; exact absurd h (by simp [PcAt])
    · rename_i e ts hts
      intro q o hq
      rcases hk q o hq with h | h | h
      · rw [hts] at h
        simp only [List.mem_cons] at h
        rcases h with h | h
        · cases h
        · exact Or.inl h
      · exact Or.inr (Or.inl h)
      · rw [hp] at h; exact absurd h (by simp [PcAt])
  · rename_i p ord hp
    split
    · intro q o hq
      rcases hk q o hq with h | h | h
      · exact Or.inl h
      · exact Or.inr (Or.inl (List.mem_cons_of_mem _ h))
      · rw [hp] at h; simp only [PcAt] at h; subst h; exact Or.inr (Or.inl (List.mem_cons_self ..))
    · intro q o hq
      rcases hk q o hq with h | h | h
      · exact Or.inl h
      · exact Or.inr (Or.inl h)
      · rw [hp] at h; exact Or.inr (Or.inr h)
  · rename_i p hp
    intro q o hq
    rcases hk q o hq with h | h | h
    · exact Or.inl h
    · exact Or.inr (Or.inl h)
    · rw [hp] at h; exact Or.inr (Or.inr h)
  · rename_i p e rest hp
    have key : ∀ pc' : PC, PcAt p pc' → KOk prog { th with pc := pc' } := by
      intro pc' hpc' q o hq
      rcases hk q o hq with h | h | h
      · exact Or.inl h
      · exact Or.inr (Or.inl h)
      · rw [hp] at h; simp only [PcAt] at h; subst h; exact Or.inr (Or.inr hpc')
    split
    · cases v.addInside
      · exact key _ rfl
      · exact key _ rfl
    · exact key _ rfl
  · rename_i p e rest hp
    intro q o hq
    rcases hk q o hq with h | h | h
    · exact Or.inl h
    · exact Or.inr (Or.inl h)
    · rw [hp] at h; exact Or.inr (Or.inr h)
  · rename_i p e rest hp
    intro q o hq
    rcases hk q o hq with h | h | h
    · exact Or.inl h
    · exact Or.inr (Or.inl h)
    · rw [hp] at h; exact Or.inr (Or.inr h)
  · rename_i p hp
    intro q o hq
    rcases hk q o hq with h | h | h
    · exact Or.inl h
    · exact Or.inr (Or.inl (List.mem_cons_of_mem _ h))
    · rw [hp] at h; simp only [PcAt] at h; subst h; exact Or.inr (Or.inl (List.mem_cons_self ..))
  · rename_i e hp
    have key : ∀ th' : Th, th'.tasks = th.tasks → th'.seen = th.seen → KOk prog th' := by
      intro th' h1 h2 q o hq
      rcases hk q o hq with h | h | h
      · exact Or.inl (h1 ▸ h)
      · exact Or.inr (Or.inl (h2 ▸ h))
      · rw [hp] at h; exact absurd h (by simp [PcAt])
    split
    · exact key _ rfl rfl
    · exact key _ rfl rfl
  · rename_i e hp
    intro q o hq
    rcases hk q o hq with h | h | h
    · exact Or.inl h
    · exact Or.inr (Or.inl h)
    · rw [hp] at h; exact absurd h (by simp [PcAt])
  · rename_i e n todo done hp
    have key : ∀ th' : Th, th'.tasks = th.tasks → th'.seen = th.seen → KOk prog th' := by
      intro th' h1 h2 q o hq
      rcases hk q o hq with h | h | h
      · exact Or.inl (h1 ▸ h)
      · exact Or.inr (Or.inl (h2 ▸ h))
      · rw [hp] at h; exact absurd h (by simp [PcAt])
    split
    · exact key _ rfl rfl
    · split
      · exact key _ rfl rfl
      · exact key _ rfl rfl
  · exact hk

theorem kok_exec (sch : Sch) (v : Variant) (prog : Nat → List Task) (sched : List Nat) :
    ∀ c, (∀ t, KOk (prog t) (c.th t)) → ∀ t, KOk (prog t) ((exec sch v sched c).th t) := by
  induction sched with
  | nil => intro c h; exact h
  | cons u us ih =>
    intro c h
    apply ih
    intro x
    by_cases hx : x = u
    · subst hx; simp only [step, upd_same]; exact stepTh_kok sch v _ _ _ (h x)
    · simp only [step, upd_other _ _ _ _ hx]; exact h x

theorem kok_init (s₀ : Sh) (prog : Nat → List Task) : ∀ t, KOk (prog t) ((init s₀ prog).th t) :=
  fun _ _ _ hp => Or.inl hp

/-! ### D. the snapshot iteration never raises -/

theorem stepTh_noerr (sch : Sch) (v : Variant) (hv : v.live = false) (s : Sh) (th : Th)
    (h : th.pc ≠ .err) : (stepTh sch v s th).2.pc ≠ .err := by
  unfold stepTh
  split
  · split
    · exact h
    · simp
    · simp
  · split <;> simp
  · simp
  · split
    · cases v.addInside <;> simp
    · simp
  · simp
  · simp
  · simp
  · split <;> simp
  · simp
  · simp only [hv, Bool.false_and, Bool.false_eq_true, if_false]
    split <;> simp
  · exact h

theorem noerr_exec (sch : Sch) (v : Variant) (hv : v.live = false) (sched : List Nat) :
    ∀ c, (∀ t, (c.th t).pc ≠ .err) → ∀ t, ((exec sch v sched c).th t).pc ≠ .err := by
  induction sched with
  | nil => intro c h; exact h
  | cons u us ih =>
    intro c h
    apply ih
    intro x
    by_cases hx : x = u
    · subst hx; simp only [step, upd_same]; exact stepTh_noerr sch v hv _ _ (h x)
    · simp only [step, upd_other _ _ _ _ hx]; exact h x

/-! ### E. what a `child` task iterates over: at least the bindings of the build, at most the current set -/

def SPc (s₀ s : Sh) : PC → Prop
  | .cIter e _ todo done =>
      (∀ i, Fact.selBy e i ∈ s₀ → i ∈ done ∨ i ∈ todo) ∧ (∀ i, i ∈ done ∨ i ∈ todo → Fact.selBy e i ∈ s)
  | _ => True

structure SOk (s₀ s : Sh) (th : Th) : Prop where
  pc : SPc s₀ s th.pc
  obs : ∀ o, o ∈ th.obs →
    (∀ i, Fact.selBy o.e i ∈ s₀ → i ∈ o.ids) ∧ (∀ i, i ∈ o.ids → Fact.selBy o.e i ∈ s)

theorem SOk.mono {s₀ s s' : Sh} (h : Sub s s') {th : Th} (ht : SOk s₀ s th) : SOk s₀ s' th := by
  refine ⟨?_, fun o ho => ⟨(ht.obs o ho).1, fun i hi => h _ ((ht.obs o ho).2 i hi)⟩⟩
  have hp := ht.pc
  cases hpc : th.pc with
  | cIter e n todo done =>
    rw [hpc] at hp
    exact ⟨hp.1, fun i hi => h _ (hp.2 i hi)⟩
  | _ => trivial

theorem stepTh_sok (sch : Sch) (v : Variant) (s₀ s : Sh) (th : Th) (h₀ : Sub s₀ s) (ht : SOk s₀ s th) :
    SOk s₀ (stepTh sch v s th).1 (stepTh sch v s th).2 := by
  have hobs' : ∀ s' : Sh, Sub s s' → ∀ o, o ∈ th.obs →
      (∀ i, Fact.selBy o.e i ∈ s₀ → i ∈ o.ids) ∧ (∀ i, i ∈ o.ids → Fact.selBy o.e i ∈ s') :=
    fun s' hs o ho => ⟨(ht.obs o ho).1, fun i hi => hs _ ((ht.obs o ho).2 i hi)⟩
  have hobs := hobs' s (Sub.refl s)
  unfold stepTh
  split
  · split
    · exact ht
    · exact ⟨trivial, hobs⟩
    · exact ⟨trivial, hobs⟩
  · split
    · exact ⟨trivial, hobs⟩
    · exact ⟨trivial, hobs⟩
  · exact ⟨trivial, hobs⟩
  · split
    · cases v.addInside
      · exact ⟨trivial, hobs⟩
      · exact ⟨trivial, hobs⟩
    · exact ⟨trivial, hobs⟩
  · exact ⟨trivial, hobs' _ (Sub.add _ s)⟩
  · exact ⟨trivial, hobs' _ (Sub.add _ s)⟩
  · exact ⟨trivial, hobs' _ (Sub.add _ s)⟩
  · rename_i e hp
    split
    · rename_i hemp
      have hnil : selOf s e = [] := by simpa using hemp
      refine ⟨trivial, ?_⟩
      intro o ho
      simp only [List.mem_append, List.mem_singleton] at ho
      rcases ho with ho | ho
      · exact hobs o ho
      · subst ho
        refine ⟨?_, by simp⟩
        intro i hi
        have : i ∈ selOf s e := (mem_selOf s e i).2 (h₀ _ hi)
        rw [hnil] at this
        simp at this
    · exact ⟨trivial, hobs⟩
  · rename_i e hp
    refine ⟨?_, hobs⟩
    refine ⟨fun i hi => Or.inr ((mem_selOf s e i).2 (h₀ _ hi)), ?_⟩
    intro i hi
    rcases hi with hi | hi
    · simp at hi
    · exact (mem_selOf s e i).1 hi
  · rename_i e n todo done hp
    have hpc := ht.pc
    rw [hp] at hpc
    split
    · exact ⟨trivial, hobs⟩
    · split
      · refine ⟨trivial, ?_⟩
        intro o ho
        simp only [List.mem_append, List.mem_singleton] at ho
        rcases ho with ho | ho
        · exact hobs o ho
        · subst ho
          refine ⟨?_, ?_⟩
          · intro i hi
            rcases hpc.1 i hi with h | h
            · exact h
            · simp at h
          · intro i hi; exact hpc.2 i (Or.inl hi)
      · rename_i j r
        refine ⟨⟨?_, ?_⟩, hobs⟩
        · intro i hi
          rcases hpc.1 i hi with h | h
          · exact Or.inl (List.mem_append_left _ h)
          · simp only [List.mem_cons] at h
            rcases h with h | h
            · exact Or.inl (List.mem_append_right _ (by simp [h]))
            · exact Or.inr h
        · intro i hi
          apply hpc.2 i
          rcases hi with hi | hi
          · simp only [List.mem_append, List.mem_singleton] at hi
            rcases hi with hi | hi
            · exact Or.inl hi
            · exact Or.inr (by simp [hi])
          · exact Or.inr (List.mem_cons_of_mem _ hi)
  · exact ht

structure SInv (s₀ : Sh) (c : Cfg) : Prop where
  sub : Sub s₀ c.sh
  ths : ∀ t, SOk s₀ c.sh (c.th t)

theorem sinv_step (sch : Sch) (v : Variant) (s₀ : Sh) (t : Nat) (c : Cfg) (h : SInv s₀ c) :
    SInv s₀ (step sch v t c) := by
  have hs := stepTh_sub sch v c.sh (c.th t)
  refine ⟨fun f hf => hs _ (h.sub f hf), ?_⟩
  intro x
  by_cases hx : x = t
  · subst hx; simp only [step, upd_same]; exact stepTh_sok sch v s₀ c.sh _ h.sub (h.ths x)
  · simp only [step, upd_other _ _ _ _ hx]; exact SOk.mono hs (h.ths x)

theorem sinv_exec (sch : Sch) (v : Variant) (s₀ : Sh) (sched : List Nat) :
    ∀ c, SInv s₀ c → SInv s₀ (exec sch v sched c) := by
  induction sched with
  | nil => intro c h; exact h
  | cons t ts ih => intro c h; exact ih _ (sinv_step sch v s₀ t c h)

theorem sinv_init (s₀ : Sh) (prog : Nat → List Task) : SInv s₀ (init s₀ prog) :=
  ⟨Sub.refl s₀, fun _ => ⟨trivial, by simp [init, initTh]⟩⟩

/-! ### F. the live iteration does not raise when no element can be bound to two different identities -/

theorem selOf_add_other (s : Sh) (e : El) (f : Fact) (h : ∀ i, f ≠ Fact.selBy e i) : selOf (add f s) e = selOf s e := by
  unfold add
  split
  · rfl
  · unfold selOf
    rw [List.filterMap_append]
    cases f with
    | xsi p => simp
    | elem j e' => simp
    | selBy e' j =>
      have : e' ≠ e := by
        intro he; subst he; exact h j rfl
      simp [this]

theorem selOf_add_self (s : Sh) (e : El) (i : Idn) :
    selOf (add (Fact.selBy e i) s) e = if Fact.selBy e i ∈ s then selOf s e else selOf s e ++ [i] := by
  unfold add
  by_cases h : Fact.selBy e i ∈ s
  · simp [h]
  · simp only [h, if_false]
    have : s.contains (Fact.selBy e i) = false := by simpa using h
    simp only [this, Bool.false_eq_true, if_false]
    unfold selOf
    rw [List.filterMap_append]
    simp

/-- an identity that can ever be bound to `e`: bound by the build, or generated by a widened pair -/
def Pot (sch : Sch) (P : Pair → Prop) (s₀ : Sh) (e : El) (i : Idn) : Prop :=
  Fact.selBy e i ∈ s₀ ∨ ∃ p, P p ∧ sch.idOf p = i ∧ e ∈ sch.sel p

def OneId (sch : Sch) (P : Pair → Prop) (s₀ : Sh) : Prop := ∀ e i j, Pot sch P s₀ e i → Pot sch P s₀ e j → i = j

def Len1 (s : Sh) : Prop := ∀ e, (selOf s e).length ≤ 1

theorem pot_of_fed {sch : Sch} {P : Pair → Prop} {s₀ s : Sh} (hf : Fed sch P s₀ s) {e : El} {i : Idn}
    (h : i ∈ selOf s e) : Pot sch P s₀ e i := by
  rcases hf _ ((mem_selOf s e i).1 h) with h1 | h1
  · exact Or.inl h1
  · exact Or.inr h1

theorem len1_add {sch : Sch} {P : Pair → Prop} {s₀ s : Sh} (ho : OneId sch P s₀) (hf : Fed sch P s₀ s)
    (hl : Len1 s) (f : Fact) (hg : Gen sch P f) : Len1 (add f s) := by
  intro e
  cases f with
  | xsi p => rw [selOf_add_other s e _ (by intro i h; cases h)]; exact hl e
  | elem j e' => rw [selOf_add_other s e _ (by intro i h; cases h)]; exact hl e
  | selBy e' j =>
    by_cases he : e' = e
    · subst he
      rw [selOf_add_self]
      split
      · exact hl e'
      · rename_i hn
        cases hs : selOf s e' with
        | nil => simp
        | cons a r =>
          have ha : a ∈ selOf s e' := by rw [hs]; exact List.mem_cons_self ..
          have : a = j := ho e' a j (pot_of_fed hf ha) (Or.inr hg)
          subst this
          exact absurd ((mem_selOf s e' a).1 ha) hn
    · rw [selOf_add_other s e _ (by intro i h; cases h; exact he rfl)]; exact hl e

def LPc (s : Sh) : PC → Prop
  | .cIterNew e => selOf s e ≠ []
  | .cIter e n _ _ => n = 1 ∧ selOf s e ≠ []
  | .err => False
  | _ => True

theorem selOf_ne_nil_mono {s s' : Sh} (h : Sub s s') {e : El} (hn : selOf s e ≠ []) : selOf s' e ≠ [] := by
  cases hs : selOf s e with
  | nil => exact absurd hs hn
  | cons a r =>
    have ha : a ∈ selOf s e := by rw [hs]; exact List.mem_cons_self ..
    have : a ∈ selOf s' e := (mem_selOf s' e a).2 (h _ ((mem_selOf s e a).1 ha))
    intro h0; rw [h0] at this; simp at this

theorem LPc.mono {s s' : Sh} (h : Sub s s') {pc : PC} (hp : LPc s pc) : LPc s' pc := by
  cases pc with
  | cIterNew e => exact selOf_ne_nil_mono h hp
  | cIter e n todo done => exact ⟨hp.1, selOf_ne_nil_mono h hp.2⟩
  | err => exact hp
  | _ => trivial

theorem stepTh_live (sch : Sch) (v : Variant) (P : Pair → Prop) (s₀ s : Sh) (th : Th) (ho : OneId sch P s₀)
    (hf : Fed sch P s₀ s) (hu : UOk sch P th) (hl : Len1 s) (hp : LPc s th.pc) :
    Len1 (stepTh sch v s th).1 ∧ LPc (stepTh sch v s th).1 (stepTh sch v s th).2.pc := by
  have hpc := hu.pc
  unfold stepTh
  split
  · split
    · exact ⟨hl, hp⟩
    · exact ⟨hl, trivial⟩
    · exact ⟨hl, trivial⟩
  · split
    · exact ⟨hl, trivial⟩
    · exact ⟨hl, trivial⟩
  · exact ⟨hl, trivial⟩
  · split
    · cases v.addInside
      · exact ⟨hl, trivial⟩
      · exact ⟨hl, trivial⟩
    · exact ⟨hl, trivial⟩
  · rename_i p e rest h0
    rw [h0] at hpc
    exact ⟨len1_add ho hf hl _ ⟨p, hpc.1, rfl, hpc.2.1⟩, trivial⟩
  · rename_i p e rest h0
    rw [h0] at hpc
    exact ⟨len1_add ho hf hl _ ⟨p, hpc.1, rfl, hpc.2.1⟩, trivial⟩
  · rename_i p h0
    rw [h0] at hpc
    exact ⟨len1_add ho hf hl _ hpc, trivial⟩
  · rename_i e h0
    split
    · exact ⟨hl, trivial⟩
    · rename_i hne
      refine ⟨hl, ?_⟩
      intro h; apply hne; simp [h]
  · rename_i e h0
    rw [h0] at hp
    refine ⟨hl, ?_, hp⟩
    have := hl e
    cases hs : selOf s e with
    | nil => exact absurd hs hp
    | cons a r =>
      rw [hs] at this
      simp only [List.length_cons] at this ⊢
      omega
  · rename_i e n todo done h0
    rw [h0] at hp
    have hlen : (selOf s e).length = n := by
      have := hl e
      have hn1 := hp.1
      cases hs : selOf s e with
      | nil => exact absurd hs hp.2
      | cons a r =>
        rw [hs] at this
        simp only [List.length_cons] at this ⊢
        omega
    have hcond : (v.live && (selOf s e).length != n) = false := by simp [hlen]
    rw [hcond]
    simp only [Bool.false_eq_true, if_false]
    split
    · exact ⟨hl, trivial⟩
    · exact ⟨hl, hp⟩
  · rename_i h0; rw [h0] at hp; exact absurd hp (by simp [LPc])

structure LInv (sch : Sch) (P : Pair → Prop) (s₀ : Sh) (c : Cfg) : Prop where
  u : UInv sch P s₀ c
  len : Len1 c.sh
  pcs : ∀ t, LPc c.sh (c.th t).pc

theorem linv_step (sch : Sch) (v : Variant) (P : Pair → Prop) (s₀ : Sh) (ho : OneId sch P s₀) (t : Nat) (c : Cfg)
    (h : LInv sch P s₀ c) : LInv sch P s₀ (step sch v t c) := by
  have h1 := stepTh_live sch v P s₀ c.sh (c.th t) ho h.u.fed (h.u.ths t) h.len (h.pcs t)
  have hs := stepTh_sub sch v c.sh (c.th t)
  refine ⟨uinv_step sch v P s₀ t c h.u, h1.1, ?_⟩
  intro x
  by_cases hx : x = t
  · subst hx; simp only [step, upd_same]; exact h1.2
  · simp only [step, upd_other _ _ _ _ hx]; exact LPc.mono hs (h.pcs x)

theorem linv_exec (sch : Sch) (v : Variant) (P : Pair → Prop) (s₀ : Sh) (ho : OneId sch P s₀) (sched : List Nat) :
    ∀ c, LInv sch P s₀ c → LInv sch P s₀ (exec sch v sched c) := by
  induction sched with
  | nil => intro c h; exact h
  | cons t ts ih => intro c h; exact ih _ (linv_step sch v P s₀ ho t c h)

end XsVerif.Threads.XW
