/-
  Helper lemmas for C05 (converters): insertion-ordered dicts, xmlns keys, cdata numbering.
-/
import XsVerif.Model.Converters

namespace XsVerif.Conv

theorem dictSet_fresh (d : List (String × J)) (k : String) (v : J)
    (h : ∀ kv ∈ d, kv.1 ≠ k) : dictSet d k v = d ++ [(k, v)] := by
  induction d with
  | nil => rfl
  | cons a d ih =>
    obtain ⟨k', v'⟩ := a
    have h1 : k' ≠ k := h (k', v') (by simp)
    have h2 : ∀ kv ∈ d, kv.1 ≠ k := fun kv hkv => h kv (by simp [hkv])
    simp [dictSet, h1, ih h2]

theorem dictUpdate_fresh (l d : List (String × J))
    (hf : ∀ kv ∈ l, ∀ kv' ∈ d, kv'.1 ≠ kv.1) (hn : (l.map (·.1)).Nodup) :
    dictUpdate d l = d ++ l := by
  induction l generalizing d with
  | nil => simp [dictUpdate]
  | cons a l ih =>
    have ha : dictSet d a.1 a.2 = d ++ [(a.1, a.2)] :=
      dictSet_fresh d a.1 a.2 (fun kv hkv => hf a (by simp) kv hkv)
    simp only [List.map_cons, List.nodup_cons] at hn
    have : dictUpdate d (a :: l) = dictUpdate (dictSet d a.1 a.2) l := by simp [dictUpdate]
    rw [this, ha, ih]
    · simp
    · intro kv hkv kv' hkv'
      simp only [List.mem_append, List.mem_singleton] at hkv'
      rcases hkv' with h | h
      · exact hf kv (by simp [hkv]) kv' h
      · subst h
        intro he
        exact hn.1 (by simp only [List.mem_map]; exact ⟨kv, hkv, he.symm⟩)
    · exact hn.2

theorem dictUpdate_nil (l : List (String × J)) (hn : (l.map (·.1)).Nodup) : dictUpdate [] l = l := by
  simpa using dictUpdate_fresh l [] (by simp) hn

/-! ### xmlns keys -/

theorem isXmlnsKey_entry (kv : String × String) :
    isXmlnsKey (if kv.1 == "" then "" ++ "xmlns" else "" ++ "xmlns:" ++ kv.1) = true := by
  by_cases h : kv.1 = "" <;> simp [h, isXmlnsKey, hasPrefix]

theorem xmlns_key_ne (k : String) : ("xmlns:" ++ k == "xmlns") = false := by
  simp; intro h; have := congrArg String.toList h; simp at this

end XsVerif.Conv
