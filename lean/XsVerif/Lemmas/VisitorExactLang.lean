/-
  C01 (deepening): the language of a flat `sequence` of element leaves with pairwise disjoint names
  is decided by the run automaton `runSeq` (specification side of the exactness theorem).
-/
import XsVerif.Lemmas.Rx
import XsVerif.Lemmas.VisitorExactSeqLoop

namespace XsVerif.CM
open XsVerif.Wildcard XsVerif.Rx

abbrev LangL := Rx.Lang Leaf.matches

def seqRx (ls : List LeafSpec) : Rx Leaf := (ofSpecs ls).toSeq

theorem seqRx_cons (l : LeafSpec) (t : List LeafSpec) :
    seqRx (l :: t) = .cat (.rep (.sym l.leaf) l.lo l.hi) (seqRx t) := rfl

/-- `hi - c` on optional bounds -/
def hiSub : Option Nat → Nat → Option Nat
  | none, _ => none
  | some h, c => some (h - c)

theorem lang_cat_cons (a S : Rx Leaf) (q : QN) (w : List QN) :
    LangL (.cat a S) (q :: w) ↔
      (∃ u v, w = u ++ v ∧ LangL a (q :: u) ∧ LangL S v) ∨ (LangL a [] ∧ LangL S (q :: w)) := by
  simp only [LangL, Lang]
  constructor
  · rintro ⟨u, v, h, h1, h2⟩
    cases u with
    | nil => right; simp at h; subst h; exact ⟨h1, h2⟩
    | cons c' u =>
      simp only [List.cons_append, List.cons.injEq] at h
      obtain ⟨rfl, rfl⟩ := h
      left; exact ⟨u, v, rfl, h1, h2⟩
  · rintro (⟨u, v, rfl, h1, h2⟩ | ⟨h1, h2⟩)
    · exact ⟨q :: u, v, rfl, h1, h2⟩
    · exact ⟨[], q :: w, rfl, h1, h2⟩

theorem lang_rep_sym_cons (l : Leaf) (lo : Nat) (hi : Option Nat) (q : QN) (u : List QN) :
    LangL (.rep (.sym l) lo hi) (q :: u) ↔
      (l.matches q = true ∧ hiPos hi = true ∧ loLeHi lo hi = true ∧ LangL (.rep (.sym l) (lo - 1) (hiPred hi)) u) := by
  rw [LangL, ← deriv_iff]
  simp only [deriv]
  split
  · rename_i h
    simp only [Bool.and_eq_true] at h
    split
    · rename_i hm
      simp only [Lang, h.1, h.2, hm, true_and]
      constructor
      · rintro ⟨a, b, rfl, rfl, hb⟩; simpa using hb
      · intro hb; exact ⟨[], u, rfl, rfl, hb⟩
    · rename_i hm
      simp only [Lang, hm]
      constructor
      · rintro ⟨_, _, _, h', _⟩; exact h'.elim
      · rintro ⟨h', _⟩; cases h'
  · rename_i h
    simp only [Lang, false_iff]
    rintro ⟨_, h1, h2, _⟩
    exact h (by simp [h1, h2])

theorem lang_rep_sym_nil (l : Leaf) (lo : Nat) (hi : Option Nat) :
    LangL (.rep (.sym l) lo hi) [] ↔ (loLeHi lo hi = true ∧ lo = 0) := by
  rw [LangL, ← nullable_iff]
  simp [nullable]

/-- a word of a flat sequence starts with a name of one of its leaves -/
theorem first_seq : ∀ (rest : List LeafSpec) (q : QN) (v : List QN), LangL (seqRx rest) (q :: v) →
    ∃ l' ∈ rest, l'.names.contains q = true := by
  intro rest
  induction rest with
  | nil => intro q v h; simp [seqRx, ofSpecs, Particles.toSeq, LangL, Lang] at h
  | cons l t ih =>
    intro q v h
    rw [seqRx_cons, lang_cat_cons] at h
    rcases h with ⟨u, v', _, h1, _⟩ | ⟨_, h2⟩
    · rw [lang_rep_sym_cons] at h1
      exact ⟨l, by simp, h1.1⟩
    · obtain ⟨l', hl', h⟩ := ih q v h2
      exact ⟨l', List.mem_cons_of_mem _ hl', h⟩

theorem lang_cat_nil (a S : Rx Leaf) : LangL (.cat a S) [] ↔ LangL a [] ∧ LangL S [] := by
  simp only [LangL, Lang]
  constructor
  · rintro ⟨u, v, h, h1, h2⟩
    obtain ⟨rfl, rfl⟩ := List.append_eq_nil_iff.mp h.symm
    exact ⟨h1, h2⟩
  · rintro ⟨h1, h2⟩; exact ⟨[], [], rfl, h1, h2⟩

theorem lang_rep_zero (r : Rx Leaf) (u : List QN) : LangL (.rep r 0 (some 0)) u ↔ u = [] := by
  simp only [LangL, Lang, leHi]
  constructor
  · rintro ⟨ws, rfl, _, h, _⟩
    have : ws = [] := List.eq_nil_of_length_eq_zero (by omega)
    subst this; rfl
  · rintro rfl; exact ⟨[], rfl, Nat.le_refl _, Nat.le_refl _, by simp⟩

theorem lang_cat_rep_zero (r S : Rx Leaf) (w : List QN) : LangL (.cat (.rep r 0 (some 0)) S) w ↔ LangL S w := by
  constructor
  · rintro ⟨u, v, rfl, h1, h2⟩
    have := (lang_rep_zero r u).mp h1
    subst this; simpa using h2
  · intro h; exact ⟨[], w, rfl, (lang_rep_zero r []).mpr rfl, h⟩

theorem nil_rep_iff (l : LeafSpec) (c : Nat) (hc : c = 0 ∨ ltHi c l.hi = true) :
    LangL (.rep (.sym l.leaf) (l.lo - c) (hiSub l.hi c)) [] ↔ l.lo ≤ c := by
  rw [lang_rep_sym_nil]
  constructor
  · rintro ⟨_, h⟩; omega
  · intro h
    have h0 : l.lo - c = 0 := by omega
    refine ⟨?_, h0⟩
    rw [h0]
    cases l.hi <;> simp [hiSub, loLeHi]

theorem runLeaf_lang (l : LeafSpec) (rest : List LeafSpec) (k : List QN → Bool)
    (hk : ∀ v, k v = true ↔ LangL (seqRx rest) v)
    (hdis : ∀ l' ∈ rest, ∀ q, l.names.contains q = true → l'.names.contains q = false)
    (hok : l.okRange = true) :
    ∀ (w : List QN) (c : Nat), (c = 0 ∨ ltHi c l.hi = true) →
      (runLeaf l k c w = true ↔ LangL (.cat (.rep (.sym l.leaf) (l.lo - c) (hiSub l.hi c)) (seqRx rest)) w) := by
  intro w
  induction w with
  | nil =>
    intro c hc
    rw [lang_cat_nil, nil_rep_iff l c hc, ← hk]
    simp [runLeaf]
  | cons q w ih =>
    intro c hc
    rw [lang_cat_cons, lang_rep_sym_nil]
    simp only [runLeaf]
    have hS : ¬ (l.names.contains q = true ∧ LangL (seqRx rest) (q :: w)) := by
      rintro ⟨h1, h2⟩
      obtain ⟨l', hl', h⟩ := first_seq rest q w h2
      rw [hdis l' hl' q h1] at h; cases h
    by_cases hm : (l.names.contains q && l.hi != some 0) = true
    · simp only [hm, if_true]
      simp only [Bool.and_eq_true] at hm
      have hlt : ltHi c l.hi = true := ltHi_of hc hm.2
      have hright : ¬ ((loLeHi (l.lo - c) (hiSub l.hi c) = true ∧ l.lo - c = 0) ∧ LangL (seqRx rest) (q :: w)) :=
        fun h => hS ⟨hm.1, h.2⟩
      have hleft : (∃ u v, w = u ++ v ∧ LangL (.rep (.sym l.leaf) (l.lo - c) (hiSub l.hi c)) (q :: u) ∧ LangL (seqRx rest) v) ↔
          LangL (.cat (.rep (.sym l.leaf) (l.lo - (c + 1)) (hiSub l.hi (c + 1))) (seqRx rest)) w := by
        have hpos : hiPos (hiSub l.hi c) = true ∧ loLeHi (l.lo - c) (hiSub l.hi c) = true ∧
            hiPred (hiSub l.hi c) = hiSub l.hi (c + 1) := by
          unfold LeafSpec.okRange at hok
          cases hh : l.hi with
          | none => simp [hiSub, hiPos, loLeHi, hiPred]
          | some v =>
            rw [hh] at hlt hok
            simp only [ltHi, decide_eq_true_eq] at hlt
            simp only [loLeHi, decide_eq_true_eq] at hok
            simp only [hiSub, hiPos, loLeHi, hiPred, decide_eq_true_eq, Option.some.injEq]
            omega
        have hm1 : Leaf.matches l.leaf q = true := hm.1
        simp only [lang_rep_sym_cons, hm1, hpos.1, hpos.2.1, hpos.2.2, true_and]
        rw [show l.lo - c - 1 = l.lo - (c + 1) by omega]
        rfl
      rw [or_iff_left hright, hleft]
      by_cases hst : ltHi (c + 1) l.hi = true
      · simp only [hst, if_true]
        exact ih (c + 1) (.inr hst)
      · simp only [hst, Bool.false_eq_true, if_false]
        have : l.lo - (c + 1) = 0 ∧ hiSub l.hi (c + 1) = some 0 := by
          unfold LeafSpec.okRange at hok
          cases hh : l.hi with
          | none => rw [hh] at hst; simp [ltHi] at hst
          | some v =>
            rw [hh] at hlt hok hst
            simp only [ltHi, decide_eq_true_eq] at hlt hst
            simp only [loLeHi, decide_eq_true_eq] at hok
            simp only [hiSub, Option.some.injEq]
            omega
        rw [this.1, this.2, lang_cat_rep_zero, hk]
    · simp only [hm, Bool.false_eq_true, if_false, Bool.and_eq_true, decide_eq_true_eq, hk]
      have hleft : ¬ (∃ u v, w = u ++ v ∧ LangL (.rep (.sym l.leaf) (l.lo - c) (hiSub l.hi c)) (q :: u) ∧ LangL (seqRx rest) v) := by
        rintro ⟨u, v, _, h1, _⟩
        rw [lang_rep_sym_cons] at h1
        obtain ⟨hm1, hp, _, _⟩ := h1
        apply hm
        have hm1' : l.names.contains q = true := hm1
        simp only [Bool.and_eq_true, hm1', true_and]
        cases hh : l.hi with
        | none => rfl
        | some v =>
          rw [hh] at hp hc
          have : v ≠ 0 := by
            intro e
            subst e
            rcases hc with rfl | hc
            · simp [hiSub, hiPos] at hp
            · simp [ltHi] at hc
          simpa using this
      rw [or_iff_right hleft]
      have := nil_rep_iff l c hc
      rw [lang_rep_sym_nil] at this
      rw [this]

theorem hiSub_zero (hi : Option Nat) : hiSub hi 0 = hi := by cases hi <;> rfl

theorem disjoint_head {l : LeafSpec} {t : List LeafSpec} (h : disjointNames (l :: t) = true) :
    (∀ l' ∈ t, ∀ q, l.names.contains q = true → l'.names.contains q = false) ∧ disjointNames t = true := by
  simp only [disjointNames, Bool.and_eq_true, List.all_eq_true, Bool.not_eq_true'] at h
  refine ⟨fun l' hl' q hq => ?_, h.2⟩
  exact h.1 l' hl' q (by simpa using hq)

/-- the run automaton decides the language of a flat sequence -/
theorem runSeq_lang : ∀ (ls : List LeafSpec), disjointNames ls = true → (∀ l ∈ ls, l.okRange = true) →
    ∀ w, runSeq ls w = true ↔ LangL (seqRx ls) w := by
  intro ls
  induction ls with
  | nil =>
    intro _ _ w
    simp [runSeq, seqRx, ofSpecs, Particles.toSeq, LangL, Lang]
  | cons l t ih =>
    intro hd hok w
    obtain ⟨h1, h2⟩ := disjoint_head hd
    have := runLeaf_lang l t (runSeq t) (ih h2 (fun l' hl' => hok l' (List.mem_cons_of_mem _ hl'))) h1
      (hok l (by simp)) w 0 (.inl rfl)
    rw [runSeq, this, seqRx_cons, Nat.sub_zero, hiSub_zero]

theorem lang_rep_one (r : Rx Leaf) (w : List QN) : LangL (.rep r 1 (some 1)) w ↔ LangL r w := by
  simp only [LangL, Lang, leHi]
  constructor
  · rintro ⟨ws, rfl, h1, h2, hall⟩
    match ws, h1, h2, hall with
    | [x], _, _, hall => simpa using hall x (by simp)
  · intro h; exact ⟨[w], by simp, Nat.le_refl _, Nat.le_refl _, by simpa using h⟩

/-! ### the visit starts on the first element -/

section
variable {A : Arena} {n root : Nat} {ls : List LeafSpec}

theorem init_seq_nil (F : FlatA A n root .seq 1 (some 1) ls) (h : ls[0]? = none) :
    (ocFix {} (init A n root)).element = none ∧ (ocFix {} (init A n root)).fuelOut = false := by
  unfold init
  rw [show 4 * A.size + 8 = (4 * A.size + 7) + 1 from rfl, start]
  have := F.nextItem_seq (by simp) { group := root, cnt := Cnt.zero n } rfl
  simp only [h] at this
  simp only [this]
  simp [ocFix]

theorem init_seq_cons (F : FlatA A n root .seq 1 (some 1) ls) {l0 : LeafSpec} (h : ls[0]? = some l0) :
    Inv F 0 l0 0 false (ocFix {} (init A n root)) := by
  have hmem : l0 ∈ ls := List.mem_of_getElem? h
  have e : ocFix {} (init A n root) =
      { group := root, idx := 1, element := some l0.id, cnt := Cnt.zero n } := by
    unfold init
    rw [show 4 * A.size + 8 = (4 * A.size + 7) + 1 from rfl, start]
    have := F.nextItem_seq (by simp) { group := root, cnt := Cnt.zero n } rfl
    simp only [h] at this
    simp only [this, F.leaf_isGroup hmem]
    simp [ocFix]
  rw [e]
  exact { hl := h, stack := rfl, group := rfl, idx := rfl, mtch := rfl, elem := rfl, fo := rfl,
          sized := Cnt.sized_zero n, cur := Cnt.get_zero n _, root0 := Cnt.get_zero n _, oid0 := Cnt.getOid_zero n _,
          bound := fun l' _ => by
            show Rx.leHi ((Cnt.zero n).get l'.id) l'.hi
            rw [Cnt.get_zero]; cases l'.hi <;> simp [Rx.leHi],
          later := fun _ l' _ _ => Cnt.get_zero n _,
          mfalse := fun _ => ⟨rfl, by simp⟩, mtrue := fun h => by cases h }

/-- **the ModelVisitor port on a flat sequence = the run automaton**, and its fuel is never exhausted -/
theorem seq_exact (F : FlatA A n root .seq 1 (some 1) ls) (hok : ∀ l ∈ ls, l.okRange = true)
    (hlen : ls.length + 1 ≤ n) (w : List QN) :
    verdict A n root w = runSeq ls w ∧ (childErrors A n root w).fuelOut = false := by
  have hne : ((A.node root).kind == .choice && (A.node root).content.isEmpty && (A.node root).lo != 0) = false := by
    rw [F.root_node]; rfl
  obtain ⟨h1, h2⟩ := childErrors_res A n root w hne
  rw [h1, h2]
  cases h0 : ls[0]? with
  | none =>
    obtain ⟨he, hf⟩ := init_seq_nil F h0
    rw [res_dead A n root w 0 _ he rfl hf (fun _ => rfl)]
    have : ls = [] := by simpa using drop_of_none h0
    subst this
    simp [runSeq]
  | some l0 =>
    have I := init_seq_cons F h0
    rw [seq_sim hok hlen w 0 0 0 l0 false _ I (.inl rfl) _ rfl rfl rfl rfl]
    have : ls = l0 :: ls.drop 1 := by simpa using drop_of_some h0
    refine ⟨?_, rfl⟩
    show runLeaf l0 (runSeq (ls.drop 1)) 0 w = runSeq ls w
    conv => rhs; rw [this]
    rfl

end

end XsVerif.CM
