/-
  C17 — the modes of `set_xmlns_context` that keep ONE map (collapsed / root-only / none): the merge only adds
  bindings and records, keeps the maps consistent, and names mapped earlier still resolve in the grown maps.
-/
import XsVerif.Model.NsMapper
import XsVerif.Lemmas.NsMapper
import XsVerif.Lemmas.NsStack
import XsVerif.Lemmas.NsSpec
set_option linter.unusedSimpArgs false
namespace XsVerif.Props.C17
open XsVerif.NsMapper XsVerif.NsMapper.Map XsVerif.NsMapper.Stack

theorem grows_refl (a : Map) : Grows a a := fun _ _ h => h

theorem grows_trans {a b c : Map} (h1 : Grows a b) (h2 : Grows b c) : Grows a c :=
  fun k v h => h2 k v (h1 k v h)

theorem findSlot_fresh {ns : Map} {uri : String} {f : Nat} {p q : String}
    (h : findSlot ns uri f p = .fresh q) : ns.get q = none := by
  induction f generalizing p with
  | zero => simp [findSlot] at h
  | succ n ih =>
    simp only [findSlot] at h
    cases hg : ns.get p with
    | none =>
      rw [hg] at h
      simp only [Slot.fresh.injEq] at h
      subst h; exact hg
    | some u =>
      rw [hg] at h
      simp only at h
      split at h
      · cases h
      · exact ih h

theorem findSlot_bound {ns : Map} {uri : String} {f : Nat} {p q : String}
    (h : findSlot ns uri f p = .bound q) : ns.get q = some uri := by
  induction f generalizing p with
  | zero => simp [findSlot] at h
  | succ n ih =>
    simp only [findSlot] at h
    cases hg : ns.get p with
    | none =>
      rw [hg] at h
      cases h
    | some u =>
      rw [hg] at h
      simp only at h
      split at h
      · rename_i e
        simp only [Slot.bound.injEq] at h
        subst h; subst e; exact hg
      · exact ih h

/-- adding a binding for a prefix that is not a key, and a record for its URI when it has none -/
theorem nc_add_spec {ns rev : Map} {q uri : String} (h : Good ns rev) (hq : ns.get q = none) :
    Good (ns.set q uri) (if rev.has uri then rev else rev.set uri q) ∧
    Grows ns (ns.set q uri) ∧ Grows rev (if rev.has uri then rev else rev.set uri q) := by
  obtain ⟨hr, hn⟩ := h
  have hg : Grows ns (ns.set q uri) := by
    intro k v hk
    have : q ≠ k := by intro e; subst e; rw [hq] at hk; cases hk
    rw [get_set_ne _ _ this]; exact hk
  refine ⟨⟨?_, nodup_set hn _ _⟩, hg, ?_⟩
  · intro u p hp
    by_cases hh : rev.has uri = true
    · simp only [hh, if_true] at hp
      exact hg _ _ (hr u p hp)
    · have hf : rev.has uri = false := by simpa using hh
      rw [hf] at hp
      simp only [Bool.false_eq_true, if_false] at hp
      rw [get_set] at hp
      split at hp
      · rename_i e; cases hp; subst e; exact get_set_self _ _ _
      · exact hg _ _ (hr u p hp)
  · by_cases hh : rev.has uri = true
    · simp only [hh, if_true]; exact grows_refl _
    · have hf : rev.has uri = false := by simpa using hh
      rw [hf]
      simp only [Bool.false_eq_true, if_false]
      have hnone : rev.get uri = none := (has_eq_false _ _).mp hf
      intro k v hk
      have : uri ≠ k := by intro e; subst e; rw [hnone] at hk; cases hk
      rw [get_set_ne _ _ this]; exact hk

/-- one declaration of the collapsed merge keeps the maps consistent and only adds bindings/records -/
theorem collapseOne_spec (root : Bool) (ns rev : Map) (ok : Bool) (d : String × String) (h : Good ns rev) :
    Good (collapseOne root (ns, rev, ok) d).1 (collapseOne root (ns, rev, ok) d).2.1 ∧
    Grows ns (collapseOne root (ns, rev, ok) d).1 ∧ Grows rev (collapseOne root (ns, rev, ok) d).2.1 := by
  have base : Good ns rev ∧ Grows ns ns ∧ Grows rev rev := ⟨h, grows_refl _, grows_refl _⟩
  have place : ∀ p : String,
      Good (match findSlot ns d.2 (ns.length + 1) p with
        | .bound _ => (ns, rev, ok)
        | .fresh q => (ns.set q d.2, if rev.has d.2 then rev else rev.set d.2 q, ok)
        | .fuel => (ns, rev, false)).1
        (match findSlot ns d.2 (ns.length + 1) p with
        | .bound _ => (ns, rev, ok)
        | .fresh q => (ns.set q d.2, if rev.has d.2 then rev else rev.set d.2 q, ok)
        | .fuel => (ns, rev, false)).2.1 ∧
      Grows ns (match findSlot ns d.2 (ns.length + 1) p with
        | .bound _ => (ns, rev, ok)
        | .fresh q => (ns.set q d.2, if rev.has d.2 then rev else rev.set d.2 q, ok)
        | .fuel => (ns, rev, false)).1 ∧
      Grows rev (match findSlot ns d.2 (ns.length + 1) p with
        | .bound _ => (ns, rev, ok)
        | .fresh q => (ns.set q d.2, if rev.has d.2 then rev else rev.set d.2 q, ok)
        | .fuel => (ns, rev, false)).2.1 := by
    intro p
    cases hf : findSlot ns d.2 (ns.length + 1) p with
    | bound q => exact base
    | fresh q => exact nc_add_spec h (findSlot_fresh hf)
    | fuel => exact base
  unfold collapseOne
  simp only
  by_cases h1 : d.1 = ""
  · simp only [h1, if_true]
    by_cases h2 : d.2 = ""
    · simp only [h2, if_true]; exact base
    · simp only [h2, if_false]
      cases hg : ns.get "" with
      | none =>
        simp only
        cases root with
        | true => simp only [if_true]; exact nc_add_spec h hg
        | false => simp only [Bool.false_eq_true, if_false]; exact place "default"
      | some d0 =>
        simp only
        by_cases h3 : d0 = d.2
        · simp only [h3, if_true]; exact base
        · simp only [h3, if_false]; exact place "default"
  · simp only [h1, if_false]; exact place d.1

theorem nc_foldl_spec (root : Bool) : ∀ (xmlns : Xmlns) (ns rev : Map) (ok : Bool), Good ns rev →
    Good (xmlns.foldl (collapseOne root) (ns, rev, ok)).1 (xmlns.foldl (collapseOne root) (ns, rev, ok)).2.1 ∧
    Grows ns (xmlns.foldl (collapseOne root) (ns, rev, ok)).1 ∧
    Grows rev (xmlns.foldl (collapseOne root) (ns, rev, ok)).2.1
  | [], ns, rev, ok, h => ⟨h, grows_refl _, grows_refl _⟩
  | d :: t, ns, rev, ok, h => by
    simp only [List.foldl_cons]
    obtain ⟨g1, g2, g3⟩ := collapseOne_spec root ns rev ok d h
    generalize collapseOne root (ns, rev, ok) d = st at g1 g2 g3
    obtain ⟨ns1, rev1, ok1⟩ := st
    obtain ⟨k1, k2, k3⟩ := nc_foldl_spec root t ns1 rev1 ok1 g1
    exact ⟨k1, grows_trans g2 k2, grows_trans g3 k3⟩

theorem collapse_spec (root : Bool) (ns rev : Map) (xmlns : Xmlns) (h : Good ns rev) :
    Good (collapse root ns rev xmlns).1 (collapse root ns rev xmlns).2.1 ∧
    Grows ns (collapse root ns rev xmlns).1 ∧ Grows rev (collapse root ns rev xmlns).2.1 :=
  nc_foldl_spec root xmlns ns rev true h

/-- name round trip through maps that only grew since the name was produced -/
theorem roundtrip_elem_grows (m : Mapper) (q : QN) (ns' : Map) (hr : ReverseOk m.ns m.rev) (hg : Grows m.ns ns')
    (hd : q.ns = "" → DefaultUnset ns') : resolveElem ns' (mapQName m q) = some q := by
  obtain ⟨u, l⟩ := q
  unfold mapQName
  by_cases h0 : u = ""
  · subst h0
    simp only [if_true, resolveElem]
    rcases hd rfl with h | h <;> simp [h]
  · simp only [h0, if_false]
    split
    · rfl
    · cases hgt : m.rev.get u with
      | none => rfl
      | some p =>
        have hb := hg _ _ (hr u p hgt)
        by_cases hp : p = ""
        · subst hp; simp [resolveElem, hb]
        · simp [hp, resolveElem, hb, h0]

theorem roundtrip_attr_grows_partial (m : Mapper) (q : QN) (ns' : Map) (hr : ReverseOk m.ns m.rev)
    (hg : Grows m.ns ns') (hguard : q.ns ≠ "" → m.rev.get q.ns ≠ some "") :
    resolveAttr ns' (mapQName m q) = some q := by
  obtain ⟨u, l⟩ := q
  unfold mapQName
  by_cases h0 : u = ""
  · subst h0; simp [resolveAttr]
  · simp only [h0, if_false]
    split
    · rfl
    · cases hgt : m.rev.get u with
      | none => rfl
      | some p =>
        have hb := hg _ _ (hr u p hgt)
        have hp : p ≠ "" := by
          intro e; subst e; exact hguard h0 hgt
        simp [hp, resolveAttr, resolveElem, hb, h0]

theorem roundtrip_attrR_grows (m : Mapper) (q : QN) (ns' : Map) (hr : ReverseOk m.ns m.rev)
    (hn : Map.Nodup m.ns) (hg : Grows m.ns ns') : resolveAttr ns' (mapAttr .repaired m q) = some q := by
  obtain ⟨u, l⟩ := q
  by_cases h0 : u = ""
  · subst h0; simp [mapAttr, mapQName, resolveAttr]
  · by_cases he : m.ns.isEmpty = true
    · simp [mapAttr, mapQName, h0, he, resolveAttr, resolveElem]
    · cases hgt : m.rev.get u with
      | none => simp [mapAttr, mapQName, h0, he, hgt, resolveAttr, resolveElem]
      | some p =>
        by_cases hp : p = ""
        · subst hp
          cases hl : m.ns.lastKey (fun k w => k ≠ "" && w = u) with
          | none => simp only [mapAttr, mapQName, h0, he, hgt, hl, resolveAttr, resolveElem, if_true, if_false, Bool.false_eq_true]
          | some p' =>
            obtain ⟨w, hw, hpw⟩ := lastKey_mem hl
            simp only [Bool.and_eq_true, decide_eq_true_eq, ne_eq] at hpw
            have hb : ns'.get p' = some u := by
              apply hg; rw [get_of_mem hn hw, hpw.2]
            simp only [mapAttr, mapQName, h0, he, hgt, hl, resolveAttr, resolveElem, hb, if_true, if_false, Bool.false_eq_true]
        · have hb := hg _ _ (hr u p hgt)
          simp [mapAttr, mapQName, h0, he, hgt, hp, resolveAttr, resolveElem, hb]

/-- set_xmlns_context in the modes that keep one map (collapsed / root-only / none), from an empty context stack -/
theorem setContext_flat (v : Variant) (mode : Mode) (hm : mode ≠ .stacked) (m : Mapper) (obj level : Nat)
    (decl : Xmlns) (hi : Inv m) (hs : m.stack = []) :
    Inv (setContext v mode m obj level decl).m ∧ (setContext v mode m obj level decl).m.stack = [] ∧
    Grows m.ns (setContext v mode m obj level decl).m.ns ∧ Grows m.rev (setContext v mode m obj level decl).m.rev ∧
    (setContext v mode m obj level decl).ret = none := by
  obtain ⟨ns, rev, stack⟩ := m
  simp only at hs; subst hs
  have base : Inv (⟨ns, rev, []⟩ : Mapper) ∧ True ∧ Grows ns ns ∧ Grows rev rev ∧ True :=
    ⟨hi, trivial, grows_refl _, grows_refl _, trivial⟩
  simp only [setContext, popLoop]
  by_cases h1 : mode = .none
  · simp only [h1, if_true]; exact base
  · simp only [h1, if_false]
    by_cases h2 : decl.isEmpty = true
    · simp only [h2, if_true]; exact base
    · simp only [h2, if_false, hm, Bool.false_eq_true]
      by_cases h3 : level = 0 ∨ mode = .collapsed
      · simp only [h3, if_true]
        obtain ⟨c1, c2, c3⟩ := collapse_spec (decide (level = 0)) ns rev decl hi.1
        exact ⟨⟨c1, by simp⟩, by simp, c2, c3, by simp⟩
      · simp only [h3, if_false]; exact base

theorem setContext_none_id (v : Variant) (m : Mapper) (obj level : Nat) (decl : Xmlns) (hs : m.stack = []) :
    (setContext v .none m obj level decl).m = m := by
  obtain ⟨ns, rev, stack⟩ := m
  simp only at hs; subst hs
  simp [setContext, popLoop]

theorem setContext_rootOnly_id (v : Variant) (m : Mapper) (obj level : Nat) (decl : Xmlns) (hs : m.stack = [])
    (hl : level ≠ 0) : (setContext v .rootOnly m obj level decl).m = m := by
  obtain ⟨ns, rev, stack⟩ := m
  simp only at hs; subst hs
  simp only [setContext, popLoop]
  by_cases h2 : decl.isEmpty = true
  · simp [h2]
  · simp [h2, hl]

/-- an observation whose names were produced by consistent mapper states that the final maps (nsF, revF) extend -/
def FlatObsOk (nsF revF : Map) (o : Obs) : Prop :=
  ∃ m1 m3 : Mapper, Inv m1 ∧ Inv m3 ∧ Grows m1.ns nsF ∧ Grows m3.ns nsF ∧ Grows m3.rev revF ∧
    o.key = mapQName m1 o.tag ∧ (∀ a ∈ o.attrs, a.2 = mapQName m3 a.1) ∧
    (∀ a ∈ o.attrsR, a.2 = mapAttr .repaired m3 a.1) ∧ o.ret = none ∧ o.nsAtAttrs = m3.ns

theorem FlatObsOk.mono {nsF revF nsG revG : Map} {o : Obs} (h : FlatObsOk nsF revF o)
    (h1 : Grows nsF nsG) (h2 : Grows revF revG) : FlatObsOk nsG revG o := by
  obtain ⟨m1, m3, i1, i3, g1, g3, g3r, r⟩ := h
  exact ⟨m1, m3, i1, i3, grows_trans g1 h1, grows_trans g3 h1, grows_trans g3r h2, r⟩

mutual
theorem visit_flat (v : Variant) (mode : Mode) (hm : mode ≠ .stacked) : ∀ (t : Tree) (L : Nat) (m : Mapper),
    Inv m → m.stack = [] →
    Inv (visit v mode L t m).1 ∧ (visit v mode L t m).1.stack = [] ∧
    Grows m.ns (visit v mode L t m).1.ns ∧ Grows m.rev (visit v mode L t m).1.rev ∧
    ∀ o ∈ (visit v mode L t m).2, FlatObsOk (visit v mode L t m).1.ns (visit v mode L t m).1.rev o
  | .node id tag attrs decl ch, L, m, hi, hs => by
    obtain ⟨i1, s1, g1, r1, _⟩ := setContext_flat v mode hm m id L decl hi hs
    obtain ⟨i2, s2, g2, r2, o2⟩ := visitList_flat v mode hm ch (L + 1) _ i1 s1
    obtain ⟨i3, s3, g3, r3, e3⟩ := setContext_flat v mode hm _ id L decl i2 s2
    simp only [visit]
    refine ⟨i3, s3, grows_trans g1 (grows_trans g2 g3), grows_trans r1 (grows_trans r2 r3), ?_⟩
    intro o ho
    rcases List.mem_cons.mp ho with e | e
    · subst e
      refine ⟨_, _, i1, i3, grows_trans g2 g3, grows_refl _, grows_refl _, rfl, ?_, ?_, e3, rfl⟩
      · intro a ha
        obtain ⟨q, _, rfl⟩ := List.mem_map.mp ha
        rfl
      · intro a ha
        obtain ⟨q, _, rfl⟩ := List.mem_map.mp ha
        rfl
    · exact (o2 o e).mono g3 r3
theorem visitList_flat (v : Variant) (mode : Mode) (hm : mode ≠ .stacked) : ∀ (ts : List Tree) (L : Nat) (m : Mapper),
    Inv m → m.stack = [] →
    Inv (visitList v mode L ts m).1 ∧ (visitList v mode L ts m).1.stack = [] ∧
    Grows m.ns (visitList v mode L ts m).1.ns ∧ Grows m.rev (visitList v mode L ts m).1.rev ∧
    ∀ o ∈ (visitList v mode L ts m).2, FlatObsOk (visitList v mode L ts m).1.ns (visitList v mode L ts m).1.rev o
  | [], L, m, hi, hs => by
    simp only [visitList]
    exact ⟨hi, hs, grows_refl _, grows_refl _, by simp⟩
  | t :: ts, L, m, hi, hs => by
    obtain ⟨i1, s1, g1, r1, o1⟩ := visit_flat v mode hm t L m hi hs
    obtain ⟨i2, s2, g2, r2, o2⟩ := visitList_flat v mode hm ts L _ i1 s1
    simp only [visitList]
    refine ⟨i2, s2, grows_trans g1 g2, grows_trans r1 r2, ?_⟩
    intro o ho
    rcases List.mem_append.mp ho with e | e
    · exact (o1 o e).mono g2 r2
    · exact o2 o e
end

mutual
theorem visit_none_const (v : Variant) : ∀ (t : Tree) (L : Nat) (m : Mapper), m.stack = [] → (visit v .none L t m).1 = m
  | .node id tag attrs decl ch, L, m, hs => by
    have h1 := setContext_none_id v m id L decl hs
    have h2 := visitList_none_const v ch (L + 1) (setContext v .none m id L decl).m (by rw [h1]; exact hs)
    simp only [visit]
    rw [h2, h1, setContext_none_id v m id L decl hs]
theorem visitList_none_const (v : Variant) : ∀ (ts : List Tree) (L : Nat) (m : Mapper), m.stack = [] → (visitList v .none L ts m).1 = m
  | [], L, m, hs => by simp only [visitList]
  | t :: ts, L, m, hs => by
    have h1 := visit_none_const v t L m hs
    have h2 := visitList_none_const v ts L (visit v .none L t m).1 (by rw [h1]; exact hs)
    simp only [visitList]
    rw [h2, h1]
end

mutual
theorem visit_rootOnly_const (v : Variant) : ∀ (t : Tree) (L : Nat) (m : Mapper), m.stack = [] → L ≠ 0 → (visit v .rootOnly L t m).1 = m
  | .node id tag attrs decl ch, L, m, hs, hl => by
    have h1 := setContext_rootOnly_id v m id L decl hs hl
    have h2 := visitList_rootOnly_const v ch (L + 1) (setContext v .rootOnly m id L decl).m
      (by rw [h1]; exact hs) (by omega)
    simp only [visit]
    rw [h2, h1, setContext_rootOnly_id v m id L decl hs hl]
theorem visitList_rootOnly_const (v : Variant) : ∀ (ts : List Tree) (L : Nat) (m : Mapper), m.stack = [] → L ≠ 0 → (visitList v .rootOnly L ts m).1 = m
  | [], L, m, hs, hl => by simp only [visitList]
  | t :: ts, L, m, hs, hl => by
    have h1 := visit_rootOnly_const v t L m hs hl
    have h2 := visitList_rootOnly_const v ts L (visit v .rootOnly L t m).1 (by rw [h1]; exact hs) hl
    simp only [visitList]
    rw [h2, h1]
end

end XsVerif.Props.C17
