/-
  C17 — specification side (S): how a reader of decoded data resolves names by the XML Namespaces rules, the
  mapper invariant, and the reader of whole data trees.  Definitions only (plus two executable-check helpers);
  the theorems are in Props/C17.lean, their helper lemmas in Lemmas/Ns*.lean.
-/
import XsVerif.Model.NsMapper
import XsVerif.Lemmas.NsMapper
import XsVerif.Lemmas.NsStack

namespace XsVerif.Props.C17
open XsVerif.NsMapper XsVerif.NsMapper.Map XsVerif.NsMapper.Stack

/-! ### S: resolution of a key by the XML Namespaces rules -/

/-- element names: an unprefixed name takes the default namespace when one is set -/
def resolveElem (ns : Map) : PName → Option QN
  | .braced u l => some ⟨u, l⟩
  | .pre p l => match ns.get p with
    | some u => if u = "" then none else some ⟨u, l⟩
    | none => none
  | .loc l => match ns.get "" with
    | some d => some ⟨d, l⟩
    | none => some ⟨"", l⟩

/-- attribute names: an unprefixed name is in no namespace (the default namespace never applies) -/
def resolveAttr (ns : Map) : PName → Option QN
  | .loc l => some ⟨"", l⟩
  | n => resolveElem ns n

/-- `xmlns=""` / no default declaration -/
def DefaultUnset (ns : Map) : Prop := ns.get "" = none ∨ ns.get "" = some ""

/-- mapper invariant: current and saved maps are consistent dicts -/
def Good (ns rev : Map) : Prop := ReverseOk ns rev ∧ Map.Nodup ns

def Inv (m : Mapper) : Prop := Good m.ns m.rev ∧ ∀ c ∈ m.stack, Good c.ns c.rev

/-- every binding of `a` is a binding of `b` (maps that only grow: collapsed / root-only processing) -/
def Grows (a b : Map) : Prop := ∀ k v, a.get k = some v → b.get k = some v

mutual
/-- prefixes declared on one element are distinct, everywhere in the document -/
def DeclsNodup : Tree → Prop
  | .node _ _ _ decl ch => NodupKeys decl ∧ DeclsNodupList ch
def DeclsNodupList : List Tree → Prop
  | [] => True
  | t :: ts => DeclsNodup t ∧ DeclsNodupList ts
end

/-! ### S: a reader of a whole data tree -/

/-- in-scope declarations as a reader accumulates them: a function, so that two maps that bind the same
    prefixes to the same URIs are the same scope -/
abbrev Scope := String → Option String

def Scope.empty : Scope := fun _ => none

/-- the declarations of one element come into scope (later entries win, as in `dict.update`) -/
def Scope.bind (s : Scope) (l : Xmlns) : Scope :=
  l.foldl (fun s d k => if d.1 = k then some d.2 else s k) s

def readElem (s : Scope) : PName → Option QN
  | .braced u l => some ⟨u, l⟩
  | .pre p l => match s p with
    | some u => if u = "" then none else some ⟨u, l⟩
    | none => none
  | .loc l => match s "" with
    | some d => some ⟨d, l⟩
    | none => some ⟨"", l⟩

def readAttr (s : Scope) : PName → Option QN
  | .loc l => some ⟨"", l⟩
  | n => readElem s n

/-- per element, in document order: identifier, expanded name, expanded attribute names -/
abbrev Names := List (Nat × Option QN × List (Option QN))

mutual
/-- what the data denotes: every key resolved with the declarations the data reports for the item and its
    ancestors -/
def readItem (s : Scope) : Item → Names
  | .node id key _ xmlns attrs ch =>
    (id, readElem (s.bind xmlns) key, attrs.map (readAttr (s.bind xmlns))) :: readItems (s.bind xmlns) ch
def readItems (s : Scope) : List Item → Names
  | [] => []
  | i :: is => readItem s i ++ readItems s is
end

mutual
/-- the expanded names of the document itself -/
def docNames : Tree → Names
  | .node id tag attrs _ ch => (id, some tag, attrs.map some) :: docNamesList ch
def docNamesList : List Tree → Names
  | [] => []
  | t :: ts => docNames t ++ docNamesList ts
end

mutual
/-- Side conditions on a document for the attribute rule `a`, `s` = declarations in scope of the parent:
    a name in no namespace occurs only where the default namespace is unset (namespace well-formedness); and,
    for the attribute rule of the tree under check only, no attribute lives in the namespace that is the
    default namespace of its scope (finding C17-F7). -/
def WellScoped (a : AttrRule) (s : Map) : Tree → Prop
  | .node _ tag attrs decl ch =>
    (tag.ns = "" → DefaultUnset (Map.update s decl)) ∧
    (a = .current → ∀ x ∈ attrs, x.ns ≠ "" → (Map.update s decl).get "" ≠ some x.ns) ∧
    WellScopedList a (Map.update s decl) ch
def WellScopedList (a : AttrRule) (s : Map) : List Tree → Prop
  | [] => True
  | t :: ts => WellScoped a s t ∧ WellScopedList a s ts
end

/-! ### the encoder's view -/

def Unmapped.toOpt : Unmapped → Option QN
  | .name q => some q
  | .unknownPrefix _ _ => none

def encProj (e : EncObs) : Nat × Option QN × List (Option QN) :=
  (e.id, Unmapped.toOpt e.tag, e.attrs.map Unmapped.toOpt)

mutual
/-- sibling items are distinct objects -/
def ItemDistinct : Item → Prop
  | .node _ _ _ _ _ ch => (ch.map Item.id).Nodup ∧ ItemDistinctList ch
def ItemDistinctList : List Item → Prop
  | [] => True
  | i :: is => ItemDistinct i ∧ ItemDistinctList is
end

mutual
/-- The data is readable for the encoder with attribute tables `tab`, read from scope `s`: every key denotes a
    name, an item that is not a mapping carries nothing, and an unprefixed attribute key that the element type
    does not declare occurs only where the default namespace is unset (`unmap_qname(name, xsd_element.attributes)`
    puts it into the default namespace otherwise: finding C17-F9). -/
def Readable (tab : Nat → String → Bool) (s : Scope) : Item → Prop
  | .node id key isMap xmlns attrs ch =>
    (isMap = false → xmlns = [] ∧ attrs = [] ∧ ch = []) ∧
    readElem (s.bind xmlns) key ≠ none ∧
    (∀ k ∈ attrs, readAttr (s.bind xmlns) k ≠ none ∧
      ∀ l, k = .loc l → tab id l = true ∨ (s.bind xmlns) "" = none ∨ (s.bind xmlns) "" = some "") ∧
    ReadableList tab (s.bind xmlns) ch
def ReadableList (tab : Nat → String → Bool) (s : Scope) : List Item → Prop
  | [] => True
  | i :: is => Readable tab s i ∧ ReadableList tab s is
end

mutual
/-- every attribute in no namespace is declared (unqualified) by the type of its element, or occurs where the
    default namespace is unset -/
def UnqualDeclared (tab : Nat → String → Bool) (s : Map) : Tree → Prop
  | .node id _ attrs decl ch =>
    (∀ x ∈ attrs, x.ns = "" → tab id x.loc = true ∨ DefaultUnset (Map.update s decl)) ∧
    UnqualDeclaredList tab (Map.update s decl) ch
def UnqualDeclaredList (tab : Nat → String → Bool) (s : Map) : List Tree → Prop
  | [] => True
  | t :: ts => UnqualDeclared tab s t ∧ UnqualDeclaredList tab s ts
end

end XsVerif.Props.C17
