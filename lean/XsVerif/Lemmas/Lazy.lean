/-
  Helper lemmas for C06 / C20 (Model/Lazy.lean).  Plain Lean core.
-/
import XsVerif.Model.Lazy

namespace XsVerif.Lazy
set_option linter.unusedSimpArgs false

/-! ### namespace bookkeeping -/

theorem nsRun_append (b : Bool) (s : NsSt) (xs ys : List Ev) :
    nsRun b s (xs ++ ys) = nsRun b (nsRun b s xs) ys := by
  simp [nsRun, List.foldl_append]

theorem nsRun_cons (b : Bool) (s : NsSt) (x : Ev) (ys : List Ev) :
    nsRun b s (x :: ys) = nsRun b (nsStep b s x) ys := rfl

theorem nsRun_nil (b : Bool) (s : NsSt) : nsRun b s [] = s := rfl

theorem nsRun_startNs (b : Bool) (ds : List (String × String)) (s : NsSt) :
    nsRun b s (ds.map (fun d => Ev.startNs d.1 d.2)) = { s with pending := s.pending ++ ds } := by
  induction ds generalizing s with
  | nil => simp [nsRun]
  | cons d ds ih =>
    simp only [List.map_cons, nsRun_cons, nsStep]
    rw [ih]
    simp [List.append_assoc]

theorem nsRun_endNs (b : Bool) (ds : List (String × String)) (s : NsSt) :
    nsRun b s (ds.map (fun _ => Ev.endNs)) = if ds.isEmpty then s else { s with endNs := true } := by
  induction ds generalizing s with
  | nil => simp [nsRun]
  | cons d ds ih =>
    simp only [List.map_cons, nsRun_cons, nsStep]
    rw [ih]
    cases ds <;> simp

/-- the stack as it will be after the pending pop -/
def eff (s : NsSt) : List NsMap := if s.endNs then s.stack.tail else s.stack

theorem popIf_spec (s : NsSt) (m : NsMap) (rest : List NsMap) (hf : s.fail = false)
    (he : eff s = m :: rest) :
    popIf s = { s with stack := m :: rest, endNs := false } := by
  obtain ⟨stack, pending, endNs, out, fail⟩ := s
  simp only at hf
  subst hf
  cases endNs
  · simp [eff] at he
    simp [popIf, he]
  · cases stack with
    | nil => simp [eff] at he
    | cons x xs =>
      simp [eff] at he
      simp [popIf, he]

/-- post-condition of running the events of a subtree from `s` -/
def NsPost (s s' : NsSt) (m : NsMap) (rest : List NsMap) (recs : List (Nat × NsMap)) : Prop :=
  s'.fail = false ∧ s'.pending = [] ∧ eff s' = m :: rest ∧ s'.out = s.out ++ recs

/- Invariant of the lazy loader's loop over the events of a subtree: the effective stack is restored
   and the recorded maps are the in-scope maps. -/
mutual
theorem ns_inv : ∀ (t : Tree) (s : NsSt) (m : NsMap) (rest : List NsMap),
    s.fail = false → s.pending = [] → eff s = m :: rest →
    NsPost s (nsRun true s (events t)) m rest (inScope m t)
  | .node i tg ds cs, s, m, rest, hf, hp, he => by
    simp only [events, nsRun_append, nsRun_startNs, nsRun_cons, nsRun_nil, nsStep, nsRun_endNs]
    have hpop := popIf_spec { s with pending := s.pending ++ ds } m rest hf (by simpa [eff] using he)
    rw [hpop]
    cases ds with
    | nil =>
      simp only [hp, List.append_nil, pushRecord, List.isEmpty_nil, if_true]
      have h := ns_invF cs { s with stack := m :: rest, endNs := false, pending := [], out := s.out ++ [(i, m)] }
        m rest hf rfl (by simp [eff])
      obtain ⟨h1, h2, h3, h4⟩ := h
      have hpop2 := popIf_spec _ m rest h1 h3
      simp only [ite_true, inScope, updAll, List.foldl_nil]
      rw [hpop2]
      refine ⟨h1, h2, by simp [eff], ?_⟩
      simp [h4, List.append_assoc]
    | cons d0 ds0 =>
      simp only [hp, List.nil_append, pushRecord, List.isEmpty_cons, Bool.false_eq_true, if_false]
      have h := ns_invF cs { s with stack := updAll m (d0 :: ds0) :: m :: rest, endNs := false, pending := [], out := s.out ++ [(i, updAll m (d0 :: ds0))] }
        (updAll m (d0 :: ds0)) (m :: rest) hf rfl (by simp [eff])
      obtain ⟨h1, h2, h3, h4⟩ := h
      have hpop2 := popIf_spec _ _ _ h1 h3
      simp only [ite_true, inScope]
      rw [hpop2]
      refine ⟨h1, h2, by simp [eff], ?_⟩
      simp [h4, List.append_assoc]
theorem ns_invF : ∀ (ts : List Tree) (s : NsSt) (m : NsMap) (rest : List NsMap),
    s.fail = false → s.pending = [] → eff s = m :: rest →
    NsPost s (nsRun true s (eventsF ts)) m rest (inScopeF m ts)
  | [], s, m, rest, hf, hp, he => by
    simp [NsPost, eventsF, nsRun_nil, inScopeF, hf, hp, he]
  | t :: ts, s, m, rest, hf, hp, he => by
    simp only [eventsF, nsRun_append, inScopeF]
    obtain ⟨h1, h2, h3, h4⟩ := ns_inv t s m rest hf hp he
    obtain ⟨g1, g2, g3, g4⟩ := ns_invF ts _ m rest h1 h2 h3
    refine ⟨g1, g2, g3, ?_⟩
    rw [g4, h4, List.append_assoc]
end

/-- the eager loop does the same bookkeeping as the lazy loop, event by event -/
theorem parseStep_eq (s : NsSt) (e : Ev) : parseStep s e = nsStep true s e := by
  cases e <;> rfl

theorem parseRun_eq (evs : List Ev) (s : NsSt) : evs.foldl parseStep s = nsRun true s evs := by
  induction evs generalizing s with
  | nil => rfl
  | cons e evs ih => simp only [List.foldl_cons, nsRun_cons, parseStep_eq]; exact ih _

/-! ### iteration loops -/

def isNs : Ev → Bool
  | .startNs _ _ => true
  | .endNs => true
  | _ => false

theorem foldl_ns {σ : Type} (f : σ → Ev → σ) (hf : ∀ s e, isNs e = true → f s e = s) (s : σ) :
    ∀ (l : List Ev), (∀ e ∈ l, isNs e = true) → l.foldl f s = s
  | [], _ => rfl
  | e :: l, h => by
    simp only [List.foldl_cons]
    rw [hf s e (h e (by simp))]
    exact foldl_ns f hf s l (fun e he => h e (by simp [he]))

theorem foldl_events_node {σ : Type} (f : σ → Ev → σ) (hf : ∀ s e, isNs e = true → f s e = s) (s : σ)
    (i : Nat) (tg : String) (ds : List (String × String)) (cs : List Tree) :
    (events (.node i tg ds cs)).foldl f s
      = f ((eventsF cs).foldl f (f s (.start i tg))) (.stop i tg) := by
  simp only [events, List.foldl_append, List.foldl_cons, List.foldl_nil]
  rw [foldl_ns f hf s _ (by intro e he; simp only [List.mem_map] at he; obtain ⟨_, _, rfl⟩ := he; rfl)]
  rw [foldl_ns f hf _ _ (by intro e he; simp only [List.mem_map] at he; obtain ⟨_, _, rfl⟩ := he; rfl)]

theorem iterStep_ns (d : Nat) (sel : String → Bool) (s : ItSt) (e : Ev) (h : isNs e = true) :
    iterStep d sel s e = s := by
  cases e <;> simp_all [isNs, iterStep]

theorem idStep_ns (mode d : Nat) (s : IdSt) (e : Ev) (h : isNs e = true) : idStep mode d s e = s := by
  cases e <;> simp_all [isNs, idStep]

theorem ifStep_ns (pd : Nat) (s : IdSt) (e : Ev) (h : isNs e = true) : ifStep pd s e = s := by
  cases e <;> simp_all [isNs, ifStep]

def allTags : String → Bool := fun _ => true

/- below the lazy depth: every element is pushed on the left of the deque at its end event -/
mutual
theorem iter_deep (d : Nat) : ∀ (t : Tree) (l : Nat) (deq : List Nat) (out : List (Nat × Kind)), d < l →
    (events t).foldl (iterStep d allTags) ⟨l, deq, out⟩ = ⟨l, (postorder t).reverse ++ deq, out⟩
  | .node i tg ds cs, l, deq, out, h => by
    rw [foldl_events_node _ (iterStep_ns d allTags)]
    have h1 : ¬ (l < d) := by omega
    simp only [iterStep, h1, decide_false, Bool.false_and, Bool.false_eq_true, if_false]
    rw [iter_deepF d cs (l + 1) deq out (by omega)]
    simp only [iterStep, Nat.add_sub_cancel, h1, if_false, h, if_true, allTags, postorder,
      List.reverse_append, List.reverse_cons, List.reverse_nil, List.nil_append, List.singleton_append,
      List.cons_append, List.append_assoc]
theorem iter_deepF (d : Nat) : ∀ (ts : List Tree) (l : Nat) (deq : List Nat) (out : List (Nat × Kind)), d < l →
    (eventsF ts).foldl (iterStep d allTags) ⟨l, deq, out⟩ = ⟨l, (postorderF ts).reverse ++ deq, out⟩
  | [], l, deq, out, _ => by simp [eventsF, postorderF]
  | t :: ts, l, deq, out, h => by
    simp only [eventsF, List.foldl_append, postorderF, List.reverse_append]
    rw [iter_deep d t l deq out h, iter_deepF d ts l _ out h]
    simp [List.append_assoc]
end

/- at or above the lazy depth -/
mutual
theorem iter_top (d : Nat) : ∀ (t : Tree) (l : Nat) (out : List (Nat × Kind)), l ≤ d →
    (events t).foldl (iterStep d allTags) ⟨l, [], out⟩ = ⟨l, [], out ++ lazyOrder d l t⟩
  | .node i tg ds cs, l, out, h => by
    rw [foldl_events_node _ (iterStep_ns d allTags)]
    by_cases hl : l < d
    · simp only [iterStep, hl, decide_true, allTags, Bool.and_self, if_true]
      rw [iter_topF d cs (l + 1) _ (by omega)]
      simp only [iterStep, Nat.add_sub_cancel, hl, if_true, lazyOrder]
      simp [List.append_assoc]
    · have hd : l = d := by omega
      subst hd
      simp only [iterStep, hl, decide_false, Bool.false_and, Bool.false_eq_true, if_false]
      rw [iter_deepF l cs (l + 1) [] out (by omega)]
      simp only [iterStep, Nat.add_sub_cancel, Nat.lt_irrefl, if_false, allTags, if_true, lazyOrder,
        List.append_nil]
      simp [List.append_assoc]
theorem iter_topF (d : Nat) : ∀ (ts : List Tree) (l : Nat) (out : List (Nat × Kind)), l ≤ d →
    (eventsF ts).foldl (iterStep d allTags) ⟨l, [], out⟩ = ⟨l, [], out ++ lazyOrderF d l ts⟩
  | [], l, out, _ => by simp [eventsF, lazyOrderF]
  | t :: ts, l, out, h => by
    simp only [eventsF, List.foldl_append, lazyOrderF]
    rw [iter_top d t l out h, iter_topF d ts l _ h]
    simp [List.append_assoc]
end

mutual
theorem post_perm_pre : ∀ t : Tree, (postorder t).Perm (preorder t)
  | .node i _ _ cs => by
    simp only [postorder, preorder]
    exact (List.perm_append_comm).trans (List.Perm.cons i (post_perm_preF cs))
theorem post_perm_preF : ∀ ts : List Tree, (postorderF ts).Perm (preorderF ts)
  | [] => by simp [postorderF, preorderF]
  | t :: ts => by
    simp only [postorderF, preorderF]
    exact List.Perm.append (post_perm_pre t) (post_perm_preF ts)
end

mutual
theorem lazyOrder_perm (d : Nat) : ∀ (t : Tree) (l : Nat), ((lazyOrder d l t).map Prod.fst).Perm (preorder t)
  | .node i _ _ cs, l => by
    simp only [lazyOrder, preorder]
    split
    · simp only [List.map_cons]
      exact List.Perm.cons i (lazyOrderF_perm d cs (l + 1))
    · simp only [List.map_cons, List.map_map]
      refine List.Perm.cons i ?_
      have : (List.map (Prod.fst ∘ fun j => (j, Kind.sub)) (postorderF cs).reverse) = (postorderF cs).reverse := by
        simp [Function.comp_def]
      rw [this]
      exact (List.reverse_perm _).trans (post_perm_preF cs)
theorem lazyOrderF_perm (d : Nat) : ∀ (ts : List Tree) (l : Nat),
    ((lazyOrderF d l ts).map Prod.fst).Perm (preorderF ts)
  | [], _ => by simp [lazyOrderF, preorderF]
  | t :: ts, l => by
    simp only [lazyOrderF, preorderF, List.map_append]
    exact List.Perm.append (lazyOrder_perm d t l) (lazyOrderF_perm d ts l)
end

/-! ### iter_depth / iterfind -/

mutual
theorem idepth_sub (mode d : Nat) : ∀ (t : Tree) (l : Nat) (anc : List Nat) (out : List (Nat × List Nat)),
    1 ≤ l →
    (events t).foldl (idStep mode d) ⟨l, anc, out⟩
      = ⟨l, anc, out ++ (if l ≤ d ∧ mode ≠ 3 then chunksAt (d - l) anc t else [])⟩
  | .node i tg ds cs, l, anc, out, h => by
    rw [foldl_events_node _ (idStep_ns mode d)]
    have hl0 : (l == 0) = false := by simp; omega
    by_cases hlt : l < d
    · have hk : d - l = (d - (l + 1)) + 1 := by omega
      simp only [idStep, hl0, Bool.false_and, Bool.false_eq_true, if_false, hlt, if_true]
      rw [idepth_subF mode d cs (l + 1) _ out (by omega)]
      have h1 : l + 1 ≤ d := hlt
      have h2 : l ≤ d := by omega
      have h3 : (l != d) = true := by simp; omega
      simp only [idStep, Nat.add_sub_cancel, hl0, Bool.false_eq_true, if_false, h3, if_true, hlt,
        List.dropLast_concat, h1, h2, true_and, hk, chunksAt]
    · by_cases heq : l = d
      · subst heq
        simp only [idStep, hl0, Bool.false_and, Bool.false_eq_true, if_false, hlt]
        rw [idepth_subF mode l cs (l + 1) _ out (by omega)]
        have h1 : ¬ (l + 1 ≤ l) := by omega
        simp only [h1, false_and, if_false, List.append_nil, idStep, Nat.add_sub_cancel, hl0,
          Bool.false_eq_true, bne_self_eq_false, Nat.le_refl, true_and, Nat.sub_self, chunksAt]
        by_cases hm : mode = 3 <;> simp [hm]
      · have hgt : d < l := by omega
        simp only [idStep, hl0, Bool.false_and, Bool.false_eq_true, if_false, hlt]
        rw [idepth_subF mode d cs (l + 1) _ out (by omega)]
        have h1 : ¬ (l + 1 ≤ d) := by omega
        have h2 : ¬ (l ≤ d) := by omega
        have h3 : (l != d) = true := by simp; omega
        simp only [h1, h2, false_and, if_false, List.append_nil, idStep, Nat.add_sub_cancel, hl0,
          Bool.false_eq_true, h3, if_true, hlt]
theorem idepth_subF (mode d : Nat) : ∀ (ts : List Tree) (l : Nat) (anc : List Nat)
    (out : List (Nat × List Nat)), 1 ≤ l →
    (eventsF ts).foldl (idStep mode d) ⟨l, anc, out⟩
      = ⟨l, anc, out ++ (if l ≤ d ∧ mode ≠ 3 then chunksAtF (d - l) anc ts else [])⟩
  | [], l, anc, out, _ => by simp [eventsF, chunksAtF]
  | t :: ts, l, anc, out, h => by
    simp only [eventsF, List.foldl_append, chunksAtF]
    rw [idepth_sub mode d t l anc out h, idepth_subF mode d ts l anc _ h]
    by_cases hc : l ≤ d ∧ mode ≠ 3 <;> simp [hc, List.append_assoc]
end

mutual
theorem ifind_sub (pd : Nat) : ∀ (t : Tree) (l : Nat) (anc : List Nat) (out : List (Nat × List Nat)),
    (events t).foldl (ifStep pd) ⟨l, anc, out⟩
      = ⟨l, anc, out ++ (if l ≤ pd then chunksAt (pd - l) anc t else [])⟩
  | .node i tg ds cs, l, anc, out => by
    rw [foldl_events_node _ (ifStep_ns pd)]
    by_cases hlt : l < pd
    · have hk : pd - l = (pd - (l + 1)) + 1 := by omega
      simp only [ifStep, hlt, if_true]
      rw [ifind_subF pd cs (l + 1) _ out]
      have h1 : l + 1 ≤ pd := hlt
      have h2 : l ≤ pd := by omega
      simp only [ifStep, Nat.add_sub_cancel, hlt, if_true, List.dropLast_concat, h1, h2, hk, chunksAt]
    · by_cases heq : l = pd
      · subst heq
        simp only [ifStep, hlt, if_false]
        rw [ifind_subF l cs (l + 1) _ out]
        have h1 : ¬ (l + 1 ≤ l) := by omega
        simp [h1, ifStep, chunksAt]
      · have hgt : pd < l := by omega
        simp only [ifStep, hlt, if_false]
        rw [ifind_subF pd cs (l + 1) _ out]
        have h1 : ¬ (l + 1 ≤ pd) := by omega
        have h2 : ¬ (l ≤ pd) := by omega
        have h3 : (l == pd) = false := by simp; omega
        simp [h1, h2, ifStep, hlt, h3]
theorem ifind_subF (pd : Nat) : ∀ (ts : List Tree) (l : Nat) (anc : List Nat)
    (out : List (Nat × List Nat)),
    (eventsF ts).foldl (ifStep pd) ⟨l, anc, out⟩
      = ⟨l, anc, out ++ (if l ≤ pd then chunksAtF (pd - l) anc ts else [])⟩
  | [], l, anc, out => by simp [eventsF, chunksAtF]
  | t :: ts, l, anc, out => by
    simp only [eventsF, List.foldl_append, chunksAtF]
    rw [ifind_sub pd t l anc out, ifind_subF pd ts l anc _]
    by_cases hc : l ≤ pd <;> simp [hc, List.append_assoc]
end

/-! ### compositional validator: depth cut and chunks -/

section val
variable {D E : Type}

mutual
theorem tags_ge (v : Val D E) : ∀ (t : Tree) (pos : List Nat) (d : D),
    ∀ e ∈ eagerT v pos d t, pos.length ≤ e.1.length
  | .node i tg ds cs, pos, d => by
    simp only [eagerT]
    exact tags_geK v cs pos d _ 0
theorem tags_geK (v : Val D E) : ∀ (cs : List Tree) (pos : List Nat) (d : D) (parent : Tree) (j : Nat),
    ∀ e ∈ eagerKids v pos d parent j cs, pos.length ≤ e.1.length
  | [], pos, d, parent, j => by
    intro e he
    simp only [eagerKids, List.mem_map] at he
    obtain ⟨_, _, rfl⟩ := he
    exact Nat.le_refl _
  | c :: cs, pos, d, parent, j => by
    intro e he
    simp only [eagerKids, List.mem_append, List.mem_map] at he
    rcases he with (⟨_, _, rfl⟩ | he) | he
    · exact Nat.le_refl _
    · cases hg : v.gov d parent j with
      | none => simp [hg] at he
      | some d' =>
        simp only [hg] at he
        have := tags_ge v c (pos ++ [j]) d' e he
        simp at this
        omega
    · exact tags_geK v cs pos d parent (j + 1) e he
end

theorem filter_own_lt (pos : List Nat) (k : Nat) (hk : 1 ≤ k) (l : List E) :
    (l.map (fun e => (pos, e))).filter (fun e => decide (e.1.length < pos.length + k))
      = l.map (fun e => (pos, e)) := by
  apply List.filter_eq_self.mpr
  intro e he
  simp only [List.mem_map] at he
  obtain ⟨_, _, rfl⟩ := he
  simp; omega

theorem filter_own_ge (pos : List Nat) (k : Nat) (hk : 1 ≤ k) (l : List E) :
    (l.map (fun e => (pos, e))).filter (fun e => !decide (e.1.length < pos.length + k)) = [] := by
  apply List.filter_eq_nil_iff.mpr
  intro e he
  simp only [List.mem_map] at he
  obtain ⟨_, _, rfl⟩ := he
  simp; omega

/- T1: the errors owned by elements above the cut are exactly the errors of the depth-limited run -/
mutual
theorem cut_eq_filter (v : Val D E) : ∀ (t : Tree) (k : Nat) (pos : List Nat) (d : D), 1 ≤ k →
    (eagerT v pos d t).filter (fun e => decide (e.1.length < pos.length + k)) = cutT v k pos d t
  | .node i tg ds cs, k, pos, d, hk => by
    simp only [eagerT, cutT]
    exact cut_eq_filterK v cs k pos d _ 0 hk
theorem cut_eq_filterK (v : Val D E) : ∀ (cs : List Tree) (k : Nat) (pos : List Nat) (d : D)
    (parent : Tree) (j : Nat), 1 ≤ k →
    (eagerKids v pos d parent j cs).filter (fun e => decide (e.1.length < pos.length + k))
      = cutKids v k pos d parent j cs
  | [], k, pos, d, parent, j, hk => by
    simp only [eagerKids, cutKids]
    exact filter_own_lt pos k hk _
  | c :: cs, k, pos, d, parent, j, hk => by
    simp only [eagerKids, cutKids, List.filter_append]
    rw [filter_own_lt pos k hk, cut_eq_filterK v cs k pos d parent (j + 1) hk]
    congr 2
    cases hg : v.gov d parent j with
    | none => simp
    | some d' =>
      simp only
      by_cases h1 : 1 < k
      · simp only [h1, if_true]
        have := cut_eq_filter v c (k - 1) (pos ++ [j]) d' (by omega)
        rw [← this]
        congr 1
        funext e
        simp only [List.length_append, List.length_cons, List.length_nil]
        congr 1
        apply propext
        constructor <;> intro h <;> omega
      · simp only [h1, if_false]
        apply List.filter_eq_nil_iff.mpr
        intro e he
        have := tags_ge v c (pos ++ [j]) d' e he
        simp at this
        simp; omega
end

mutual
theorem chunkPairs_none (v : Val D E) : ∀ (t : Tree) (k : Nat) (pos : List Nat),
    ∀ p ∈ chunkPairs v k pos none t, p.2.1 = none
  | .node i tg ds cs, 0, pos => by
    intro p hp
    simp only [chunkPairs, List.mem_singleton] at hp
    subst hp; rfl
  | .node i tg ds cs, k + 1, pos => by
    simp only [chunkPairs]
    exact chunkPairsF_none v cs k pos _ 0
theorem chunkPairsF_none (v : Val D E) : ∀ (cs : List Tree) (k : Nat) (pos : List Nat) (parent : Tree)
    (j : Nat), ∀ p ∈ chunkPairsF v k pos none parent j cs, p.2.1 = none
  | [], k, pos, parent, j => by simp [chunkPairsF]
  | c :: cs, k, pos, parent, j => by
    intro p hp
    simp only [chunkPairsF, List.mem_append, Option.bind_none] at hp
    rcases hp with hp | hp
    · exact chunkPairs_none v c k (pos ++ [j]) p hp
    · exact chunkPairsF_none v cs k pos parent (j + 1) p hp
end

theorem chunkErrs_none (v : Val D E) (t : Tree) (k : Nat) (pos : List Nat) :
    chunkErrs v govPick k pos none t = [] := by
  unfold chunkErrs
  apply List.flatMap_eq_nil_iff.mpr
  intro p hp
  have := chunkPairs_none v t k pos p hp
  simp [govPick, this]

/-- the per-chunk contribution -/
def chunkF (v : Val D E) (pick : Option D → Tree → Option D) (p : List Nat × Option D × Tree) :
    List (List Nat × E) :=
  match pick p.2.1 p.2.2 with
  | some d' => eagerT v p.1 d' p.2.2
  | none => []

theorem chunkErrs_def (v : Val D E) (pick : Option D → Tree → Option D) (k : Nat) (pos : List Nat)
    (d : Option D) (t : Tree) :
    chunkErrs v pick k pos d t = (chunkPairs v k pos d t).flatMap (chunkF v pick) := rfl

/- T2: the errors owned by elements at or below the cut are the errors of the chunks, in document order,
   each chunk validated against its governing declaration -/
mutual
theorem deep_eq_chunks (v : Val D E) : ∀ (t : Tree) (k : Nat) (pos : List Nat) (d : D),
    (eagerT v pos d t).filter (fun e => !decide (e.1.length < pos.length + k))
      = chunkErrs v govPick k pos (some d) t
  | .node i tg ds cs, 0, pos, d => by
    rw [chunkErrs_def]
    simp only [chunkPairs, List.flatMap_cons, List.flatMap_nil, List.append_nil, chunkF, govPick]
    apply List.filter_eq_self.mpr
    intro e he
    have := tags_ge v _ pos d e he
    simp; omega
  | .node i tg ds cs, k + 1, pos, d => by
    rw [chunkErrs_def]
    simp only [eagerT, chunkPairs]
    exact deep_eq_chunksK v cs k pos d _ 0
theorem deep_eq_chunksK (v : Val D E) : ∀ (cs : List Tree) (k : Nat) (pos : List Nat) (d : D)
    (parent : Tree) (j : Nat),
    (eagerKids v pos d parent j cs).filter (fun e => !decide (e.1.length < pos.length + (k + 1)))
      = (chunkPairsF v k pos (some d) parent j cs).flatMap (chunkF v govPick)
  | [], k, pos, d, parent, j => by
    simp only [eagerKids, chunkPairsF, List.flatMap_nil]
    exact filter_own_ge pos (k + 1) (by omega) _
  | c :: cs, k, pos, d, parent, j => by
    simp only [eagerKids, chunkPairsF, List.filter_append, List.flatMap_append, Option.bind_some]
    rw [filter_own_ge pos (k + 1) (by omega), deep_eq_chunksK v cs k pos d parent (j + 1)]
    simp only [List.nil_append]
    congr 1
    cases hg : v.gov d parent j with
    | none =>
      have := chunkErrs_none v c k (pos ++ [j])
      rw [chunkErrs_def] at this
      simp [this]
    | some d' =>
      simp only
      have := deep_eq_chunks v c k (pos ++ [j]) d'
      rw [chunkErrs_def] at this
      rw [← this]
      congr 1
      funext e
      simp only [List.length_append, List.length_cons, List.length_nil]
      congr 2
      apply propext
      constructor <;> intro h <;> omega
end

end val

/-! ### decoded data above the cut -/
section dec
variable {D A : Type}
mutual
theorem decode_cut_prune_aux (v : Dec D A) : ∀ (t : Tree) (k : Nat) (d : D),
    decodeCut v k d t = prune k (decode v d t)
  | .node i tg ds cs, k, d => by
    simp only [decodeCut, decode, prune]
    rw [decode_cut_prune_auxK v cs k d _ 0]
theorem decode_cut_prune_auxK (v : Dec D A) : ∀ (cs : List Tree) (k : Nat) (d : D) (parent : Tree) (j : Nat),
    decodeCutKids v k d parent j cs = pruneKids k (decodeKids v d parent j cs)
  | [], k, d, parent, j => by simp [decodeCutKids, decodeKids, pruneKids]
  | c :: cs, k, d, parent, j => by
    simp only [decodeCutKids, decodeKids]
    rw [decode_cut_prune_auxK v cs k d parent (j + 1)]
    cases hg : v.gov d parent j with
    | none => simp
    | some d' =>
      simp only [List.singleton_append, pruneKids]
      by_cases h1 : 1 < k
      · simp only [h1, if_true]
        rw [decode_cut_prune_aux v c (k - 1) d']
      · simp [h1]
end

end dec

end XsVerif.Lazy
