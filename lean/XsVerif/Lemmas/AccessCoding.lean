/-
  C12 — percent coding and `posixpath.normpath` facts that `sandbox_confines` and the nested-load
  induction rely on (previously only tested against CPython).  Core Lean only.
-/
import XsVerif.Lemmas.Access
namespace XsVerif.Access

/-! ### unquote ∘ quote = id on bytes -/
theorem hexVal_hex : ∀ x, x < 16 → hexVal (hex x) = some x := by decide

theorem unquote_cons_ne (c : Nat) (t : Bytes) (h : c ≠ 37) : unquote (c :: t) = c :: unquote t := by
  rw [unquote.eq_def]
  split
  · rename_i heq; simp at heq; exact absurd heq.1 h
  · rename_i heq; simp at heq; obtain ⟨rfl, rfl⟩ := heq; rfl
  · simp at *

theorem unquote_pct (x y : Nat) (hx : x < 16) (hy : y < 16) (t : Bytes) :
    unquote (37 :: hex x :: hex y :: t) = (16 * x + y) :: unquote t := by
  rw [unquote.eq_def]
  simp [hexVal_hex x hx, hexVal_hex y hy]

theorem lt_256_of_not_safe {c : Nat} (h : ¬ isSafe c = true) : c < 256 := by
  unfold isSafe at h
  simp only [Bool.or_eq_true, decide_eq_true_eq, not_or] at h
  omega

/-- `unquote_to_bytes(quote_from_bytes(p)) == p` for every byte string (values that are not bytes
    are passed through by the model's `quote`, so no range hypothesis is needed) -/
theorem unquote_quote (p : Bytes) : unquote (quote p) = p := by
  induction p with
  | nil => simp [quote, unquote]
  | cons c t ih =>
    rw [quote_cons]
    unfold qc
    by_cases hs : isSafe c = true
    · have : c ≠ 37 := by intro e; subst e; simp [isSafe_37] at hs
      simp only [hs, if_true, List.singleton_append]
      rw [unquote_cons_ne c _ this, ih]
    · have hc := lt_256_of_not_safe hs
      simp only [hs]
      simp only [Bool.false_eq_true, if_false, List.cons_append, List.nil_append]
      rw [unquote_pct (c / 16) (c % 16) (by omega) (by omega), ih]
      congr 1; omega

/-! ### normal forms of `posixpath.normpath` -/
/-- a component that can occur in a '/'-joined path: non-empty, without separator -/
def Seg (c : Bytes) : Prop := c ≠ [] ∧ 47 ∉ c

theorem CleanComp.seg {c : Bytes} (h : CleanComp c) : Seg c := ⟨h.1, h.2.2.2⟩
theorem seg_dotdot : Seg dotdot := by unfold Seg dotdot; decide

/-- normal component lists: a block of `..` (relative paths only) followed by real names -/
def Normal (isAbs : Bool) (cs : List Bytes) : Prop :=
  ∃ k cl, cs = List.replicate k dotdot ++ cl ∧ (∀ c ∈ cl, CleanComp c) ∧ (isAbs = true → k = 0)

theorem Normal.seg {isAbs : Bool} {cs : List Bytes} (h : Normal isAbs cs) : ∀ c ∈ cs, Seg c := by
  obtain ⟨k, cl, rfl, hcl, -⟩ := h
  intro c hc
  rcases List.mem_append.mp hc with hc | hc
  · rw [(List.mem_replicate.mp hc).2]; exact seg_dotdot
  · exact (hcl c hc).seg

/-- `acc` (the reversed `new_comps`) is normal -/
def NormalRev (isAbs : Bool) (acc : List Bytes) : Prop :=
  ∃ k cl, acc = cl ++ List.replicate k dotdot ∧ (∀ c ∈ cl, CleanComp c) ∧ (isAbs = true → k = 0)

theorem normStep_normalRev (isAbs : Bool) (acc : List Bytes) (comp : Bytes)
    (hacc : NormalRev isAbs acc) (hcomp : 47 ∉ comp) : NormalRev isAbs (normStep isAbs acc comp) := by
  obtain ⟨k, cl, rfl, hcl, hk⟩ := hacc
  unfold normStep
  split
  · exact ⟨k, cl, rfl, hcl, hk⟩
  · rename_i h1
    have hne : comp ≠ [] := fun e => h1 (Or.inl e)
    have hnd : comp ≠ dot := fun e => h1 (Or.inr e)
    split
    · rename_i h2
      by_cases hdd : comp = dotdot
      · subst hdd
        rcases h2 with h2 | h2 | h2
        · exact absurd rfl h2
        · obtain ⟨hab, he⟩ := h2
          have : cl = [] ∧ k = 0 := by
            cases cl with
            | nil => cases k with
              | zero => exact ⟨rfl, rfl⟩
              | succ j => simp [List.replicate_succ] at he
            | cons a t => simp at he
          obtain ⟨rfl, rfl⟩ := this
          exact ⟨1, [], by simp, by simp, by simp [hab]⟩
        · cases cl with
          | nil =>
            cases k with
            | zero => simp at h2
            | succ j =>
              refine ⟨j + 2, [], ?_, by simp, ?_⟩
              · simp [List.replicate_succ]
              · intro hab; have := hk hab; omega
          | cons a t =>
            simp at h2
            exact absurd h2 (hcl a (by simp)).2.2.1
      · refine ⟨k, comp :: cl, by simp, ?_, hk⟩
        intro c hc
        rcases List.mem_cons.mp hc with rfl | hc
        · exact ⟨hne, hnd, hdd, hcomp⟩
        · exact hcl c hc
    · rename_i h2
      cases cl with
      | nil =>
        cases k with
        | zero => exact ⟨0, [], by simp, by simp, by simp⟩
        | succ j =>
          exfalso; apply h2; right; right; simp [List.replicate_succ]
      | cons a t =>
        refine ⟨k, t, by simp, fun c hc => hcl c (by simp [hc]), hk⟩

theorem foldl_normStep_normalRev (isAbs : Bool) (cs acc : List Bytes) (hacc : NormalRev isAbs acc)
    (hcs : ∀ c ∈ cs, 47 ∉ c) : NormalRev isAbs (cs.foldl (normStep isAbs) acc) := by
  induction cs generalizing acc with
  | nil => simpa using hacc
  | cons a t ih =>
    simp only [List.foldl_cons]
    exact ih _ (normStep_normalRev isAbs acc a hacc (hcs a (by simp))) (fun c hc => hcs c (by simp [hc]))

theorem normComps_normal (isAbs : Bool) (p : Bytes) : Normal isAbs (normComps isAbs (split p)) := by
  have := foldl_normStep_normalRev isAbs (split p) [] ⟨0, [], by simp, by simp, by simp⟩ (split_mem_noSep p)
  obtain ⟨k, cl, h, hcl, hk⟩ := this
  refine ⟨k, cl.reverse, ?_, fun c hc => hcl c (List.mem_reverse.mp hc), hk⟩
  unfold normComps
  rw [h]; simp

/-! normal lists are fixed points of the loop -/

theorem normStep_clean_push (isAbs : Bool) (acc : List Bytes) {c : Bytes} (hc : CleanComp c) :
    normStep isAbs acc c = c :: acc := by
  unfold normStep
  have h1 : ¬ (c = [] ∨ c = dot) := fun h => h.elim hc.1 hc.2.1
  simp [h1, hc.2.2.1]

theorem foldl_normStep_cleans (isAbs : Bool) (cl acc : List Bytes) (hcl : ∀ c ∈ cl, CleanComp c) :
    cl.foldl (normStep isAbs) acc = cl.reverse ++ acc := by
  induction cl generalizing acc with
  | nil => simp
  | cons a t ih =>
    simp only [List.foldl_cons, normStep_clean_push isAbs acc (hcl a (by simp))]
    rw [ih _ (fun c hc => hcl c (by simp [hc]))]; simp

theorem foldl_normStep_dotdots (k j : Nat) :
    (List.replicate k dotdot).foldl (normStep false) (List.replicate j dotdot) = List.replicate (j + k) dotdot := by
  induction k generalizing j with
  | zero => simp
  | succ n ih =>
    have hstep : normStep false (List.replicate j dotdot) dotdot = List.replicate (j + 1) dotdot := by
      unfold normStep
      have h1 : ¬ (dotdot = [] ∨ dotdot = dot) := by decide
      simp only [h1, if_false]
      cases j with
      | zero => simp
      | succ i => simp [List.replicate_succ]
    simp only [List.replicate_succ, List.foldl_cons]
    have := hstep
    simp only [List.replicate_succ] at this
    rw [this]
    have := ih (j + 1)
    simp only [List.replicate_succ] at this
    rw [this]
    congr 1; omega

theorem foldl_normStep_skip_empty (isAbs : Bool) (n : Nat) (xs acc : List Bytes) :
    (List.replicate n [] ++ xs).foldl (normStep isAbs) acc = xs.foldl (normStep isAbs) acc := by
  induction n with
  | zero => simp
  | succ k ih => simp [List.replicate_succ, normStep, ih]

theorem normComps_normal_id {isAbs : Bool} {cs : List Bytes} (h : Normal isAbs cs) (n : Nat) :
    normComps isAbs (List.replicate n [] ++ cs) = cs := by
  obtain ⟨k, cl, rfl, hcl, hk⟩ := h
  unfold normComps
  rw [foldl_normStep_skip_empty, List.foldl_append]
  cases isAbs with
  | true =>
    have := hk rfl; subst this
    simp [foldl_normStep_cleans true cl [] hcl]
  | false =>
    have := foldl_normStep_dotdots k 0
    simp only [List.replicate_zero, Nat.zero_add] at this
    rw [this, foldl_normStep_cleans false cl _ hcl]
    simp

/-! ### `normpath` at string level: shape, idempotence, no dot segments -/

theorem split_join_seg (cs : List Bytes) (hne : cs ≠ []) (h : ∀ c ∈ cs, 47 ∉ c) : split (join cs) = cs := by
  induction cs with
  | nil => exact absurd rfl hne
  | cons a t ih =>
    cases t with
    | nil => simp [join, split_noSep (h a (by simp))]
    | cons b r =>
      simp only [join]
      rw [split_append_sep, split_noSep (h a (by simp)), ih (by simp) (fun c hc => h c (by simp [hc]))]
      rfl

theorem split_replicate_append (n : Nat) (s : Bytes) :
    split (List.replicate n 47 ++ s) = List.replicate n [] ++ split s := by
  induction n with
  | zero => simp
  | succ k ih => simp [List.replicate_succ, split_cons_sep, ih]

theorem comps_join_seg (cs : List Bytes) (h : ∀ c ∈ cs, Seg c) : comps (join cs) = cs := by
  induction cs with
  | nil => simp [join, comps_nil]
  | cons a t ih =>
    have ha := h a (by simp)
    cases t with
    | nil => simp [join, comps_noSep ha.2 ha.1]
    | cons b r =>
      simp only [join]
      rw [comps_append_sep, comps_noSep ha.2 ha.1, ih (fun c hc => h c (by simp [hc]))]
      rfl

theorem initialSlashes_le (p : Bytes) : initialSlashes p ≤ 2 := by
  unfold initialSlashes; split <;> omega

theorem join_head_ne_sep {a : Bytes} {t : List Bytes} (ha : Seg a) :
    ∃ x r, join (a :: t) = x :: r ∧ x ≠ 47 := by
  cases a with
  | nil => exact absurd rfl ha.1
  | cons x xs =>
    have hx : x ≠ 47 := fun e => ha.2 (by simp [e])
    cases t with
    | nil => exact ⟨x, xs, by simp [join], hx⟩
    | cons b r => exact ⟨x, xs ++ 47 :: join (b :: r), by simp [join], hx⟩

theorem initialSlashes_replicate (n : Nat) (hn : n ≤ 2) (s : Bytes) (hs : ∀ x r, s = x :: r → x ≠ 47) :
    initialSlashes (List.replicate n 47 ++ s) = n := by
  have h0 : initialSlashes s = 0 := by
    cases s with
    | nil => rfl
    | cons x r =>
      have := hs x r rfl
      unfold initialSlashes; split <;> simp_all
  match n, hn with
  | 0, _ => simpa using h0
  | 1, _ =>
    cases s with
    | nil => rfl
    | cons x r => simp [List.replicate_succ, initialSlashes, hs x r rfl]
  | 2, _ =>
    cases s with
    | nil => rfl
    | cons x r => simp [List.replicate_succ, initialSlashes, hs x r rfl]

/-- the shape of every result of `posixpath.normpath` -/
theorem normpath_shape (p : Bytes) :
    normpath p = dot ∨ ∃ n N, normpath p = List.replicate n 47 ++ join N ∧ n ≤ 2 ∧
      Normal (n != 0) N ∧ (N = [] → 0 < n) ∧ n = initialSlashes p ∧ N = normComps (n != 0) (split p) := by
  unfold normpath
  by_cases hp : p = []
  · simp [hp]
  · simp only [hp, if_false]
    by_cases hr : List.replicate (initialSlashes p) 47 ++ join (normComps (initialSlashes p != 0) (split p)) = []
    · simp [hr]
    · right
      refine ⟨initialSlashes p, normComps (initialSlashes p != 0) (split p), by simp [hr],
        initialSlashes_le p, normComps_normal _ p, ?_, rfl, rfl⟩
      intro hN
      rw [hN] at hr
      cases h : initialSlashes p with
      | zero => simp [h, join] at hr
      | succ k => omega

/-- a string of normal shape is a fixed point of `normpath` -/
theorem normpath_of_normal (n : Nat) (N : List Bytes) (hn : n ≤ 2) (hN : Normal (n != 0) N)
    (hpos : N = [] → 0 < n) : normpath (List.replicate n 47 ++ join N) = List.replicate n 47 ++ join N := by
  cases N with
  | nil =>
    have := hpos rfl
    match n, hn, this with
    | 1, _, _ => decide
    | 2, _, _ => decide
  | cons a t =>
    have hseg := hN.seg
    obtain ⟨x, r, hj, hx⟩ := join_head_ne_sep (t := t) (hseg a (by simp))
    have hi : initialSlashes (List.replicate n 47 ++ join (a :: t)) = n :=
      initialSlashes_replicate n hn _ (fun y s e => by rw [hj] at e; cases e; exact hx)
    have hne : List.replicate n 47 ++ join (a :: t) ≠ [] := by rw [hj]; simp
    unfold normpath
    simp only [hne, if_false, hi]
    rw [split_replicate_append, split_join_seg _ (by simp) (fun c hc => (hseg c hc).2),
      normComps_normal_id hN]
    simp [hne]

/-- `posixpath.normpath` is idempotent — for every byte string -/
theorem normpath_idempotent (p : Bytes) : normpath (normpath p) = normpath p := by
  rcases normpath_shape p with h | ⟨n, N, h, hn, hN, hpos, -, -⟩
  · rw [h]; decide
  · rw [h]; exact normpath_of_normal n N hn hN hpos

/-- no `.` and no empty segment survives `normpath`, and `..` survives only as a leading block of a
    relative path: the result is "." or its components are `..`* followed by real names. -/
theorem normpath_no_dot_segments (p : Bytes) :
    normpath p = dot ∨ ∃ k cl, comps (normpath p) = List.replicate k dotdot ++ cl ∧
      (∀ c ∈ cl, CleanComp c) ∧ (isAbsPath p = true → k = 0) := by
  rcases normpath_shape p with h | ⟨n, N, h, hn, hN, hpos, hi, -⟩
  · exact Or.inl h
  · right
    obtain ⟨k, cl, hN', hcl, hk⟩ := hN
    refine ⟨k, cl, ?_, hcl, ?_⟩
    · rw [h, comps_replicate_append, comps_join_seg N (Normal.seg ⟨k, cl, hN', hcl, hk⟩), hN']
    · intro habs
      apply hk
      have := initialSlashes_pos habs
      simp; omega

example : normpath [47, 97, 47, 46, 46, 47, 46, 47, 98] = [47, 98] := by decide
example : normpath [46, 46, 47, 97, 47, 46, 46, 47, 46, 46] = [46, 46, 47, 46, 46] := by decide


end XsVerif.Access
