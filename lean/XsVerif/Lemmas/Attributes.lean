/-
  Helper lemmas about the attribute-group model (dict lookups, presence tests).
  Nothing here mentions the specification of C03.
-/
import XsVerif.Model.Attributes

namespace XsVerif.Attributes
open XsVerif.Wildcard

theorem lookup_some_mem {l : List Decl} {n : QN} {d : Decl} (h : lookup l n = some d) :
    d ∈ l ∧ d.name = n := by
  unfold lookup at h
  have h1 := List.mem_of_find?_eq_some h
  have h2 := List.find?_some h
  exact ⟨h1, by simpa using h2⟩

theorem lookup_none_iff {l : List Decl} {n : QN} : lookup l n = none ↔ ∀ d ∈ l, d.name ≠ n := by
  unfold lookup
  simp

theorem lookup_of_nodup {l : List Decl} (hnd : (l.map (·.name)).Nodup) {d : Decl} (hd : d ∈ l) :
    lookup l d.name = some d := by
  induction l with
  | nil => cases hd
  | cons x t ih =>
    simp only [List.map_cons, List.nodup_cons] at hnd
    unfold lookup
    rw [List.find?_cons]
    by_cases hx : x.name = d.name
    · simp only [hx, beq_self_eq_true]
      rcases List.mem_cons.mp hd with rfl | hd'
      · rfl
      · have h1 : ∀ y ∈ t, ¬ y.name = d.name := by simpa [hx] using hnd.1
        exact absurd rfl (h1 d hd')
    · have : (x.name == d.name) = false := by simpa using hx
      simp only [this]
      rcases List.mem_cons.mp hd with rfl | hd'
      · exact absurd rfl hx
      · exact ih hnd.2 hd'

theorem present_iff {A : List Attr} {n : QN} : present A n = true ↔ ∃ v, (n, v) ∈ A := by
  unfold present
  simp only [List.any_eq_true, beq_iff_eq]
  constructor
  · rintro ⟨⟨m, v⟩, hm, rfl⟩; exact ⟨v, hm⟩
  · rintro ⟨v, hv⟩; exact ⟨(n, v), hv, rfl⟩

theorem present_false_iff {A : List Attr} {n : QN} : present A n = false ↔ ∀ v, (n, v) ∉ A := by
  rw [← Bool.not_eq_true, present_iff]; simp

theorem declErrs_nil_iff (s : Sem) (hrefl : ∀ t x, s.valueEq t x x = true) (d : Decl) (n : QN)
    (v : String) :
    declErrs s d n v = [] ↔
      (s.validT d.ty v = true ∧ ∀ f, d.fixed = some f → s.valueEq d.ty v f = true) := by
  unfold declErrs
  cases hf : d.fixed with
  | none => cases hv : s.validT d.ty v <;> simp
  | some f =>
    by_cases hvf : v = f
    · subst hvf; cases hv : s.validT d.ty v <;> simp [hrefl]
    · cases hv : s.validT d.ty v <;> cases he : s.valueEq d.ty v f <;> simp [hvf]

theorem filterMap_congr' {α β : Type} {f g : α → Option β} {l : List α} (h : ∀ a ∈ l, f a = g a) :
    l.filterMap f = l.filterMap g := by
  induction l with
  | nil => rfl
  | cons x t ih =>
    simp only [List.filterMap_cons, h x (List.mem_cons_self ..)]
    rw [ih fun a ha => h a (List.mem_cons_of_mem _ ha)]

theorem flatMap_congr' {α β : Type} {f g : α → List β} {l : List α} (h : ∀ a ∈ l, f a = g a) :
    l.flatMap f = l.flatMap g := by
  induction l with
  | nil => rfl
  | cons x t ih =>
    simp only [List.flatMap_cons, h x (List.mem_cons_self ..)]
    rw [ih fun a ha => h a (List.mem_cons_of_mem _ ha)]

end XsVerif.Attributes
