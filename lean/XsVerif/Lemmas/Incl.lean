/-
  Lemmas for C14: normalisation preserves the language, soundness of inclusion certificates,
  monotonicity of the regular operators (the facts the restriction rules of the code rely on).
-/
import XsVerif.Lemmas.Rx
import XsVerif.Model.Incl

namespace XsVerif.Rx
variable {L σ : Type} (m : L → σ → Bool)

/-! ### normalisation -/

theorem altList_iff (r : Rx L) (w : List σ) : (∃ x ∈ altList r, Lang m x w) ↔ Lang m r w := by
  induction r with
  | alt r s ihr ihs =>
    simp only [altList, List.mem_append, Lang, ← ihr, ← ihs]
    constructor
    · rintro ⟨x, hx | hx, h⟩
      · exact .inl ⟨x, hx, h⟩
      · exact .inr ⟨x, hx, h⟩
    · rintro (⟨x, hx, h⟩ | ⟨x, hx, h⟩)
      · exact ⟨x, .inl hx, h⟩
      · exact ⟨x, .inr hx, h⟩
  | empty => simp [altList]
  | eps => simp [altList]
  | sym a => simp [altList]
  | cat r s _ _ => simp [altList]
  | rep r lo hi _ => simp [altList]
  | shuffle r s _ _ => simp [altList]

theorem ofAltList_iff (l : List (Rx L)) (w : List σ) :
    Lang m (ofAltList l) w ↔ ∃ x ∈ l, Lang m x w := by
  induction l with
  | nil => simp [ofAltList, Lang]
  | cons a t ih =>
    cases t with
    | nil => simp [ofAltList]
    | cons b t' =>
      simp only [ofAltList, Lang] at ih ⊢
      rw [ih]
      simp

theorem mem_dedupL [DecidableEq L] (l : List (Rx L)) (x : Rx L) : x ∈ dedupL l ↔ x ∈ l := by
  induction l with
  | nil => simp [dedupL]
  | cons a t ih =>
    simp only [dedupL]
    split
    · rename_i h
      have : a ∈ t := by simpa using h
      rw [ih]
      constructor
      · exact fun h => List.mem_cons_of_mem _ h
      · intro h
        rcases List.mem_cons.mp h with rfl | h
        · exact this
        · exact h
    · simp [ih]

theorem mkAlt_iff [DecidableEq L] (r s : Rx L) (w : List σ) :
    Lang m (mkAlt r s) w ↔ Lang m r w ∨ Lang m s w := by
  unfold mkAlt
  rw [ofAltList_iff, ← altList_iff m r, ← altList_iff m s]
  constructor
  · rintro ⟨x, hx, h⟩
    rw [mem_dedupL, List.mem_filter, List.mem_append] at hx
    rcases hx.1 with hx | hx
    · exact .inl ⟨x, hx, h⟩
    · exact .inr ⟨x, hx, h⟩
  · intro h
    have key : ∀ x, x ∈ altList r ++ altList s → Lang m x w →
        ∃ y ∈ dedupL ((altList r ++ altList s).filter fun x => !isEmpty x), Lang m y w := by
      intro x hx hl
      refine ⟨x, ?_, hl⟩
      rw [mem_dedupL, List.mem_filter]
      refine ⟨hx, ?_⟩
      cases he : isEmpty x with
      | false => rfl
      | true => exact absurd hl (isEmpty_sound m x he w)
    rcases h with ⟨x, hx, h⟩ | ⟨x, hx, h⟩
    · exact key x (List.mem_append.mpr (.inl hx)) h
    · exact key x (List.mem_append.mpr (.inr hx)) h

theorem isEps_eq {r : Rx L} (h : isEps r = true) : r = .eps := by
  cases r <;> simp [isEps] at h ⊢

theorem interleave_nil_left {v w : List σ} : Interleave [] v w ↔ v = w := by
  constructor
  · intro h
    generalize hu : ([] : List σ) = u at h
    induction h with
    | nil => rfl
    | left c _ _ => cases hu
    | right c _ ih => rw [ih hu]
  · rintro rfl
    induction v with
    | nil => exact .nil
    | cons c v ih => exact .right c ih

theorem interleave_nil_right {u w : List σ} : Interleave u [] w ↔ u = w := by
  constructor
  · intro h
    generalize hv : ([] : List σ) = v at h
    induction h with
    | nil => rfl
    | right c _ _ => cases hv
    | left c _ ih => rw [ih hv]
  · rintro rfl
    induction u with
    | nil => exact .nil
    | cons c u ih => exact .left c ih

theorem mkCat_iff (r s : Rx L) (w : List σ) : Lang m (mkCat r s) w ↔ Lang m (.cat r s) w := by
  unfold mkCat
  split
  · rename_i h
    simp only [Bool.or_eq_true] at h
    simp only [Lang, false_iff]
    rintro ⟨u, v, _, h1, h2⟩
    rcases h with h | h
    · exact isEmpty_sound m r h u h1
    · exact isEmpty_sound m s h v h2
  · split
    · rename_i h
      rw [isEps_eq h]
      simp only [Lang]
      constructor
      · intro h; exact ⟨[], w, rfl, rfl, h⟩
      · rintro ⟨u, v, rfl, rfl, h⟩; exact h
    · split
      · rename_i h
        rw [isEps_eq h]
        simp only [Lang]
        constructor
        · intro h; exact ⟨w, [], by simp, h, rfl⟩
        · rintro ⟨u, v, rfl, h, rfl⟩; simpa using h
      · rfl

theorem mkShuffle_iff (r s : Rx L) (w : List σ) :
    Lang m (mkShuffle r s) w ↔ Lang m (.shuffle r s) w := by
  unfold mkShuffle
  split
  · rename_i h
    simp only [Bool.or_eq_true] at h
    simp only [Lang, false_iff]
    rintro ⟨u, v, _, h1, h2⟩
    rcases h with h | h
    · exact isEmpty_sound m r h u h1
    · exact isEmpty_sound m s h v h2
  · split
    · rename_i h
      rw [isEps_eq h]
      simp only [Lang]
      constructor
      · intro h; exact ⟨[], w, interleave_nil_left.mpr rfl, rfl, h⟩
      · rintro ⟨u, v, hi, rfl, h⟩
        rw [← interleave_nil_left.mp hi]; exact h
    · split
      · rename_i h
        rw [isEps_eq h]
        simp only [Lang]
        constructor
        · intro h; exact ⟨w, [], interleave_nil_right.mpr rfl, h, rfl⟩
        · rintro ⟨u, v, hi, h, rfl⟩
          rw [← interleave_nil_right.mp hi]; exact h
      · rfl

theorem norm_iff [DecidableEq L] (r : Rx L) : ∀ w, Lang m (norm r) w ↔ Lang m r w := by
  induction r with
  | empty => intro w; simp [norm]
  | eps => intro w; simp [norm]
  | sym a => intro w; simp [norm]
  | rep r lo hi _ => intro w; simp [norm]
  | cat r s ihr ihs => intro w; simp only [norm, mkCat_iff, Lang, ihr, ihs]
  | alt r s ihr ihs => intro w; simp only [norm, mkAlt_iff, Lang, ihr, ihs]
  | shuffle r s ihr ihs => intro w; simp only [norm, mkShuffle_iff, Lang, ihr, ihs]

theorem step_iff [DecidableEq L] (c : σ) (r : Rx L) (w : List σ) :
    Lang m (step m c r) w ↔ Lang m r (c :: w) := by
  unfold step
  rw [norm_iff, deriv_iff]

/-! ### certificates -/

/-- a closed set of pairs is a simulation: inclusion holds for every pair in it, on every word over
    the alphabet the closure was computed for. -/
theorem closed_sound [DecidableEq L] (sig : List σ) (S : List (Rx L × Rx L))
    (h : closedB m sig S = true) :
    ∀ w : List σ, (∀ c ∈ w, c ∈ sig) → ∀ d b, (d, b) ∈ S → Lang m d w → Lang m b w := by
  unfold closedB at h
  rw [List.all_eq_true] at h
  intro w
  induction w with
  | nil =>
    intro _ d b hmem hd
    have := h (d, b) hmem
    simp only [Bool.and_eq_true, Bool.or_eq_true, Bool.not_eq_true'] at this
    rcases this.1 with hn | hn
    · have := (nullable_iff m d).mpr hd
      rw [hn] at this; cases this
    · exact (nullable_iff m b).mp hn
  | cons c w ih =>
    intro hw d b hmem hd
    have hp := h (d, b) hmem
    simp only [Bool.and_eq_true, List.all_eq_true, Bool.or_eq_true] at hp
    have hc := hp.2 c (hw c (by simp))
    have hd' : Lang m (step m c d) w := (step_iff m c d w).mpr hd
    rcases hc with he | hc
    · exact absurd hd' (isEmpty_sound m _ he w)
    · have hmem' : (step m c d, step m c b) ∈ S := by simpa using hc
      have := ih (fun x hx => hw x (by simp [hx])) _ _ hmem' hd'
      exact (step_iff m c b w).mp this

/-! ### monotonicity of the operators -/

theorem leHi_trans {n k : Nat} {hi : Option Nat} (h : n ≤ k) (hk : leHi k hi) : leHi n hi := by
  cases hi with
  | none => trivial
  | some x => simp only [leHi] at *; omega

/-- `rep` is monotone in its body. -/
theorem rep_mono_body {x y : Rx L} (lo : Nat) (hi : Option Nat)
    (h : ∀ w, Lang m x w → Lang m y w) : ∀ w, Lang m (.rep x lo hi) w → Lang m (.rep y lo hi) w := by
  rintro w ⟨ws, hw, hlo, hhi, hall⟩
  exact ⟨ws, hw, hlo, hhi, fun z hz => h z (hall z hz)⟩

theorem cat_mono {r r' s s' : Rx L} (hr : ∀ w, Lang m r w → Lang m r' w)
    (hs : ∀ w, Lang m s w → Lang m s' w) : ∀ w, Lang m (.cat r s) w → Lang m (.cat r' s') w := by
  rintro w ⟨u, v, hw, h1, h2⟩
  exact ⟨u, v, hw, hr u h1, hs v h2⟩

theorem alt_mono {r r' s s' : Rx L} (hr : ∀ w, Lang m r w → Lang m r' w)
    (hs : ∀ w, Lang m s w → Lang m s' w) : ∀ w, Lang m (.alt r s) w → Lang m (.alt r' s') w := by
  rintro w (h | h)
  · exact .inl (hr w h)
  · exact .inr (hs w h)

theorem shuffle_mono {r r' s s' : Rx L} (hr : ∀ w, Lang m r w → Lang m r' w)
    (hs : ∀ w, Lang m s w → Lang m s' w) :
    ∀ w, Lang m (.shuffle r s) w → Lang m (.shuffle r' s') w := by
  rintro w ⟨u, v, hw, h1, h2⟩
  exact ⟨u, v, hw, hr u h1, hs v h2⟩

theorem interleave_comm {u v w : List σ} (h : Interleave u v w) : Interleave v u w := by
  induction h with
  | nil => exact .nil
  | left c _ ih => exact .right c ih
  | right c _ ih => exact .left c ih

theorem shuffle_comm (r s : Rx L) (w : List σ) :
    Lang m (.shuffle r s) w ↔ Lang m (.shuffle s r) w := by
  constructor <;> rintro ⟨u, v, hw, h1, h2⟩ <;> exact ⟨v, u, interleave_comm hw, h2, h1⟩

/-- `included` is only answered with a closed certificate that contains the start pair. -/
theorem inclDecide_included [DecidableEq L] (sig : List σ) (fuel : Nat) (d b : Rx L)
    (h : inclDecide m sig fuel d b = .included) :
    ∀ w : List σ, (∀ c ∈ w, c ∈ sig) → Lang m d w → Lang m b w := by
  unfold inclDecide inclRun at h
  split at h
  · simp at h
  · simp only at h; split at h <;> simp at h
  · rename_i S _
    simp only at h
    split at h
    · rename_i hc
      simp only [Bool.and_eq_true, Bool.or_eq_true] at hc
      intro w hw hd
      rcases hc.2 with he | hm
      · exact absurd hd (isEmpty_sound m d he w)
      · exact closed_sound m sig S hc.1 w hw d b (by simpa using hm) hd
    · simp at h

/-- a returned witness is a word of `d` that is not a word of `b`. -/
theorem inclDecide_witness [DecidableEq L] (sig : List σ) (fuel : Nat) (d b : Rx L) (w : List σ)
    (h : inclDecide m sig fuel d b = .witness w) : Lang m d w ∧ ¬ Lang m b w := by
  unfold inclDecide inclRun at h
  split at h
  · simp at h
  · rename_i w' _
    simp only at h
    split at h
    · rename_i hc
      simp only [InclVerdict.witness.injEq] at h
      subst h
      simp only [Bool.and_eq_true, Bool.not_eq_true'] at hc
      refine ⟨(accepts_iff m d w').mp hc.1, ?_⟩
      intro hb
      have := (accepts_iff m b w').mpr hb
      rw [hc.2] at this; cases this
    · simp at h
  · simp only at h; split at h <;> simp at h

/-! ### repetition of a single symbol (leaf particles) -/

theorem rep_sym_iff (a : L) (lo : Nat) (hi : Option Nat) (w : List σ) :
    Lang m (.rep (.sym a) lo hi) w ↔ lo ≤ w.length ∧ leHi w.length hi ∧ ∀ c ∈ w, m a c = true := by
  constructor
  · rintro ⟨ws, rfl, hlo, hhi, hall⟩
    have key : ∀ ws : List (List σ), (∀ x ∈ ws, Lang m (.sym a) x) →
        ws.flatten.length = ws.length ∧ ∀ c ∈ ws.flatten, m a c = true := by
      intro ws
      induction ws with
      | nil => intro _; simp
      | cons x t ih =>
        intro h
        obtain ⟨c, rfl, hc⟩ := h x (by simp)
        have := ih (fun y hy => h y (by simp [hy]))
        refine ⟨by simp [this.1], ?_⟩
        intro c' hc'
        simp only [List.flatten_cons, List.cons_append, List.nil_append, List.mem_cons] at hc'
        rcases hc' with rfl | hc'
        · exact hc
        · exact this.2 c' hc'
    obtain ⟨h1, h2⟩ := key ws hall
    rw [h1]
    exact ⟨hlo, hhi, h2⟩
  · rintro ⟨hlo, hhi, hall⟩
    refine ⟨w.map (fun c => [c]), ?_, by simpa using hlo, by simpa using hhi, ?_⟩
    · clear hlo hhi hall
      induction w with
      | nil => rfl
      | cons c t ih =>
        simp only [List.map_cons, List.flatten_cons, List.cons_append, List.nil_append]
        rw [← ih]
    · intro x hx
      obtain ⟨c, hc, rfl⟩ := List.mem_map.mp hx
      exact ⟨c, rfl, hall c hc⟩

/-- `rep` is monotone in its range. -/
theorem rep_mono_range {x : Rx L} {lo lo' : Nat} {hi hi' : Option Nat} (hlo : lo' ≤ lo)
    (hhi : ∀ n, leHi n hi → leHi n hi') : ∀ w, Lang m (.rep x lo hi) w → Lang m (.rep x lo' hi') w := by
  rintro w ⟨ws, hw, h1, h2, hall⟩
  exact ⟨ws, hw, Nat.le_trans hlo h1, hhi _ h2, hall⟩

end XsVerif.Rx
