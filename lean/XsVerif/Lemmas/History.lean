/-
  Helper lemmas for C10 (history neutrality) over XsVerif/Model/History.lean.
-/
import XsVerif.Model.History

namespace XsVerif.History

/-- `d` can be bound to `c` by some xsi:type widening -/
def Widenable (sch : Sch) (c : Con) (d : Decl) : Prop :=
  ∃ d0 t, sch.isComplex t = true ∧ d ∈ sch.widen c d0 t

theorem mem_widen {sch : Sch} {c d0 t d} :
    d ∈ sch.widen c d0 t ↔ ∃ e ∈ sch.wtab, e.1 = (c, d0, t) ∧ d ∈ e.2 := by
  simp only [Sch.widen, List.mem_flatMap, List.mem_filter, beq_iff_eq]
  constructor
  · rintro ⟨e, ⟨he, h1⟩, h2⟩; exact ⟨e, he, h1, h2⟩
  · rintro ⟨e, he, h1, h2⟩; exact ⟨e, ⟨he, h1⟩, h2⟩

theorem widenableB_iff (sch : Sch) (c : Con) (d : Decl) :
    widenableB sch c d = true ↔ Widenable sch c d := by
  simp only [widenableB, List.any_eq_true, Bool.and_eq_true, beq_iff_eq, List.contains_iff_mem, Widenable]
  constructor
  · rintro ⟨e, he, ⟨h1, h2⟩, h3⟩
    refine ⟨e.1.2.1, e.1.2.2, h2, mem_widen.2 ⟨e, he, ?_, h3⟩⟩
    rw [← h1]
  · rintro ⟨d0, t, hc, hd⟩
    obtain ⟨e, he, h1, h2⟩ := mem_widen.1 hd
    refine ⟨e, he, ⟨?_, ?_⟩, h2⟩
    · rw [h1]
    · rw [h1]; exact hc

theorem mem_ins {α} [BEq α] [LawfulBEq α] {x y : α} {l : List α} : x ∈ ins y l ↔ x = y ∨ x ∈ l := by
  unfold ins
  split
  · rename_i h
    have : y ∈ l := by simpa using h
    constructor
    · exact Or.inr
    · rintro (rfl | h') <;> assumption
  · simp

/-- the residue invariant -/
structure Inv (sch : Sch) (r : Res) : Prop where
  /-- every addition to `selected_by` is a widening the schema allows -/
  sel : ∀ p ∈ r.sel, Widenable sch p.1 p.2
  /-- every addition to `identity.elements` is a widening the schema allows -/
  elems : ∀ p ∈ r.elems, Widenable sch p.1 p.2
  /-- every memo entry is the value of the pure function -/
  memo : ∀ kv ∈ r.memo, kv.2 = sch.pure kv.1
  /-- a recorded (type, constraint) pair means the constraint HAS been widened for it -/
  pairs : ∀ d t c, XsiEntry.pair d t c ∈ r.xsi → ∀ d' ∈ sch.widen c d t, (c, d') ∈ r.sel
  /-- only namespaces that have a location get loaded on demand -/
  loadedOK : ∀ n ∈ r.loaded, n ∈ sch.loadable
  /-- `identity.elements` is a function of its key: the selectors stored under a declaration are those of the
      declaration's own type -/
  cacheOK : ∀ e ∈ r.cache, e.2 = sch.declType e.1.2

theorem inv_init (sch : Sch) : Inv sch Res.init := by
  constructor <;> simp [Res.init]

/-- a write that cannot break the invariant in state `r` -/
def wOK (sch : Sch) (r : Res) : Write → Prop
  | .elem c d t => Widenable sch c d ∧ t = sch.declType d
  | .sel c d => Widenable sch c d
  | .pair d t c => ∀ d' ∈ sch.widen c d t, (c, d') ∈ r.sel
  | .type _ _ => True

def AllOK (sch : Sch) : Res → List Write → Prop
  | _, [] => True
  | r, w :: ws => wOK sch r w ∧ AllOK sch (r.apply w) ws

theorem inv_apply {sch : Sch} {r : Res} {w : Write} (h : Inv sch r) (hw : wOK sch r w) :
    Inv sch (r.apply w) := by
  cases w with
  | elem c d t =>
    refine ⟨h.sel, ?_, h.memo, h.pairs, h.loadedOK, ?_⟩
    · intro p hp
      rcases mem_ins.1 hp with rfl | hp
      · exact hw.1
      · exact h.elems p hp
    · intro e he
      simp only [Res.apply] at he
      split at he
      · exact h.cacheOK e he
      · rcases List.mem_cons.1 he with rfl | he
        · exact hw.2
        · exact h.cacheOK e he
  | sel c d =>
    refine ⟨?_, h.elems, h.memo, ?_, h.loadedOK, h.cacheOK⟩
    · intro p hp
      rcases mem_ins.1 hp with rfl | hp
      · exact hw
      · exact h.sel p hp
    · intro d1 t1 c1 hx d' hd'
      exact mem_ins.2 (Or.inr (h.pairs d1 t1 c1 hx d' hd'))
  | pair d t c =>
    refine ⟨h.sel, h.elems, h.memo, ?_, h.loadedOK, h.cacheOK⟩
    intro d1 t1 c1 hx d' hd'
    rcases mem_ins.1 hx with heq | hx
    · cases heq; exact hw d' hd'
    · exact h.pairs d1 t1 c1 hx d' hd'
  | type d t =>
    refine ⟨h.sel, h.elems, h.memo, ?_, h.loadedOK, h.cacheOK⟩
    intro d1 t1 c1 hx d' hd'
    rcases mem_ins.1 hx with heq | hx
    · cases heq
    · exact h.pairs d1 t1 c1 hx d' hd'

theorem applyWrites_cons (r : Res) (w : Write) (ws : List Write) :
    applyWrites r (w :: ws) = applyWrites (r.apply w) ws := rfl

theorem applyWrites_append (r : Res) (a b : List Write) :
    applyWrites r (a ++ b) = applyWrites (applyWrites r a) b := by
  simp [applyWrites, List.foldl_append]

theorem inv_applyWrites {sch : Sch} : ∀ (ws : List Write) (r : Res), Inv sch r → AllOK sch r ws →
    Inv sch (applyWrites r ws)
  | [], _, h, _ => h
  | w :: ws, r, h, hok => by
    rw [applyWrites_cons]
    exact inv_applyWrites ws _ (inv_apply h hok.1) hok.2

theorem allOK_take {sch : Sch} : ∀ (ws : List Write) (k : Nat) (r : Res), AllOK sch r ws →
    AllOK sch r (ws.take k)
  | [], _, _, _ => by simp [AllOK]
  | _ :: _, 0, _, _ => by simp [AllOK]
  | w :: ws, k + 1, r, h => by
    simp only [List.take_succ_cons, AllOK]
    exact ⟨h.1, allOK_take ws k _ h.2⟩

theorem allOK_append {sch : Sch} : ∀ (a b : List Write) (r : Res),
    AllOK sch r (a ++ b) ↔ AllOK sch r a ∧ AllOK sch (applyWrites r a) b
  | [], b, r => by simp [AllOK, applyWrites]
  | w :: a, b, r => by
    simp only [List.cons_append, AllOK, applyWrites_cons, allOK_append a b, and_assoc]

theorem allOK_of_forall {sch : Sch} : ∀ (ws : List Write) (r : Res),
    (∀ w ∈ ws, ∀ r', wOK sch r' w) → AllOK sch r ws
  | [], _, _ => trivial
  | w :: ws, r, h =>
    ⟨h w (List.mem_cons_self ..) r, allOK_of_forall ws _ fun w' hw' => h w' (List.mem_cons_of_mem _ hw')⟩

/-! ### monotonicity: nothing is ever removed -/

theorem sel_mono_apply (r : Res) (w : Write) {p} (h : p ∈ r.sel) : p ∈ (r.apply w).sel := by
  cases w <;> simp only [Res.apply] <;> first | exact h | exact mem_ins.2 (Or.inr h)

theorem sel_mono_writes : ∀ (ws : List Write) (r : Res) {p}, p ∈ r.sel → p ∈ (applyWrites r ws).sel
  | [], _, _, h => h
  | w :: ws, r, _, h => by
    rw [applyWrites_cons]; exact sel_mono_writes ws _ (sel_mono_apply r w h)

theorem elems_mono_apply (r : Res) (w : Write) {p} (h : p ∈ r.elems) : p ∈ (r.apply w).elems := by
  cases w <;> simp only [Res.apply] <;> first | exact h | exact mem_ins.2 (Or.inr h)

theorem elems_mono_writes : ∀ (ws : List Write) (r : Res) {p}, p ∈ r.elems → p ∈ (applyWrites r ws).elems
  | [], _, _, h => h
  | w :: ws, r, _, h => by
    rw [applyWrites_cons]; exact elems_mono_writes ws _ (elems_mono_apply r w h)

theorem xsi_mono_apply (r : Res) (w : Write) {p} (h : p ∈ r.xsi) : p ∈ (r.apply w).xsi := by
  cases w <;> simp only [Res.apply] <;> first | exact h | exact mem_ins.2 (Or.inr h)

theorem xsi_mono_writes : ∀ (ws : List Write) (r : Res) {p}, p ∈ r.xsi → p ∈ (applyWrites r ws).xsi
  | [], _, _, h => h
  | w :: ws, r, _, h => by
    rw [applyWrites_cons]; exact xsi_mono_writes ws _ (xsi_mono_apply r w h)

theorem memo_apply (r : Res) (w : Write) : (r.apply w).memo = r.memo := by cases w <;> rfl
theorem scratch_apply (r : Res) (w : Write) : (r.apply w).scratch = r.scratch := by cases w <;> rfl

theorem memo_writes : ∀ (ws : List Write) (r : Res), (applyWrites r ws).memo = r.memo
  | [], _ => rfl
  | w :: ws, r => by rw [applyWrites_cons, memo_writes ws, memo_apply]

theorem scratch_writes : ∀ (ws : List Write) (r : Res), (applyWrites r ws).scratch = r.scratch
  | [], _ => rfl
  | w :: ws, r => by rw [applyWrites_cons, scratch_writes ws, scratch_apply]

theorem mem_sel_apply {r : Res} {w : Write} {p : Con × Decl} (h : p ∈ (r.apply w).sel) :
    p ∈ r.sel ∨ w = .sel p.1 p.2 := by
  cases w with
  | sel c d =>
    rcases mem_ins.1 h with rfl | h
    · exact Or.inr rfl
    · exact Or.inl h
  | elem c d t => exact Or.inl h
  | pair d t c => exact Or.inl h
  | type d t => exact Or.inl h

theorem mem_sel_writes : ∀ (ws : List Write) (r : Res) {p : Con × Decl},
    p ∈ (applyWrites r ws).sel → p ∈ r.sel ∨ Write.sel p.1 p.2 ∈ ws
  | [], _, _, h => Or.inl h
  | w :: ws, r, p, h => by
    rw [applyWrites_cons] at h
    rcases mem_sel_writes ws _ h with h | h
    · rcases mem_sel_apply h with h | h
      · exact Or.inl h
      · exact Or.inr (h ▸ List.mem_cons_self ..)
    · exact Or.inr (List.mem_cons_of_mem _ h)

/-! ### `update_elements` -/

theorem mem_updateWrites {sch : Sch} {c d t} {w : Write} (h : w ∈ updateWrites sch c d t) :
    ∃ d' ∈ sch.widen c d t, w = .elem c d' (sch.declType d') ∨ w = .sel c d' := by
  simp only [updateWrites, List.mem_flatMap, List.mem_cons, List.not_mem_nil, or_false] at h
  obtain ⟨d', hd', h⟩ := h
  exact ⟨d', hd', h⟩

theorem wOK_update {sch : Sch} {c d t} (hc : sch.isComplex t = true) :
    ∀ w ∈ updateWrites sch c d t, ∀ r', wOK sch r' w := by
  intro w hw r'
  obtain ⟨d', hd', rfl | rfl⟩ := mem_updateWrites hw
  · exact ⟨⟨d, t, hc, hd'⟩, rfl⟩
  · exact ⟨d, t, hc, hd'⟩

theorem sat_flat (c : Con) (f : Decl → TyId) : ∀ (l : List Decl) (r : Res), ∀ d' ∈ l,
    (c, d') ∈ (applyWrites r (l.flatMap fun d' => [Write.elem c d' (f d'), Write.sel c d'])).sel
  | [], _, _, h => by simp at h
  | x :: l, r, d', h => by
    simp only [List.flatMap_cons, List.cons_append, List.nil_append, applyWrites_cons]
    rcases List.mem_cons.1 h with rfl | h
    · apply sel_mono_writes
      simp only [Res.apply]
      exact mem_ins.2 (Or.inl rfl)
    · exact sat_flat c f l _ d' h

theorem sat_update (sch : Sch) (c d t) (r : Res) : ∀ d' ∈ sch.widen c d t,
    (c, d') ∈ (applyWrites r (updateWrites sch c d t)).sel :=
  sat_flat c _ _ r

theorem allOK_block {sch : Sch} {c d t} (hc : sch.isComplex t = true) (r : Res) :
    AllOK sch r (updateWrites sch c d t ++ [.pair d t c]) := by
  rw [allOK_append]
  exact ⟨allOK_of_forall _ _ (wOK_update hc), sat_update sch c d t r, trivial⟩

theorem allOK_loop {sch : Sch} {d t} (hc : sch.isComplex t = true) : ∀ (ctx : Ctx) (r : Res),
    AllOK sch r (xsiLoop sch d t r ctx)
  | [], _ => trivial
  | (c, en) :: cs, r => by
    simp only [xsiLoop]
    split
    · exact allOK_loop hc cs r
    · rw [allOK_append]
      exact ⟨allOK_block hc r, allOK_loop hc cs _⟩

theorem allOK_xsiWrites (sch : Sch) (r : Res) (ctx : Ctx) (d t) : AllOK sch r (xsiWrites sch r ctx d t) := by
  simp only [xsiWrites]
  rw [allOK_append]
  refine ⟨?_, trivial, trivial⟩
  split
  · rename_i hc; exact allOK_loop hc ctx r
  · trivial

theorem allOK_xsiWritesOld (sch : Sch) (r : Res) (ctx : Ctx) (d t) :
    AllOK sch r (xsiWritesOld sch r ctx d t) := by
  simp only [xsiWritesOld]
  split
  · trivial
  · rw [allOK_append]
    refine ⟨?_, trivial, trivial⟩
    split
    · rename_i hc
      apply allOK_of_forall
      intro w hw r'
      simp only [List.mem_flatMap] at hw
      obtain ⟨p, _, hw⟩ := hw
      exact wOK_update hc w hw r'
    · trivial

theorem mem_loop_sel {sch : Sch} {d t c d'} : ∀ (ctx : Ctx) (r : Res),
    Write.sel c d' ∈ xsiLoop sch d t r ctx → (c, true) ∈ ctx ∧ d' ∈ sch.widen c d t
  | [], _, h => by simp [xsiLoop] at h
  | (c0, en) :: cs, r, h => by
    simp only [xsiLoop] at h
    split at h
    · obtain ⟨h1, h2⟩ := mem_loop_sel cs r h
      exact ⟨List.mem_cons_of_mem _ h1, h2⟩
    · rename_i hen
      have hen' : en = true := by
        cases en <;> simp_all
      rcases List.mem_append.1 h with h | h
      · rcases List.mem_append.1 h with h | h
        · obtain ⟨d'', hd'', h | h⟩ := mem_updateWrites h
          · cases h
          · cases h; subst hen'; exact ⟨List.mem_cons_self .., hd''⟩
        · simp at h
      · obtain ⟨h1, h2⟩ := mem_loop_sel cs _ h
        exact ⟨List.mem_cons_of_mem _ h1, h2⟩

/-- after the whole loop every ENABLED constraint of the context has been widened for (d, t):
    either now, or earlier (recorded pair + invariant) -/
theorem sat_loop {sch : Sch} {d t} (hc : sch.isComplex t = true) : ∀ (ctx : Ctx) (r : Res), Inv sch r →
    ∀ c, (c, true) ∈ ctx → ∀ d' ∈ sch.widen c d t, (c, d') ∈ (applyWrites r (xsiLoop sch d t r ctx)).sel
  | [], _, _, c, h => by simp at h
  | (c0, en) :: cs, r, hinv, c, h => by
    intro d' hd'
    simp only [xsiLoop]
    split
    · rename_i hskip
      rcases List.mem_cons.1 h with heq | h
      · cases heq
        have : r.xsi.contains (.pair d t c0) = true := by simpa using hskip
        have hm : XsiEntry.pair d t c0 ∈ r.xsi := by simpa using this
        exact sel_mono_writes _ _ (hinv.pairs d t c0 hm d' hd')
      · exact sat_loop hc cs r hinv c h d' hd'
    · rw [applyWrites_append]
      have hinv1 := inv_applyWrites _ r hinv (allOK_block (c := c0) (d := d) hc r)
      rcases List.mem_cons.1 h with heq | h
      · cases heq
        apply sel_mono_writes
        rw [applyWrites_append]
        apply sel_mono_writes
        exact sat_update sch c0 d t r d' hd'
      · exact sat_loop hc cs _ hinv1 c h d' hd'

/-! ### steps -/

theorem lookup_mem {k v : Nat} {l : List (Nat × Nat)} (h : l.lookup k = some v) : (k, v) ∈ l := by
  induction l with
  | nil => simp at h
  | cons a l ih =>
    obtain ⟨a1, a2⟩ := a
    simp only [List.lookup_cons] at h
    split at h
    · rename_i heq
      have : k = a1 := by simpa using heq
      cases h; subst this; exact List.mem_cons_self ..
    · exact List.mem_cons_of_mem _ (ih h)

theorem lookup_mem' {α β} [BEq α] [LawfulBEq α] {k : α} {v : β} {l : List (α × β)} (h : l.lookup k = some v) :
    (k, v) ∈ l := by
  induction l with
  | nil => simp at h
  | cons a l ih =>
    obtain ⟨a1, a2⟩ := a
    simp only [List.lookup_cons] at h
    split at h
    · rename_i heq
      have : k = a1 := by simpa using heq
      cases h; subst this; exact List.mem_cons_self ..
    · exact List.mem_cons_of_mem _ (ih h)

/-- with the invariant, the selectors in use are always those of the type the element is validated with:
    stored ones are read only for the declared type, and they are typed by the declaration -/
theorem typing_eq {sch : Sch} {r : Res} {ctx : Ctx} {d : Decl} {t : TyId} (h : Inv sch r) :
    typingOf sch r ctx d t = (ctx.filter (·.2)).map fun p => (p.1, t) := by
  simp only [typingOf]
  apply List.map_congr_left
  intro p _
  congr 1
  split
  · rename_i ht
    have ht' : t = sch.declType d := by simpa using ht
    simp only [cachedTy]
    split
    · rename_i v hv
      have := h.cacheOK _ (lookup_mem' hv)
      simp only at this
      simp [this, ht']
    · split <;> simp [ht']
  · rfl

theorem allOK_budgeted {sch : Sch} {r : Res} {ws : List Write} (b : Option Nat) (h : AllOK sch r ws) :
    AllOK sch r (budgeted ws b) := by
  cases b with
  | none => exact h
  | some k => exact allOK_take ws k r h

theorem allOK_stepWrites (sch : Sch) (m : Mode) (r : Res) (ctx : Ctx) (d t) :
    AllOK sch r (stepWrites sch m r ctx d t) := by
  cases m
  · exact allOK_xsiWritesOld sch r ctx d t
  · exact allOK_xsiWrites sch r ctx d t
  · exact allOK_xsiWrites sch r ctx d t
  · exact allOK_xsiWrites sch r ctx d t

theorem loaded_apply (r : Res) (w : Write) : (r.apply w).loaded = r.loaded := by cases w <;> rfl
theorem stale_apply (r : Res) (w : Write) : (r.apply w).stale = r.stale := by cases w <;> rfl

theorem loaded_writes : ∀ (ws : List Write) (r : Res), (applyWrites r ws).loaded = r.loaded
  | [], _ => rfl
  | w :: ws, r => by rw [applyWrites_cons, loaded_writes ws, loaded_apply]

theorem stale_writes : ∀ (ws : List Write) (r : Res), (applyWrites r ws).stale = r.stale
  | [], _ => rfl
  | w :: ws, r => by rw [applyWrites_cons, stale_writes ws, stale_apply]

theorem inv_rebuild {sch : Sch} {r : Res} {n : Nat} (h : Inv sch r) (hn : n ∈ sch.loadable) :
    Inv sch (rebuild r n) := by
  refine ⟨?_, ?_, ?_, ?_, ?_, ?_⟩ <;> simp only [rebuild]
  · intro p hp; simp at hp
  · intro p hp; simp at hp
  · intro p hp; simp at hp
  · intro d t c hx; simp at hx
  · intro k hk
    rcases List.mem_cons.1 hk with rfl | hk
    · exact hn
    · exact h.loadedOK k hk
  · intro e he; simp at he

theorem wild_fst (sch : Sch) (m : Mode) (r : Res) (a : Bool) (pc : PC) (n : Nat) :
    (wildStep sch m r a pc n).1 = r ∨
    ((wildStep sch m r a pc n).1 = rebuild r n ∧ sch.loadable.contains n = true ∧ isLoaded sch r n = false) := by
  cases pc with
  | skip => exact Or.inl rfl
  | lax =>
    simp only [wildStep]
    repeat' split
    all_goals first | exact Or.inl rfl | (refine Or.inr ⟨rfl, ?_, ?_⟩ <;> simp_all)
  | strict =>
    simp only [wildStep]
    repeat' split
    all_goals first | exact Or.inl rfl | (refine Or.inr ⟨rfl, ?_, ?_⟩ <;> simp_all)

theorem inv_wild {sch : Sch} (m : Mode) {r : Res} (a : Bool) (pc : PC) (n : Nat) (h : Inv sch r) :
    Inv sch (wildStep sch m r a pc n).1 := by
  rcases wild_fst sch m r a pc n with e | ⟨e, hl, _⟩
  · rw [e]; exact h
  · rw [e]; exact inv_rebuild h (by simpa using hl)

theorem inv_unstale {sch : Sch} {r : Res} (h : Inv sch r) : Inv sch { r with stale := false } :=
  ⟨h.sel, h.elems, h.memo, h.pairs, h.loadedOK, h.cacheOK⟩

theorem inv_step (sch : Sch) (m : Mode) (s : Res × Ctx) (x : Step) (h : Inv sch s.1) :
    Inv sch (step sch m s x).1.1 := by
  cases x with
  | enter ids => exact h
  | xsiType d t b =>
    simp only [step]
    split
    · exact h
    · exact inv_applyWrites _ _ h (allOK_budgeted b (allOK_stepWrites sch m s.1 s.2 d t))
  | collect d => exact h
  | leave ids => exact h
  | setCtx ctx => exact h
  | wild a pc n => exact inv_wild m a pc n h
  | nsRead n => exact inv_unstale h
  | fields d t => exact h
  | localValue k v => exact h
  | memoCall k =>
    simp only [step]
    split
    · exact h
    · refine ⟨h.sel, h.elems, ?_, h.pairs, h.loadedOK, h.cacheOK⟩
      intro kv hkv
      rcases List.mem_cons.1 hkv with rfl | hkv
      · rfl
      · exact h.memo kv hkv
  | scratchUse dirt => exact ⟨h.sel, h.elems, h.memo, h.pairs, h.loadedOK, h.cacheOK⟩

theorem inv_run (sch : Sch) (m : Mode) : ∀ (doc : List Step) (s : Res × Ctx), Inv sch s.1 →
    Inv sch (run sch m s doc).1.1
  | [], _, h => h
  | x :: xs, s, h => by
    simp only [run]
    exact inv_run sch m xs _ (inv_step sch m s x h)

/-- the counters after a step depend on the counters before and on the step only -/
theorem step_ctx (sch : Sch) (m : Mode) (r1 r2 : Res) (ctx : Ctx) (x : Step) :
    (step sch m (r1, ctx) x).1.2 = (step sch m (r2, ctx) x).1.2 := by
  cases x <;> simp only [step]
  case memoCall k => split <;> split <;> rfl
  case xsiType d t b => split <;> split <;> rfl

/-- the residue only grows -/
theorem step_mono (sch : Sch) (m : Mode) (s : Res × Ctx) (x : Step) (hw : isWild x = false) :
    (∀ p ∈ s.1.sel, p ∈ (step sch m s x).1.1.sel) ∧ (∀ p ∈ s.1.elems, p ∈ (step sch m s x).1.1.elems) ∧
    (∀ p ∈ s.1.xsi, p ∈ (step sch m s x).1.1.xsi) := by
  cases x with
  | xsiType d t b =>
    simp only [step]
    split
    · exact ⟨fun _ h => h, fun _ h => h, fun _ h => h⟩
    · exact ⟨fun p hp => sel_mono_writes _ _ hp, fun p hp => elems_mono_writes _ _ hp,
        fun p hp => xsi_mono_writes _ _ hp⟩
  | wild a pc n => simp [isWild] at hw
  | nsRead n => exact ⟨fun _ h => h, fun _ h => h, fun _ h => h⟩
  | fields d t => exact ⟨fun _ h => h, fun _ h => h, fun _ h => h⟩
  | localValue k v => exact ⟨fun _ h => h, fun _ h => h, fun _ h => h⟩
  | memoCall k =>
    simp only [step]
    split <;> exact ⟨fun _ h => h, fun _ h => h, fun _ h => h⟩
  | enter ids => exact ⟨fun _ h => h, fun _ h => h, fun _ h => h⟩
  | collect d => exact ⟨fun _ h => h, fun _ h => h, fun _ h => h⟩
  | leave ids => exact ⟨fun _ h => h, fun _ h => h, fun _ h => h⟩
  | setCtx ctx => exact ⟨fun _ h => h, fun _ h => h, fun _ h => h⟩
  | scratchUse dirt => exact ⟨fun _ h => h, fun _ h => h, fun _ h => h⟩

theorem run_mono (sch : Sch) (m : Mode) : ∀ (doc : List Step) (s : Res × Ctx), (doc.all fun x => !isWild x) = true →
    (∀ p ∈ s.1.sel, p ∈ (run sch m s doc).1.1.sel) ∧ (∀ p ∈ s.1.elems, p ∈ (run sch m s doc).1.1.elems) ∧
    (∀ p ∈ s.1.xsi, p ∈ (run sch m s doc).1.1.xsi)
  | [], _, _ => ⟨fun _ h => h, fun _ h => h, fun _ h => h⟩
  | x :: xs, s, hw => by
    simp only [run]
    simp only [List.all_cons, Bool.and_eq_true, Bool.not_eq_true'] at hw
    obtain ⟨a1, a2, a3⟩ := step_mono sch m s x hw.1
    obtain ⟨b1, b2, b3⟩ := run_mono sch m xs (step sch m s x).1 hw.2
    exact ⟨fun p h => b1 p (a1 p h), fun p h => b2 p (a2 p h), fun p h => b3 p (a3 p h)⟩

/-! ### the used schema against the fresh one -/

/-- `r1` = residue of a used schema object, `r2` = residue of the fresh run at the same point of the document -/
structure Rel (sch : Sch) (r1 r2 : Res) : Prop where
  i1 : Inv sch r1
  i2 : Inv sch r2
  sub : ∀ p ∈ r2.sel, p ∈ r1.sel
  s1 : r1.stale = false
  s2 : r2.stale = false

/-- the condition of `selfSufficient` for one step -/
def stepOK (sch : Sch) (s : Res × Ctx) : Step → Bool
  | .collect d => s.2.all fun p => !p.2 || !widenableB sch p.1 d || isSel sch s.1 p.1 d
  | _ => true

theorem selfSufficient_cons (sch : Sch) (s : Res × Ctx) (x : Step) (xs : List Step) :
    selfSufficient sch s (x :: xs) = (stepOK sch s x && selfSufficient sch (step sch .gated s x).1 xs) := by
  cases x <;> rfl

theorem plain_cons (x : Step) (xs : List Step) : plainDoc (x :: xs) = (stepPlain x && plainDoc xs) := by
  simp [plainDoc]

theorem stepPlain_notWild {x : Step} (h : stepPlain x = true) : isWild x = false := by
  cases x <;> simp_all [stepPlain, isWild]

theorem gate_congr (sch : Sch) (r1 r2 : Res) (ctx : Ctx) (d : Decl)
    (h : ∀ p ∈ ctx, p.2 = true → isSel sch r1 p.1 d = isSel sch r2 p.1 d) :
    gate sch .gated r1 ctx d = gate sch .gated r2 ctx d := by
  simp only [gate]
  congr 1
  apply List.filter_congr
  intro p hp
  cases hp2 : p.2
  · simp
  · simp [h p hp hp2]

theorem stale_step_plain (sch : Sch) (m : Mode) (r : Res) (ctx : Ctx) (x : Step) (hc : stepPlain x = true) :
    (step sch m (r, ctx) x).1.1.stale = r.stale := by
  cases x with
  | xsiType d t b =>
    simp only [step]
    split
    · rfl
    · exact stale_writes _ _
  | memoCall k => simp only [step]; split <;> rfl
  | wild a pc n => simp [stepPlain] at hc
  | nsRead n => simp [stepPlain] at hc
  | enter ids => rfl
  | collect d => rfl
  | fields d t => rfl
  | localValue k v => rfl
  | leave ids => rfl
  | setCtx c => rfl
  | scratchUse dirt => rfl

theorem step_rel (sch : Sch) (r1 r2 : Res) (ctx : Ctx) (x : Step) (hrel : Rel sch r1 r2)
    (hc : stepPlain x = true) (hok : stepOK sch (r2, ctx) x = true) :
    (step sch .gated (r1, ctx) x).2 = (step sch .gated (r2, ctx) x).2 ∧
    Rel sch (step sch .gated (r1, ctx) x).1.1 (step sch .gated (r2, ctx) x).1.1 := by
  have i1 := inv_step sch .gated (r1, ctx) x hrel.i1
  have i2 := inv_step sch .gated (r2, ctx) x hrel.i2
  refine ⟨?_, i1, i2, ?_, (stale_step_plain sch .gated r1 ctx x hc).trans hrel.s1,
    (stale_step_plain sch .gated r2 ctx x hc).trans hrel.s2⟩
  · cases x with
    | collect d =>
      simp only [step]
      congr 2
      apply gate_congr
      intro p hp hp2
      cases h2 : isSel sch r2 p.1 d
      · cases h1 : isSel sch r1 p.1 d
        · rfl
        · exfalso
          simp only [isSel, Bool.or_eq_true, Bool.or_eq_false_iff] at h1 h2
          rcases h1 with h1 | h1
          · rw [h1] at h2; exact absurd h2.1 (by simp)
          · have hm : (p.1, d) ∈ r1.sel := by simpa using h1
            have hw := (widenableB_iff sch p.1 d).2 (hrel.i1.sel _ hm)
            simp only [stepOK, List.all_eq_true] at hok
            have := hok p hp
            simp only [hp2, hw, isSel, h2.1, h2.2] at this
            exact absurd this (by simp)
      · simp only [isSel, Bool.or_eq_true] at h2 ⊢
        rcases h2 with h2 | h2
        · exact Or.inl h2
        · refine Or.inr ?_
          have hm : (p.1, d) ∈ r2.sel := by simpa using h2
          simpa using hrel.sub _ hm
    | memoCall k =>
      have e1 : (step sch .gated (r1, ctx) (.memoCall k)).2 = some (.memo (sch.pure k)) := by
        simp only [step]
        split
        · rename_i v hv
          have := hrel.i1.memo (k, v) (lookup_mem hv)
          simp only at this
          rw [this]
        · rfl
      have e2 : (step sch .gated (r2, ctx) (.memoCall k)).2 = some (.memo (sch.pure k)) := by
        simp only [step]
        split
        · rename_i v hv
          have := hrel.i2.memo (k, v) (lookup_mem hv)
          simp only at this
          rw [this]
        · rfl
      rw [e1, e2]
    | enter ids => rfl
    | xsiType d t b => simp only [step]; split <;> split <;> rfl
    | leave ids => rfl
    | setCtx c => rfl
    | scratchUse dirt => rfl
    | wild a pc n => simp [stepPlain] at hc
    | nsRead n => simp [stepPlain] at hc
    | fields d t => simp only [step, typing_eq hrel.i1, typing_eq hrel.i2]
    | localValue k v => rfl
  · cases x with
    | xsiType d t b =>
      cases b with
      | some k => simp [stepPlain] at hc
      | none =>
        intro p hp
        simp only [step, hrel.s1, hrel.s2, budgeted, stepWrites, Bool.false_eq_true, if_false] at hp ⊢
        rcases mem_sel_writes _ _ hp with hp | hp
        · exact sel_mono_writes _ _ (hrel.sub p hp)
        · simp only [xsiWrites] at hp ⊢
          rcases List.mem_append.1 hp with hp | hp
          · split at hp
            · rename_i hcx
              obtain ⟨h1, h2⟩ := mem_loop_sel ctx r2 hp
              rw [if_pos hcx, applyWrites_append]
              apply sel_mono_writes
              exact sat_loop hcx ctx r1 hrel.i1 p.1 h1 p.2 h2
            · simp at hp
          · simp at hp
    | memoCall k =>
      intro p hp
      have b1 : (step sch .gated (r1, ctx) (.memoCall k)).1.1.sel = r1.sel := by
        simp only [step]; split <;> rfl
      have b2 : (step sch .gated (r2, ctx) (.memoCall k)).1.1.sel = r2.sel := by
        simp only [step]; split <;> rfl
      rw [b1]; rw [b2] at hp; exact hrel.sub p hp
    | enter ids => exact hrel.sub
    | collect d => exact hrel.sub
    | fields d t => exact hrel.sub
    | localValue k v => exact hrel.sub
    | leave ids => exact hrel.sub
    | setCtx c => exact hrel.sub
    | scratchUse dirt => exact hrel.sub
    | wild a pc n => simp [stepPlain] at hc
    | nsRead n => simp [stepPlain] at hc

theorem step_pair (sch : Sch) (m : Mode) (r1 r2 : Res) (ctx : Ctx) (x : Step) :
    ∃ r1' r2' ctx', (step sch m (r1, ctx) x).1 = (r1', ctx') ∧ (step sch m (r2, ctx) x).1 = (r2', ctx') :=
  ⟨_, _, _, rfl, Prod.ext rfl (step_ctx sch m r2 r1 ctx x)⟩

theorem neutral_gen (sch : Sch) : ∀ (doc : List Step) (r1 r2 : Res) (ctx : Ctx), Rel sch r1 r2 →
    plainDoc doc = true → selfSufficient sch (r2, ctx) doc = true →
    (run sch .gated (r1, ctx) doc).2 = (run sch .gated (r2, ctx) doc).2
  | [], _, _, _, _, _, _ => rfl
  | x :: xs, r1, r2, ctx, hrel, hc, hss => by
    rw [plain_cons, Bool.and_eq_true] at hc
    rw [selfSufficient_cons, Bool.and_eq_true] at hss
    obtain ⟨ho, hrel'⟩ := step_rel sch r1 r2 ctx x hrel hc.1 hss.1
    obtain ⟨r1', r2', ctx', e1, e2⟩ := step_pair sch .gated r1 r2 ctx x
    simp only [run]
    rw [e1] at hrel' ⊢
    rw [e2] at hrel' hss ⊢
    rw [ho, neutral_gen sch xs r1' r2' ctx' hrel' hc.2 hss.2]

/-- a document that is NOT self-sufficient has a (constraint, declaration) pair whose binding by an earlier
    call changes what the call sees -/
theorem dependent_gen (sch : Sch) : ∀ (doc : List Step) (r2 : Res) (ctx : Ctx),
    plainDoc doc = true → selfSufficient sch (r2, ctx) doc = false →
    ∃ c d, Widenable sch c d ∧ ∀ r1, Rel sch r1 r2 → (c, d) ∈ r1.sel →
      (run sch .gated (r1, ctx) doc).2 ≠ (run sch .gated (r2, ctx) doc).2
  | [], _, _, _, hss => by simp [selfSufficient] at hss
  | x :: xs, r2, ctx, hc, hss => by
    rw [plain_cons, Bool.and_eq_true] at hc
    rw [selfSufficient_cons] at hss
    cases hok : stepOK sch (r2, ctx) x
    · -- the offending step
      cases x with
      | collect d =>
        simp only [stepOK, List.all_eq_false] at hok
        obtain ⟨p, hp, hpf⟩ := hok
        have hp2 : p.2 = true := by
          cases h : p.2 <;> simp_all
        have hw : widenableB sch p.1 d = true := by
          cases h : widenableB sch p.1 d <;> simp_all
        have hs : isSel sch r2 p.1 d = false := by
          cases h : isSel sch r2 p.1 d <;> simp_all
        refine ⟨p.1, d, (widenableB_iff sch p.1 d).1 hw, ?_⟩
        intro r1 _ hm heq
        simp only [run, step, Option.toList, List.cons_append, List.nil_append] at heq
        have hg := (Obs.collected.inj (List.cons.inj heq).1).2
        have h1 : p.1 ∈ gate sch .gated r1 ctx d := by
          simp only [gate, List.mem_map, List.mem_filter]
          refine ⟨p, ⟨hp, ?_⟩, rfl⟩
          simp only [hp2, isSel, Bool.true_and, Bool.or_eq_true, List.contains_iff_mem]
          exact Or.inr hm
        rw [hg] at h1
        simp only [gate, List.mem_map, List.mem_filter] at h1
        obtain ⟨q, ⟨_, hq⟩, hq1⟩ := h1
        rw [hq1] at hq
        simp [hs] at hq
      | wild a pc n => simp [stepOK] at hok
      | nsRead n => simp [stepOK] at hok
      | fields d t => simp [stepOK] at hok
      | localValue k v => simp [stepOK] at hok
      | enter ids => simp [stepOK] at hok
      | xsiType d t b => simp [stepOK] at hok
      | leave ids => simp [stepOK] at hok
      | setCtx c => simp [stepOK] at hok
      | memoCall k => simp [stepOK] at hok
      | scratchUse dirt => simp [stepOK] at hok
    · rw [hok, Bool.true_and] at hss
      obtain ⟨r1d, r2', ctx', _, e2⟩ := step_pair sch .gated r2 r2 ctx x
      rw [e2] at hss
      obtain ⟨c, d, hw, hall⟩ := dependent_gen sch xs r2' ctx' hc.2 hss
      refine ⟨c, d, hw, ?_⟩
      intro r1 hrel hm
      obtain ⟨ho, hrel'⟩ := step_rel sch r1 r2 ctx x hrel hc.1 hok
      obtain ⟨r1', r2'', ctx'', e1, e2'⟩ := step_pair sch .gated r1 r2 ctx x
      have hm' : (c, d) ∈ (step sch .gated (r1, ctx) x).1.1.sel := (step_mono sch .gated (r1, ctx) x (stepPlain_notWild hc.1)).1 _ hm
      rw [e2] at e2'
      cases e2'
      rw [e1] at hrel' hm'
      rw [e2] at hrel'
      have hne := hall r1' hrel' hm'
      simp only [run]
      rw [e1, e2, ho]
      intro heq
      exact hne (List.append_cancel_left heq)

/-! ### the repaired collection (not gated by `selected_by`) -/

theorem memo_obs (sch : Sch) (m : Mode) (r : Res) (ctx : Ctx) (k : Nat) (h : Inv sch r) :
    (step sch m (r, ctx) (.memoCall k)).2 = some (.memo (sch.pure k)) := by
  simp only [step]
  split
  · rename_i v hv
    have := h.memo (k, v) (lookup_mem hv)
    simp only at this
    rw [this]
  · rfl

/-- a stable namespace is in the maps exactly when it was there after the build, whatever was loaded since -/
theorem isLoaded_stable {sch : Sch} {r : Res} {n : Nat} (h : Inv sch r) (hs : nsStable sch n = true) :
    isLoaded sch r n = sch.nsBase.contains n := by
  simp only [isLoaded]
  cases hb : sch.nsBase.contains n
  · simp only [nsStable, hb, Bool.false_or, Bool.not_eq_true'] at hs
    cases hl : r.loaded.contains n
    · rfl
    · have := h.loadedOK n (by simpa using hl)
      have : sch.loadable.contains n = true := by simpa using this
      rw [hs] at this; exact absurd this (by simp)
  · rfl

/-- a wildcard lookup in a stable namespace neither loads anything nor sees anything a history could change -/
theorem wild_quiet {sch : Sch} {r : Res} (a : Bool) (pc : PC) (n : Nat) (h : Inv sch r)
    (hq : stepQuiet sch (.wild a pc n) = true) :
    wildStep sch .ungated r a pc n =
      (r, match pc with | .skip => none | _ => some (.ns (sch.nsBase.contains n) false)) := by
  cases pc with
  | skip => rfl
  | lax =>
    have hs : nsStable sch n = true := by simpa [stepQuiet] using hq
    simp only [wildStep, isLoaded_stable h hs]
    cases hb : sch.nsBase.contains n
    · have hb' : n ∉ sch.nsBase := by simpa using hb
      have hnl : n ∉ sch.loadable := by simpa [nsStable, hb'] using hs
      simp [hnl]
    · simp
  | strict =>
    have hs : nsStable sch n = true := by simpa [stepQuiet] using hq
    simp only [wildStep, isLoaded_stable h hs]
    cases hb : sch.nsBase.contains n
    · have hb' : n ∉ sch.nsBase := by simpa using hb
      have hnl : n ∉ sch.loadable := by simpa [nsStable, hb'] using hs
      simp [hnl]
    · simp

/-- one quiet step of the code as it is: same observation from any two residues -/
theorem ungated_step (sch : Sch) (r1 r2 : Res) (ctx : Ctx) (x : Step) (h1 : Inv sch r1) (h2 : Inv sch r2)
    (hq : stepQuiet sch x = true) :
    (step sch .ungated (r1, ctx) x).2 = (step sch .ungated (r2, ctx) x).2 := by
  cases x with
  | collect d => simp [step, gate]
  | memoCall k => rw [memo_obs sch _ r1 ctx k h1, memo_obs sch _ r2 ctx k h2]
  | wild a pc n => simp only [step, wild_quiet a pc n h1 hq, wild_quiet a pc n h2 hq]
  | nsRead n =>
    have hs : nsStable sch n = true := by simpa [stepQuiet] using hq
    simp only [step, isLoaded_stable h1 hs, isLoaded_stable h2 hs]
  | enter ids => rfl
  | xsiType d t b => simp only [step]; split <;> split <;> rfl
  | fields d t => simp only [step, typing_eq h1, typing_eq h2]
  | localValue k v => rfl
  | leave ids => rfl
  | setCtx c => rfl
  | scratchUse dirt => rfl

theorem quiet_cons (sch : Sch) (x : Step) (xs : List Step) :
    nsQuiet sch (x :: xs) = (stepQuiet sch x && nsQuiet sch xs) := by
  simp [nsQuiet]

theorem ungated_gen (sch : Sch) : ∀ (doc : List Step) (r1 r2 : Res) (ctx : Ctx), Inv sch r1 → Inv sch r2 →
    nsQuiet sch doc = true →
    (run sch .ungated (r1, ctx) doc).2 = (run sch .ungated (r2, ctx) doc).2
  | [], _, _, _, _, _, _ => rfl
  | x :: xs, r1, r2, ctx, h1, h2, hq => by
    rw [quiet_cons, Bool.and_eq_true] at hq
    have i1 := inv_step sch .ungated (r1, ctx) x h1
    have i2 := inv_step sch .ungated (r2, ctx) x h2
    obtain ⟨r1', r2', ctx', e1, e2⟩ := step_pair sch .ungated r1 r2 ctx x
    have ho := ungated_step sch r1 r2 ctx x h1 h2 hq.1
    simp only [run]
    rw [e1] at i1 ⊢
    rw [e2] at i2 ⊢
    rw [ho, ungated_gen sch xs r1' r2' ctx' i1 i2 hq.2]

/-- loaded namespaces stay loaded -/
theorem loaded_mono_step (sch : Sch) (m : Mode) (s : Res × Ctx) (x : Step) {n : Nat} (h : n ∈ s.1.loaded) :
    n ∈ (step sch m s x).1.1.loaded := by
  cases x with
  | xsiType d t b =>
    simp only [step]
    split
    · exact h
    · rw [loaded_writes]; exact h
  | wild a pc k =>
    simp only [step]
    rcases wild_fst sch m s.1 a pc k with e | ⟨e, _, _⟩
    · rw [e]; exact h
    · rw [e]; exact List.mem_cons_of_mem _ h
  | memoCall k => simp only [step]; split <;> exact h
  | nsRead k => exact h
  | enter ids => exact h
  | collect d => exact h
  | fields d t => exact h
  | localValue k v => exact h
  | leave ids => exact h
  | setCtx c => exact h
  | scratchUse dirt => exact h

/-- a quiet step of a run that has loaded nothing loads nothing -/
theorem loaded_nil_step (sch : Sch) (r : Res) (ctx : Ctx) (x : Step) (hi : Inv sch r) (h : r.loaded = [])
    (hq : stepQuiet sch x = true) : (step sch .ungated (r, ctx) x).1.1.loaded = [] := by
  cases x with
  | xsiType d t b =>
    simp only [step]
    split
    · exact h
    · rw [loaded_writes]; exact h
  | wild a pc k => simp only [step, wild_quiet a pc k hi hq]; exact h
  | memoCall k => simp only [step]; split <;> exact h
  | nsRead k => exact h
  | enter ids => exact h
  | collect d => exact h
  | fields d t => exact h
  | localValue k v => exact h
  | leave ids => exact h
  | setCtx c => exact h
  | scratchUse dirt => exact h

/-- a document that is NOT quiet meets a loadable namespace; whether an earlier call loaded it changes what
    the call sees (a rebuild in the middle of the call or not; the root found or not) -/
theorem ns_dependent_gen (sch : Sch) : ∀ (doc : List Step) (r2 : Res) (ctx : Ctx), Inv sch r2 → r2.loaded = [] →
    nsQuiet sch doc = false →
    ∃ n, n ∈ sch.loadable ∧ n ∉ sch.nsBase ∧ ∀ r1, Inv sch r1 → n ∈ r1.loaded →
      (run sch .ungated (r1, ctx) doc).2 ≠ (run sch .ungated (r2, ctx) doc).2
  | [], _, _, _, _, hq => by simp [nsQuiet] at hq
  | x :: xs, r2, ctx, h2, hl, hq => by
    rw [quiet_cons] at hq
    cases hx : stepQuiet sch x
    · -- the offending step
      cases x with
      | wild a pc n =>
        have hpc : pc ≠ .skip := by
          intro e; subst e; simp [stepQuiet] at hx
        have hs : nsStable sch n = false := by
          cases h : nsStable sch n
          · rfl
          · simp [stepQuiet, h] at hx
        simp only [nsStable, Bool.or_eq_false_iff, Bool.not_eq_false'] at hs
        have hb' : n ∉ sch.nsBase := by simpa using hs.1
        have hl' : n ∈ sch.loadable := by simpa using hs.2
        refine ⟨n, hl', hb', ?_⟩
        intro r1 _ hm heq
        have l1 : isLoaded sch r1 n = true := by
          simp only [isLoaded, Bool.or_eq_true]; exact Or.inr (by simpa using hm)
        have l2 : isLoaded sch r2 n = false := by
          simp [isLoaded, hb', hl]
        cases pc with
        | skip => exact hpc rfl
        | lax =>
          simp [run, step, wildStep, l1, l2, hl'] at heq
        | strict =>
          simp [run, step, wildStep, l1, l2, hl'] at heq
      | nsRead n =>
        have hs : nsStable sch n = false := by
          cases h : nsStable sch n
          · rfl
          · simp [stepQuiet, h] at hx
        simp only [nsStable, Bool.or_eq_false_iff, Bool.not_eq_false'] at hs
        have hb' : n ∉ sch.nsBase := by simpa using hs.1
        have hl' : n ∈ sch.loadable := by simpa using hs.2
        refine ⟨n, hl', hb', ?_⟩
        intro r1 _ hm heq
        have l1 : isLoaded sch r1 n = true := by
          simp only [isLoaded, Bool.or_eq_true]; exact Or.inr (by simpa using hm)
        have l2 : isLoaded sch r2 n = false := by
          simp [isLoaded, hb', hl]
        simp [run, step, l1, l2] at heq
      | enter ids => simp [stepQuiet] at hx
      | fields d t => simp [stepQuiet] at hx
      | localValue k v => simp [stepQuiet] at hx
      | xsiType d t b => simp [stepQuiet] at hx
      | collect d => simp [stepQuiet] at hx
      | leave ids => simp [stepQuiet] at hx
      | setCtx c => simp [stepQuiet] at hx
      | memoCall k => simp [stepQuiet] at hx
      | scratchUse dirt => simp [stepQuiet] at hx
    · rw [hx, Bool.true_and] at hq
      obtain ⟨r2a, r2', ctx', _, e2⟩ := step_pair sch .ungated r2 r2 ctx x
      have i2 := inv_step sch .ungated (r2, ctx) x h2
      have hl' := loaded_nil_step sch r2 ctx x h2 hl hx
      rw [e2] at i2 hl'
      obtain ⟨n, hn, hnb, hall⟩ := ns_dependent_gen sch xs r2' ctx' i2 hl' hq
      refine ⟨n, hn, hnb, ?_⟩
      intro r1 h1 hm
      have ho := ungated_step sch r1 r2 ctx x h1 h2 hx
      obtain ⟨r1', r2'', ctx'', e1, e2'⟩ := step_pair sch .ungated r1 r2 ctx x
      have i1 := inv_step sch .ungated (r1, ctx) x h1
      have hm' := loaded_mono_step sch .ungated (r1, ctx) x hm
      rw [e2] at e2'
      cases e2'
      rw [e1] at i1 hm'
      have hne := hall r1' i1 hm'
      simp only [run]
      rw [e1, e2, ho]
      intro heq
      exact hne (List.append_cancel_left heq)

/-! ### histories -/

theorem inv_call (sch : Sch) (m : Mode) (r : Res) (doc : List Step) (h : Inv sch r) :
    Inv sch (call sch m r doc).1 := by
  simp only [call]
  exact inv_run sch m doc ({ r with stale := false }, []) (inv_unstale h)

theorem inv_foldl (sch : Sch) (m : Mode) (hist : List (List Step)) (r : Res) (h : Inv sch r) :
    Inv sch (hist.foldl (fun r doc => (call sch m r doc).1) r) := by
  induction hist generalizing r with
  | nil => exact h
  | cons d ds ih => exact ih _ (inv_call sch m r d h)

theorem inv_after (sch : Sch) (m : Mode) (hist : List (List Step)) : Inv sch (after sch m hist) :=
  inv_foldl sch m hist _ (inv_init sch)

theorem plain_take (doc : List Step) (k : Nat) (h : plainDoc doc = true) : plainDoc (doc.take k) = true := by
  simp only [plainDoc, List.all_eq_true] at h ⊢
  exact fun x hx => h x (List.mem_of_mem_take hx)

theorem quiet_take (sch : Sch) (doc : List Step) (k : Nat) (h : nsQuiet sch doc = true) :
    nsQuiet sch (doc.take k) = true := by
  simp only [nsQuiet, List.all_eq_true] at h ⊢
  exact fun x hx => h x (List.mem_of_mem_take hx)

theorem selfSufficient_take (sch : Sch) : ∀ (doc : List Step) (k : Nat) (s : Res × Ctx),
    selfSufficient sch s doc = true → selfSufficient sch s (doc.take k) = true
  | [], _, _, _ => by simp [selfSufficient]
  | _ :: _, 0, _, _ => by simp [selfSufficient]
  | x :: xs, k + 1, s, h => by
    rw [List.take_succ_cons, selfSufficient_cons, Bool.and_eq_true]
    rw [selfSufficient_cons, Bool.and_eq_true] at h
    exact ⟨h.1, selfSufficient_take sch xs k _ h.2⟩

end XsVerif.History
