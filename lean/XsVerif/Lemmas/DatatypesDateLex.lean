import XsVerif.Model.Datatypes
import XsVerif.Model.DatatypesDate
import XsVerif.Lemmas.Datatypes
namespace XsVerif.Datatypes

/-
  C02, xs:date: the port of elementpath `Date.fromstring` + `AbstractDateTime.__init__`
  (`parseDt .date`) accepts exactly the XSD lexical space of xs:date and returns the denoted
  fields, on the years where the constructor's leap-year test is right (`DateJudged`).
  Core Lean only.
-/

/-- XSD time-zone grammar: (Z | (+|-)hh:mm) with hh:mm between 00:00 and 14:00; value in minutes -/
def TzLex (s : Str) (tz : Tz) : Prop :=
  (s = [] ∧ tz = none) ∨ (s = ['Z'] ∧ tz = some 0) ∨
  ∃ sg h1 h2 m1 m2, s = [sg, h1, h2, ':', m1, m2] ∧ (sg = '+' ∨ sg = '-') ∧
    isDig h1 = true ∧ isDig h2 = true ∧ isDig m1 = true ∧ isDig m2 = true ∧
    ((digVal h1 * 10 + digVal h2 ≤ 13 ∧ digVal m1 * 10 + digVal m2 ≤ 59) ∨
     (digVal h1 * 10 + digVal h2 = 14 ∧ digVal m1 * 10 + digVal m2 = 0)) ∧
    tz = some (if sg = '-' then -(((digVal h1 * 10 + digVal h2) * 60 + (digVal m1 * 10 + digVal m2) : Nat) : Int)
               else (((digVal h1 * 10 + digVal h2) * 60 + (digVal m1 * 10 + digVal m2) : Nat) : Int))

theorem parseTz_iff (s : Str) (tz : Tz) : parseTz s = some tz ↔ TzLex s tz := by
  constructor
  · intro h
    unfold parseTz at h
    split at h
    · left; simp_all
    · right; left; simp_all
    · right; right
      rename_i sg h1 h2 m1 m2
      by_cases hc : ((sg == '+' || sg == '-') && isDig h1 && isDig h2 && isDig m1 && isDig m2) = true
      · by_cases hr : ((digVal h1 * 10 + digVal h2 ≤ 13 && digVal m1 * 10 + digVal m2 ≤ 59) ||
            (digVal h1 * 10 + digVal h2 == 14 && digVal m1 * 10 + digVal m2 == 0)) = true
        · simp only [hc, hr, if_true, Option.some.injEq, beq_iff_eq] at h
          simp only [Bool.and_eq_true, Bool.or_eq_true, beq_iff_eq, decide_eq_true_eq] at hc hr
          exact ⟨sg, h1, h2, m1, m2, rfl, hc.1.1.1.1, hc.1.1.1.2, hc.1.1.2, hc.1.2, hc.2, hr, h.symm⟩
        · simp only [hc, hr, if_true] at h
          cases h
      · simp only [hc] at h
        cases h
    · cases h
  · intro h
    rcases h with ⟨rfl, rfl⟩ | ⟨rfl, rfl⟩ | ⟨sg, h1, h2, m1, m2, rfl, hsg, a1, a2, a3, a4, hr, rfl⟩
    · rfl
    · rfl
    · have hc : ((sg == '+' || sg == '-') && isDig h1 && isDig h2 && isDig m1 && isDig m2) = true := by
        simp [a1, a2, a3, a4, hsg]
      have hr' : ((digVal h1 * 10 + digVal h2 ≤ 13 && digVal m1 * 10 + digVal m2 ≤ 59) ||
          (digVal h1 * 10 + digVal h2 == 14 && digVal m1 * 10 + digVal m2 == 0)) = true := by
        simpa using hr
      simp only [parseTz, hc, hr', if_true, beq_iff_eq]


/-! ## pieces -/

theorem take2_iff (s r : Str) (n : Nat) :
    take2 s = some (n, r) ↔
      ∃ a b, s = a :: b :: r ∧ isDig a = true ∧ isDig b = true ∧ n = digVal a * 10 + digVal b := by
  match s with
  | [] => simp [take2]
  | [a] => simp [take2]
  | a :: b :: t =>
    simp only [take2]
    by_cases hc : (isDig a && isDig b) = true
    · simp only [hc, if_true, Option.some.injEq, Prod.mk.injEq, List.cons.injEq]
      simp only [Bool.and_eq_true] at hc
      constructor
      · rintro ⟨rfl, rfl⟩; exact ⟨a, b, ⟨rfl, rfl, rfl⟩, hc.1, hc.2, rfl⟩
      · rintro ⟨a', b', ⟨rfl, rfl, rfl⟩, _, _, rfl⟩; exact ⟨rfl, rfl⟩
    · simp only [hc]
      simp only [Bool.and_eq_true, not_and] at hc
      constructor
      · intro h; cases h
      · rintro ⟨a', b', h, ha, hb, _⟩
        simp only [List.cons.injEq] at h
        obtain ⟨rfl, rfl, rfl⟩ := h
        exact absurd hb (hc ha)

theorem expect_iff (c : Char) (s r : Str) : expect c s = some r ↔ s = c :: r := by
  cases s with
  | nil => simp [expect]
  | cons d t =>
    simp only [expect]
    by_cases h : d = c
    · subst h; simp
    · simp [h]

theorem isDig_dash : isDig '-' = false := by decide

theorem takeWhile_digits (ds rest : Str) (hd : ∀ c ∈ ds, isDig c = true) :
    (ds ++ '-' :: rest).takeWhile isDig = ds ∧ (ds ++ '-' :: rest).dropWhile isDig = '-' :: rest := by
  induction ds with
  | nil => simp [isDig_dash]
  | cons c cs ih =>
    have hc := hd c (by simp)
    have := ih (fun x hx => hd x (by simp [hx]))
    simp [hc, this.1, this.2]

theorem takeWhile_all (p : Char → Bool) (s : Str) : ∀ c ∈ s.takeWhile p, p c = true := by
  induction s with
  | nil => simp
  | cons a t ih =>
    by_cases h : p a = true
    · simp [List.takeWhile, h]; exact ih
    · simp [List.takeWhile, h]

theorem scanYear_neg (r : Str) :
    scanYear ('-' :: r) =
      if (r.takeWhile isDig).length ≥ 4 then some (true, r.takeWhile isDig, r.dropWhile isDig) else none := rfl

theorem signMatch_pos (s : Str) :
    (∀ t, s ≠ '-' :: t) → (match s with | '-' :: r => (true, r) | r => (false, r)) = (false, s) := by
  intro h
  split
  · rename_i t; exact absurd rfl (h t)
  · rfl

theorem scanYear_pos (s : Str) (h : ∀ t, s ≠ '-' :: t) :
    scanYear s =
      if (s.takeWhile isDig).length ≥ 4 then some (false, s.takeWhile isDig, s.dropWhile isDig) else none := by
  unfold scanYear
  split
  rename_i x neg r t
  split at t
  · rename_i u; exact absurd rfl (h u)
  · simp only [Prod.mk.injEq] at t
    obtain ⟨rfl, rfl⟩ := t
    rfl

/-- the year token: optional '-', maximal digit run of at least 4 digits -/
theorem scanYear_some {s ds r : Str} {neg : Bool} (h : scanYear s = some (neg, ds, r)) :
    s = (if neg then ['-'] else []) ++ ds ++ r ∧ (∀ c ∈ ds, isDig c = true) ∧ 4 ≤ ds.length := by
  by_cases hs : ∃ t, s = '-' :: t
  · obtain ⟨t, rfl⟩ := hs
    rw [scanYear_neg] at h
    split at h
    · rename_i hl
      simp only [Option.some.injEq, Prod.mk.injEq] at h
      obtain ⟨rfl, rfl, rfl⟩ := h
      exact ⟨by simp [List.takeWhile_append_dropWhile], takeWhile_all _ _, hl⟩
    · cases h
  · rw [scanYear_pos s (fun t ht => hs ⟨t, ht⟩)] at h
    split at h
    · rename_i hl
      simp only [Option.some.injEq, Prod.mk.injEq] at h
      obtain ⟨rfl, rfl, rfl⟩ := h
      exact ⟨by simp [List.takeWhile_append_dropWhile], takeWhile_all _ _, hl⟩
    · cases h

theorem scanYear_of (neg : Bool) (ds rest : Str) (hd : ∀ c ∈ ds, isDig c = true) (hl : 4 ≤ ds.length) :
    scanYear ((if neg then ['-'] else []) ++ ds ++ '-' :: rest) = some (neg, ds, '-' :: rest) := by
  have tw := takeWhile_digits ds rest hd
  cases neg with
  | true =>
    simp only [if_true, List.cons_append, List.nil_append, scanYear_neg, tw.1, tw.2,
      ge_iff_le, hl]
  | false =>
    simp only [Bool.false_eq_true, if_false, List.nil_append]
    rw [scanYear_pos]
    · simp only [tw.1, tw.2, ge_iff_le, hl, if_true]
    · intro t ht
      cases ds with
      | nil => simp at hl
      | cons c cs =>
        have hc := hd c (by simp)
        simp only [List.cons_append, List.cons.injEq] at ht
        rw [ht.1] at hc
        simp [isDig_dash] at hc


theorem yearValue_iff (v11 neg : Bool) (ds : Str) (y : Int) :
    yearValue v11 neg ds = some y ↔
      (4 < ds.length → ds.head? ≠ some '0') ∧
      (v11 = false → (if neg then -(posVal ds : Int) else (posVal ds : Int)) ≠ 0) ∧
      y = (if v11 = true ∧ (if neg then -(posVal ds : Int) else (posVal ds : Int)) ≤ 0
           then (if neg then -(posVal ds : Int) else (posVal ds : Int)) - 1
           else (if neg then -(posVal ds : Int) else (posVal ds : Int))) := by
  unfold yearValue
  rw [natOfDigits_eq_posVal]
  generalize (if neg then -(posVal ds : Int) else (posVal ds : Int)) = Y
  by_cases hz : (decide (ds.length > 4) && ds.head? == some '0') = true
  · rw [if_pos hz]
    simp only [Bool.and_eq_true, decide_eq_true_eq, beq_iff_eq] at hz
    constructor
    · intro h; cases h
    · intro h; exact absurd hz.2 (h.1 hz.1)
  · rw [if_neg hz]
    simp only [Bool.and_eq_true, decide_eq_true_eq, beq_iff_eq, not_and] at hz
    cases v11 with
    | false =>
      by_cases h0 : Y = 0
      · simp [h0]
      · simp [h0]
        constructor
        · intro h; exact ⟨hz, h.symm⟩
        · intro h; exact h.2.symm
    | true =>
      simp
      constructor
      · intro h; exact ⟨hz, h.symm⟩
      · intro h; exact h.2.symm

/-- the constructor at 00:00:00 (the `h24` branch is off) -/
theorem mkDt_date_iff (v11 : Bool) (y : Int) (mo d : Nat) (tz : Tz) (v : DtVal) :
    mkDt .date v11 y mo d 0 0 0 0 tz = some v ↔
      y ≠ 0 ∧ y.natAbs ≤ 2 ^ 31 ∧ 1 ≤ mo ∧ mo ≤ 12 ∧ 1 ≤ d ∧
      d ≤ daysInMonth (if 1 ≤ y ∧ y ≤ 9999 then isLeap y else isLeap (y + (if v11 then 1 else 0))) mo ∧
      v = ⟨.date, y, mo, d, 0, 0, 0, 0, tz⟩ := by
  unfold mkDt
  simp only [Nat.reduceBEq, BEq.rfl, Bool.and_true, Bool.false_eq_true, ↓reduceIte, Bool.not_and,
    Bool.and_eq_true, Bool.or_eq_true, Bool.not_eq_eq_eq_not, Bool.not_true, decide_eq_false_iff_not, Int.not_le,
    beq_iff_eq, Nat.reducePow, gt_iff_lt, decide_eq_true_eq, Nat.lt_one_iff, Nat.not_lt_zero, decide_false,
    Bool.or_false, Bool.not_false, Option.ite_none_left_eq_some, not_and, Nat.not_lt, not_or, Option.some.injEq, ne_eq]
  generalize daysInMonth _ mo = dm
  constructor
  · rintro ⟨h1, h2, ⟨⟨⟨a, b⟩, c⟩, e⟩, f⟩
    exact ⟨by omega, by omega, by omega, b, by omega, e, f.symm⟩
  · rintro ⟨h1, h2, a, b, c, e, f⟩
    exact ⟨fun _ => h1, fun _ => h2, ⟨⟨⟨by omega, b⟩, by omega⟩, e⟩, f.symm⟩


/-- the years on which the constructor is judged: XSD 1.1 up to 9999 (above, the leap test is made on
    year+1: finding C02-F6) and down to the implementation limit; XSD 1.0 positive years up to the limit -/
def DateJudged (v11 : Bool) (y : Int) : Prop :=
  if v11 then (-(2:Int)^31 ≤ y ∧ y ≤ 9999) else (1 ≤ y ∧ y ≤ (2:Int)^31)

instance (v11 : Bool) (y : Int) : Decidable (DateJudged v11 y) := by
  unfold DateJudged; infer_instance

/-- under the guard the constructor's leap test is the leap test on the written year -/
theorem judged_leap (v11 : Bool) (Y y : Int)
    (hy : y = if v11 = true ∧ Y ≤ 0 then Y - 1 else Y) (h0 : v11 = false → Y ≠ 0)
    (hg : DateJudged v11 y) :
    y ≠ 0 ∧ y.natAbs ≤ 2 ^ 31 ∧
    (if 1 ≤ y ∧ y ≤ 9999 then isLeap y else isLeap (y + (if v11 then 1 else 0))) = isLeap Y := by
  cases v11 with
  | true =>
    simp only [DateJudged, if_true] at hg
    simp only [true_and] at hy
    by_cases hY : Y ≤ 0
    · rw [if_pos hY] at hy
      refine ⟨by omega, by omega, ?_⟩
      rw [if_neg (by omega)]
      simp only [if_true]
      congr 1; omega
    · rw [if_neg hY] at hy
      subst hy
      refine ⟨by omega, by omega, ?_⟩
      rw [if_pos (by omega)]
  | false =>
    simp only [DateJudged, Bool.false_eq_true, if_false] at hg
    simp only [Bool.false_eq_true, false_and, if_false] at hy
    subst hy
    refine ⟨by omega, by omega, ?_⟩
    split
    · rfl
    · simp

/-- the Option binds of `parseDt .date` -/
theorem parseDt_date_iff (v11 : Bool) (s : Str) (v : DtVal) :
    parseDt .date v11 s = some v ↔
      ∃ neg ds r1 r2 mo r3 r4 d r5 tz y,
        scanYear s = some (neg, ds, r1) ∧ expect '-' r1 = some r2 ∧ take2 r2 = some (mo, r3) ∧
        expect '-' r3 = some r4 ∧ take2 r4 = some (d, r5) ∧ parseTz r5 = some tz ∧
        yearValue v11 neg ds = some y ∧ mkDt .date v11 y mo d 0 0 0 0 tz = some v := by
  simp [parseDt, Option.bind_eq_some_iff]


/-- XSD lexical space and value of xs:date.  `Y` is the year number written in the literal; in XSD 1.1
    `0000` is 1 BCE (astronomical numbering, so the proleptic Gregorian leap rule applies to `Y` itself)
    and the implementation stores non-positive years shifted by one; in XSD 1.0 there is no year 0. -/
def DateLex (v11 : Bool) (s : Str) (v : DtVal) : Prop :=
  ∃ (neg : Bool) (yd : Str) (m1 m2 d1 d2 : Char) (tzs : Str) (tz : Tz),
    s = (if neg then ['-'] else []) ++ yd ++ ['-', m1, m2, '-', d1, d2] ++ tzs ∧
    (∀ c ∈ yd, isDig c = true) ∧ 4 ≤ yd.length ∧ (4 < yd.length → yd.head? ≠ some '0') ∧
    isDig m1 = true ∧ isDig m2 = true ∧ isDig d1 = true ∧ isDig d2 = true ∧ TzLex tzs tz ∧
    (v11 = false → (if neg then -(posVal yd : Int) else (posVal yd : Int)) ≠ 0) ∧
    1 ≤ digVal m1 * 10 + digVal m2 ∧ digVal m1 * 10 + digVal m2 ≤ 12 ∧
    1 ≤ digVal d1 * 10 + digVal d2 ∧
    digVal d1 * 10 + digVal d2 ≤
      daysInMonth (isLeap (if neg then -(posVal yd : Int) else (posVal yd : Int))) (digVal m1 * 10 + digVal m2) ∧
    v = ⟨.date,
         (if v11 = true ∧ (if neg then -(posVal yd : Int) else (posVal yd : Int)) ≤ 0
          then (if neg then -(posVal yd : Int) else (posVal yd : Int)) - 1
          else (if neg then -(posVal yd : Int) else (posVal yd : Int))),
         digVal m1 * 10 + digVal m2, digVal d1 * 10 + digVal d2, 0, 0, 0, 0, tz⟩

/-- FULL statement (false for the code, see the counterexample):
      ∀ v11 s v, parseDt .date v11 s = some v ↔ DateLex v11 s v
    proved with the guard on the year of the value: -/
theorem date_lex_partial (v11 : Bool) (s : Str) (v : DtVal) (hg : DateJudged v11 v.year) :
    parseDt .date v11 s = some v ↔ DateLex v11 s v := by
  constructor
  · intro h
    obtain ⟨neg, ds, r1, r2, mo, r3, r4, d, r5, tz, y, hs, e1, t1, e2, t2, hz, hy, hm⟩ :=
      (parseDt_date_iff v11 s v).mp h
    obtain ⟨rfl, hdig, hlen⟩ := scanYear_some hs
    have e1' := (expect_iff _ _ _).mp e1
    subst e1'
    obtain ⟨m1, m2, rfl, hm1, hm2, rfl⟩ := (take2_iff _ _ _).mp t1
    have e2' := (expect_iff _ _ _).mp e2
    subst e2'
    obtain ⟨d1, d2, rfl, hd1, hd2, rfl⟩ := (take2_iff _ _ _).mp t2
    have hz' := (parseTz_iff _ _).mp hz
    obtain ⟨hlz, hy0, hyv⟩ := (yearValue_iff _ _ _ _).mp hy
    obtain ⟨_, _, a1, a2, a3, a4, rfl⟩ := (mkDt_date_iff _ _ _ _ _ _).mp hm
    simp only at hg
    obtain ⟨_, _, hleap⟩ := judged_leap v11 _ y hyv hy0 hg
    rw [hleap] at a4
    refine ⟨neg, ds, m1, m2, d1, d2, r5, tz, by simp, hdig, hlen, hlz, hm1, hm2, hd1, hd2, hz', hy0,
      a1, a2, a3, a4, ?_⟩
    rw [hyv]
  · rintro ⟨neg, yd, m1, m2, d1, d2, tzs, tz, rfl, hdig, hlen, hlz, hm1, hm2, hd1, hd2, hz, hy0,
      a1, a2, a3, a4, rfl⟩
    simp only at hg
    obtain ⟨b1, b2, hleap⟩ := judged_leap v11 _ _ rfl hy0 hg
    refine (parseDt_date_iff v11 _ _).mpr
      ⟨neg, yd, '-' :: m1 :: m2 :: '-' :: d1 :: d2 :: tzs, m1 :: m2 :: '-' :: d1 :: d2 :: tzs,
       digVal m1 * 10 + digVal m2, '-' :: d1 :: d2 :: tzs, d1 :: d2 :: tzs, digVal d1 * 10 + digVal d2,
       tzs, tz, _, ?_, (expect_iff _ _ _).mpr rfl, (take2_iff _ _ _).mpr ⟨m1, m2, rfl, hm1, hm2, rfl⟩,
       (expect_iff _ _ _).mpr rfl, (take2_iff _ _ _).mpr ⟨d1, d2, rfl, hd1, hd2, rfl⟩,
       (parseTz_iff _ _).mpr hz, (yearValue_iff _ _ _ _).mpr ⟨hlz, hy0, rfl⟩, ?_⟩
    · have := scanYear_of neg yd (m1 :: m2 :: '-' :: d1 :: d2 :: tzs) hdig hlen
      simpa using this
    · refine (mkDt_date_iff _ _ _ _ _ _).mpr ⟨b1, b2, a1, a2, a3, ?_, rfl⟩
      rw [hleap]; exact a4

/-- the guard is needed: 10000-02-29 is an xs:date by the XSD reading (10000 is a leap year) and the
    constructor refuses it -/
theorem date_lex_counterexample :
    DateLex true "10000-02-29".toList ⟨.date, 10000, 2, 29, 0, 0, 0, 0, none⟩ ∧
    parseDt .date true "10000-02-29".toList = none := by
  constructor
  · refine ⟨false, "10000".toList, '0', '2', '2', '9', [], none, by decide, by decide, by decide, by decide,
      by decide, by decide, by decide, by decide, Or.inl ⟨rfl, rfl⟩, by decide, by decide, by decide,
      by decide, by decide, by decide⟩
  · decide

/-- non-vacuity: a leap day with a time zone -/
example : DateLex true "2000-02-29+14:00".toList ⟨.date, 2000, 2, 29, 0, 0, 0, 0, some 840⟩ :=
  (date_lex_partial true _ _ (by decide)).mp (by decide)

end XsVerif.Datatypes
