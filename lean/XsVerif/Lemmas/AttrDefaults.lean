/-
  Helper lemmas for the value-constraint / document-state model of C04 (Model/AttrDefaults.lean).
-/
import XsVerif.Model.AttrDefaults

namespace XsVerif.AttrDefaults

variable (toks : String → List String) (pfx : String → Option String) (ns : List String) (v11 : Bool)

/-- the state invariant: a key with value 1 is a key of the map -/
def St.inv (st : St) : Prop := ∀ k ∈ st.defined, k ∈ st.order

theorem inv_init : St.init.inv := by intro k hk; cases hk

/-! ### regRef -/

theorem regRef_order (st : St) (v k : String) : k ∈ (regRef st v).order ↔ k ∈ st.order ∨ k = v := by
  unfold regRef
  by_cases h : v ∈ st.order
  · simp only [h, if_true]
    constructor
    · exact Or.inl
    · rintro (h' | rfl) <;> assumption
  · simp [h]

@[simp] theorem regRef_defined (st : St) (v : String) : (regRef st v).defined = st.defined := by
  unfold regRef; split <;> rfl

@[simp] theorem regRef_idList (st : St) (v : String) : (regRef st v).idList = st.idList := by
  unfold regRef; split <;> rfl

theorem regRef_inv (st : St) (v : String) (h : st.inv) : (regRef st v).inv := by
  intro k hk
  rw [regRef_defined] at hk
  exact (regRef_order st v k).mpr (Or.inl (h k hk))

theorem foldl_regRef_order (l : List String) (st : St) (k : String) :
    k ∈ (l.foldl regRef st).order ↔ k ∈ st.order ∨ k ∈ l := by
  induction l generalizing st with
  | nil => simp
  | cons a r ih =>
    simp only [List.foldl_cons, ih, regRef_order, List.mem_cons]
    constructor
    · rintro ((h | h) | h)
      · exact Or.inl h
      · exact Or.inr (Or.inl h)
      · exact Or.inr (Or.inr h)
    · rintro (h | h | h)
      · exact Or.inl (Or.inl h)
      · exact Or.inl (Or.inr h)
      · exact Or.inr h

@[simp] theorem foldl_regRef_defined (l : List String) (st : St) : (l.foldl regRef st).defined = st.defined := by
  induction l generalizing st with
  | nil => rfl
  | cons a r ih => simp [ih]

theorem foldl_regRef_inv (l : List String) (st : St) (h : st.inv) : (l.foldl regRef st).inv := by
  intro k hk
  rw [foldl_regRef_defined] at hk
  exact (foldl_regRef_order l st k).mpr (Or.inl (h k hk))

/-! ### regId -/

theorem regId_defined (st : St) (v k : String) :
    k ∈ (regId v11 st v).1.defined ↔ k ∈ st.defined ∨ k = v := by
  unfold regId
  by_cases h : v ∈ st.defined
  · have : ∀ (a b : St × List Ev), a.1 = st → b.1 = st →
        (k ∈ (if v ∉ st.idList ∨ v11 = false then a else b).1.defined ↔ k ∈ st.defined ∨ k = v) := by
      intro a b ha hb
      split <;> simp only [ha, hb] <;> constructor <;> (first | exact Or.inl | (rintro (h' | rfl) <;> assumption))
    simpa [h] using this (st, [.dupId v]) (st, []) rfl rfl
  · simp [h]
    constructor
    · rintro (h' | h')
      · exact Or.inr h'
      · exact Or.inl h'
    · rintro (h' | h')
      · exact Or.inr h'
      · exact Or.inl h'

theorem regId_order (st : St) (v k : String) (hi : st.inv) :
    k ∈ (regId v11 st v).1.order ↔ k ∈ st.order ∨ k = v := by
  unfold regId
  by_cases h : v ∈ st.defined
  · have hv : v ∈ st.order := hi v h
    have : ∀ (a b : St × List Ev), a.1 = st → b.1 = st →
        (k ∈ (if v ∉ st.idList ∨ v11 = false then a else b).1.order ↔ k ∈ st.order ∨ k = v) := by
      intro a b ha hb
      split <;> simp only [ha, hb] <;> constructor <;> (first | exact Or.inl | (rintro (h' | rfl) <;> assumption))
    simpa [h] using this (st, [.dupId v]) (st, []) rfl rfl
  · simp only [h, not_false_eq_true, if_true]
    by_cases ho : v ∈ st.order
    · simp only [ho, if_true]
      constructor
      · exact Or.inl
      · rintro (h' | rfl) <;> assumption
    · simp [ho]

theorem regId_inv (st : St) (v : String) (hi : st.inv) : (regId v11 st v).1.inv := by
  intro k hk
  rw [regId_defined] at hk
  rw [regId_order v11 st v k hi]
  rcases hk with hk | hk
  · exact Or.inl (hi k hk)
  · exact Or.inr hk

theorem regId_events (st : St) (v : String) (e : Ev) (he : e ∈ (regId v11 st v).2) :
    e = .multiId ∨ e = .dupId v := by
  unfold regId at he
  by_cases h : v ∈ st.defined
  · simp only [h, not_true_eq_false, if_false] at he
    by_cases c : v ∉ st.idList ∨ v11 = false
    · rw [if_pos c] at he
      exact Or.inr (by simpa using he)
    · rw [if_neg c] at he
      cases he
  · simp only [h, not_false_eq_true, if_true] at he
    by_cases c : (st.idList ++ [v]).length > 1 ∧ v11 = false
    · rw [if_pos c] at he
      exact Or.inl (by simpa using he)
    · rw [if_neg c] at he
      cases he

/-! ### one post-decoding step -/

theorem postStep_inv (st : St) (k : Kind) (v : String) (hi : st.inv) :
    (postStep toks pfx ns v11 st k v).1.inv := by
  cases k with
  | plain => exact hi
  | idref => exact regRef_inv st v hi
  | idrefs => exact foldl_regRef_inv (toks v) st hi
  | id => exact regId_inv v11 st v hi
  | qname =>
    unfold postStep
    simp only
    split
    · split <;> exact hi
    · exact hi

theorem postStep_defined (st : St) (k : Kind) (v x : String) :
    x ∈ (postStep toks pfx ns v11 st k v).1.defined ↔ x ∈ st.defined ∨ x ∈ (Act.post k v).ids := by
  cases k with
  | plain => simp [postStep, Act.ids]
  | idref => simp [postStep, Act.ids]
  | idrefs => simp [postStep, Act.ids]
  | id => simpa [postStep, Act.ids] using regId_defined v11 st v x
  | qname =>
    unfold postStep
    simp only [Act.ids]
    split
    · split <;> simp
    · simp

theorem postStep_order (st : St) (k : Kind) (v x : String) (hi : st.inv) :
    x ∈ (postStep toks pfx ns v11 st k v).1.order ↔
      x ∈ st.order ∨ x ∈ (Act.post k v).refs toks ∨ x ∈ (Act.post k v).ids := by
  cases k with
  | plain => simp [postStep, Act.ids, Act.refs]
  | idref => simpa [postStep, Act.ids, Act.refs] using regRef_order st v x
  | idrefs => simpa [postStep, Act.ids, Act.refs] using foldl_regRef_order (toks v) st x
  | id => simpa [postStep, Act.ids, Act.refs] using regId_order v11 st v x hi
  | qname =>
    unfold postStep
    simp only [Act.ids, Act.refs]
    split
    · split <;> simp
    · simp

theorem postStep_events (st : St) (k : Kind) (v : String) (e : Ev)
    (he : e ∈ (postStep toks pfx ns v11 st k v).2) : ∀ x, e ≠ .dangling x := by
  intro x hx
  subst hx
  cases k with
  | plain => simp [postStep] at he
  | idref => simp [postStep] at he
  | idrefs => simp [postStep] at he
  | id =>
    rcases regId_events v11 st v _ (by simpa [postStep] using he) with h | h <;> cases h
  | qname =>
    unfold postStep at he
    simp only at he
    split at he
    · split at he <;> simp at he
    · simp at he

/-! ### the whole run -/

/-- no action carries a reference error (these are produced by the final check only) -/
def Act.noDangling : Act → Prop
  | .ev (.dangling _) => False
  | _ => True

theorem exec_spec (acts : List Act) (st : St) (hi : st.inv) :
    (exec toks pfx ns v11 st acts).1.inv ∧
    (∀ x, x ∈ (exec toks pfx ns v11 st acts).1.defined ↔ x ∈ st.defined ∨ x ∈ idsOf acts) ∧
    (∀ x, x ∈ (exec toks pfx ns v11 st acts).1.order ↔
        x ∈ st.order ∨ x ∈ refsOf toks acts ∨ x ∈ idsOf acts) := by
  induction acts generalizing st with
  | nil => simp [exec, idsOf, refsOf, hi]
  | cons a r ih =>
    cases a with
    | ev e =>
      simpa [exec, idsOf, refsOf, Act.ids, Act.refs] using ih st hi
    | reset =>
      have := ih { st with idList := [] } (by exact hi)
      simpa [exec, idsOf, refsOf, Act.ids, Act.refs] using this
    | post k v =>
      have hi1 := postStep_inv toks pfx ns v11 st k v hi
      obtain ⟨i2, d2, o2⟩ := ih _ hi1
      refine ⟨by simpa [exec] using i2, ?_, ?_⟩
      · intro x
        have := d2 x
        rw [postStep_defined] at this
        simp only [exec, idsOf, List.flatMap_cons, List.mem_append] at this ⊢
        rw [this]
        simp only [or_assoc]
      · intro x
        have := o2 x
        rw [postStep_order toks pfx ns v11 st k v x hi] at this
        simp only [exec, idsOf, refsOf, List.flatMap_cons, List.mem_append] at this ⊢
        rw [this]
        constructor
        · rintro ((h | h | h) | h | h)
          · exact Or.inl h
          · exact Or.inr (Or.inl (Or.inl h))
          · exact Or.inr (Or.inr (Or.inl h))
          · exact Or.inr (Or.inl (Or.inr h))
          · exact Or.inr (Or.inr (Or.inr h))
        · rintro (h | (h | h) | (h | h))
          · exact Or.inl (Or.inl h)
          · exact Or.inl (Or.inr (Or.inl h))
          · exact Or.inr (Or.inl h)
          · exact Or.inl (Or.inr (Or.inr h))
          · exact Or.inr (Or.inr h)

theorem exec_events_noDangling (acts : List Act) (st : St) (h : ∀ a ∈ acts, a.noDangling)
    (e : Ev) (he : e ∈ (exec toks pfx ns v11 st acts).2) : ∀ x, e ≠ .dangling x := by
  induction acts generalizing st with
  | nil => simp [exec] at he
  | cons a r ih =>
    have hr : ∀ a ∈ r, a.noDangling := fun a ha => h a (List.mem_cons_of_mem _ ha)
    cases a with
    | ev e' =>
      simp only [exec, List.mem_cons] at he
      rcases he with rfl | he
      · intro x hx
        subst hx
        exact h _ (List.mem_cons_self ..)
      · exact ih st hr he
    | reset => exact ih _ hr (by simpa [exec] using he)
    | post k v =>
      simp only [exec, List.mem_append] at he
      rcases he with he | he
      · exact postStep_events toks pfx ns v11 st k v e he
      · exact ih _ hr he

/-! ### the flattening never produces a reference error -/

theorem declActs_noDangling (d : Decl) (v : String) : ∀ a ∈ declActs d v, a.noDangling := by
  intro a ha
  unfold declActs at ha
  simp only [List.mem_append, List.mem_singleton] at ha
  rcases ha with ha | rfl
  · split at ha
    · split at ha
      · simp at ha; subst ha; trivial
      · cases ha
    · cases ha
  · trivial

theorem attrActs_noDangling (isXsi : String → Bool) (xsi ds : List Decl) (inj : Bool) (nv : String × String) :
    ∀ a ∈ attrActs isXsi xsi ds inj nv, a.noDangling := by
  intro a ha
  unfold attrActs at ha
  split at ha
  · split at ha
    · split at ha
      · exact declActs_noDangling _ _ a ha
      · simp at ha; subst ha; trivial
    · simp at ha; subst ha; trivial
  · simp only [List.mem_append] at ha
    rcases ha with ha | ha
    · split at ha
      · simp at ha; subst ha; trivial
      · cases ha
    · split at ha
      · cases ha
      · exact declActs_noDangling _ _ a ha

theorem textActs_noDangling (ud : Bool) (td : TextDecl) (t : String) :
    ∀ a ∈ textActs ud td t, a.noDangling := by
  intro a ha
  unfold textActs at ha
  split at ha
  · split at ha
    · simp at ha; subst ha; trivial
    · split at ha
      · simp at ha; subst ha; trivial
      · simp at ha; rcases ha with rfl | rfl <;> trivial
  · split at ha
    · split at ha <;> (simp at ha; subst ha; trivial)
    · simp at ha; subst ha; trivial

theorem docActs_noDangling (eff : Bool → List Decl → Attrs → Attrs) (isXsi : String → Bool) (ud : Bool)
    (xsi : List Decl) (doc : List Elem) : ∀ a ∈ docActsWith eff isXsi ud xsi doc, a.noDangling := by
  intro a ha
  simp only [docActsWith, List.mem_flatMap] at ha
  obtain ⟨e, _, ha⟩ := ha
  simp only [elemActsWith, groupActsWith, missingActs, List.mem_append, List.mem_cons, List.mem_map,
    List.mem_flatMap] at ha
  rcases ha with ((⟨d, _, rfl⟩ | rfl | ⟨nv, _, ha⟩) | ha)
  · trivial
  · trivial
  · exact attrActs_noDangling _ _ _ _ _ a ha
  · split at ha
    · exact textActs_noDangling _ _ _ a ha
    · cases ha

/-! ### which attributes are processed -/

theorem mem_valueConstraints (ud : Bool) (ds : List Decl) (k v : String) :
    (k, v) ∈ valueConstraints ud ds ↔
      ∃ d ∈ ds, d.name = k ∧ d.use ≠ .prohibited ∧
        (d.fixed = some v ∨ (d.fixed = none ∧ d.dflt = some v ∧ ud = true)) := by
  induction ds with
  | nil => simp [valueConstraints]
  | cons d r ih =>
    simp only [valueConstraints, List.mem_cons, exists_eq_or_imp]
    by_cases hp : d.use = .prohibited
    · simp [hp, ih]
    · simp only [hp, if_false]
      cases hf : d.fixed with
      | some f =>
        simp only [List.mem_cons, Prod.mk.injEq, ih]
        constructor
        · rintro (⟨rfl, rfl⟩ | h)
          · exact Or.inl ⟨rfl, hp, Or.inl rfl⟩
          · exact Or.inr h
        · rintro (⟨h1, _, h3⟩ | h)
          · rcases h3 with h3 | h3
            · exact Or.inl ⟨h1.symm, (Option.some.inj h3).symm⟩
            · exact absurd h3.1 (by simp)
          · exact Or.inr h
      | none =>
        cases hd : d.dflt with
        | some w =>
          cases ud with
          | true =>
            simp only [if_true, List.mem_cons, Prod.mk.injEq, ih]
            constructor
            · rintro (⟨rfl, rfl⟩ | h)
              · exact Or.inl ⟨rfl, hp, Or.inr ⟨trivial, rfl, trivial⟩⟩
              · exact Or.inr h
            · rintro (⟨h1, _, h3⟩ | h)
              · rcases h3 with h3 | h3
                · cases h3
                · exact Or.inl ⟨h1.symm, (Option.some.inj h3.2.1).symm⟩
              · exact Or.inr h
          | false => simp [ih]
        | none => simp [ih]

theorem mem_effective (ud : Bool) (ds : List Decl) (obj : Attrs) (kv : String × String) :
    kv ∈ effective ud ds obj ↔ kv ∈ obj ∨ (hasKey kv.1 obj = false ∧ kv ∈ valueConstraints ud ds) := by
  simp only [effective, List.mem_append, List.mem_filter, Bool.not_eq_true']
  constructor
  · rintro (h | ⟨h1, h2⟩)
    · exact Or.inl h
    · exact Or.inr ⟨h2, h1⟩
  · rintro (h | ⟨h1, h2⟩)
    · exact Or.inl h
    · exact Or.inr ⟨h2, h1⟩

end XsVerif.AttrDefaults
