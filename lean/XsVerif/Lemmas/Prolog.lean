/-
  Helper lemmas for C13: the scanner of Model/Prolog.lean run over the rendering of each piece of
  the prolog grammar.
-/
import XsVerif.Model.Prolog

namespace XsVerif.Prolog

/-! ### running the automaton -/

@[simp] theorem run_nil (st : St) : run st [] = st := rfl
@[simp] theorem run_cons (st : St) (c : Nat) (s : Bytes) : run st (c :: s) = run (step st c) s := rfl
theorem run_append (st : St) (a b : Bytes) : run st (a ++ b) = run (run st a) b := by
  simp [run, List.foldl_append]

@[simp] theorem run_done (v : Verdict) (s : Bytes) : run (.done v) s = .done v := by
  induction s with
  | nil => rfl
  | cons c s ih => simpa [step] using ih

/-! ### character classes -/

theorem ws_not_name {c : Nat} (h : isWs c = true) : isNameChar c = false := by
  simp only [isWs, isNameChar, isNameStart, Bool.or_eq_true, beq_iff_eq,
    Bool.or_eq_false_iff, Bool.and_eq_false_iff, decide_eq_false_iff_not,
    beq_eq_false_iff_ne] at *
  omega

theorem ws_not_upper {c : Nat} (h : isWs c = true) : isUpper c = false := by
  simp only [isWs, isUpper, Bool.or_eq_true, beq_iff_eq,
    Bool.and_eq_false_iff, decide_eq_false_iff_not] at *
  omega

theorem nameStart_nameChar {c : Nat} (h : isNameStart c = true) : isNameChar c = true := by
  simp [isNameChar, h]

/-- a name character is none of the bytes the automaton reacts to -/
theorem nameChar_plain {c : Nat} (h : isNameChar c = true) :
    isWs c = false ∧ isQuote c = false ∧ c ≠ 60 ∧ c ≠ 62 ∧ c ≠ 91 ∧ c ≠ 59 ∧ c ≠ 61 ∧ c ≠ 63 ∧ c ≠ 37 := by
  simp only [isWs, isNameChar, isNameStart, isQuote, Bool.or_eq_true, Bool.and_eq_true, beq_iff_eq,
    decide_eq_true_eq, Bool.or_eq_false_iff, beq_eq_false_iff_ne] at *
  omega

theorem quote_byte_isQuote (q : Quote) : isQuote q.byte = true := by cases q <;> rfl

theorem raw_plain {c : Nat} (h : (!isQuote c && c != 60 && c != 62) = true) :
    isQuote c = false ∧ c ≠ 60 ∧ c ≠ 62 := by
  simp only [Bool.and_eq_true, Bool.not_eq_true', bne_iff_ne] at h
  exact ⟨h.1.1, h.1.2, h.2⟩

theorem name_rawOk {n : Bytes} (h : n.all isNameChar = true) : rawOk n = true := by
  simp only [rawOk, List.all_eq_true] at *
  intro c hc
  obtain ⟨-, h2, h3, h4, -⟩ := nameChar_plain (h c hc)
  simp [h2, h3, h4]

theorem isName_all {n : Bytes} (h : isName n = true) : n.all isNameChar = true := by
  cases n with
  | nil => simp [isName] at h
  | cons c cs =>
    simp only [isName, Bool.and_eq_true] at h
    simp [List.all_cons, nameStart_nameChar h.1, h.2]

/-! ### white space, comments, processing instructions -/

theorem run_text_ws (f : Flags) (sub : Bool) (ws : Bytes) (h : ws.all isWs = true) :
    run (.text f sub) ws = .text f sub := by
  induction ws with
  | nil => rfl
  | cons c cs ih =>
    simp only [List.all_cons, Bool.and_eq_true] at h
    simp [step, h.1, ih h.2]

theorem run_comment_body (f : Flags) (sub : Bool) (body : Bytes) (h : commentOk body = true) :
    ∀ d, d ≤ 1 → (d = 1 → ∃ c cs, body = c :: cs ∧ c ≠ 45) →
      run (.comment f sub d) (body ++ [45, 45, 62]) = .text f sub := by
  induction body with
  | nil =>
    intro d hd hne
    have hd0 : d = 0 := by
      rcases (by omega : d = 0 ∨ d = 1) with h0 | h1
      · exact h0
      · obtain ⟨c, cs, e, -⟩ := hne h1
        cases e
    subst hd0
    simp [step]
  | cons c cs ih =>
    intro d hd hne
    by_cases hc : c = 45
    · subst hc
      have hd0 : d = 0 := by
        rcases (by omega : d = 0 ∨ d = 1) with h0 | h1
        · exact h0
        · obtain ⟨c, cs', e, hc⟩ := hne h1
          cases e
          exact absurd rfl hc
      subst hd0
      cases cs with
      | nil => simp [commentOk] at h
      | cons e es =>
        have h' : (e ≠ 45) ∧ commentOk (e :: es) = true := by
          simpa [commentOk] using h
        have := ih h'.2 1 (by omega) (by intro _; exact ⟨e, es, rfl, h'.1⟩)
        simpa [step] using this
    · have hok : commentOk cs = true := by
        cases cs with
        | nil => rfl
        | cons e es =>
          simp only [commentOk, Bool.and_eq_true] at h
          exact h.2
      have := ih hok 0 (by omega) (by intro h0; omega)
      have hd' : d ≠ 2 := by omega
      simpa [step, hc, hd'] using this

theorem run_comment (f : Flags) (sub : Bool) (body : Bytes) (h : commentOk body = true) :
    run (.text f sub) (commentBytes body) = .text f sub := by
  have := run_comment_body f sub body h 0 (by omega) (by intro h0; omega)
  simpa [commentBytes, step, isWs] using this

theorem run_pi_body (f : Flags) (sub : Bool) (body : Bytes) (h : piOk body = true) :
    ∀ q, (q = true → body.head? ≠ some 62) →
      run (.pi f sub q) (body ++ [63, 62]) = .text f sub := by
  induction body with
  | nil => intro q _; simp [step]
  | cons c cs ih =>
    intro q hq
    have hok : piOk cs = true := by
      cases cs with
      | nil => rfl
      | cons e es =>
        simp only [piOk, Bool.and_eq_true] at h
        exact h.2
    by_cases hc : c = 63
    · subst hc
      have hne : cs.head? ≠ some 62 := by
        cases cs with
        | nil => simp
        | cons e es =>
          have : e ≠ 62 ∧ piOk (e :: es) = true := by simpa [piOk] using h
          simpa using this.1
      have := ih hok true (fun _ => hne)
      simpa [step] using this
    · have := ih hok false (by intro h0; cases h0)
      by_cases hq' : q = true
      · have hc2 : c ≠ 62 := by
          have := hq hq'
          simpa using this
        simpa [step, hc, hc2] using this
      · have hq'' : q = false := by simpa using hq'
        simpa [step, hc, hq''] using this

theorem run_piTarget (f : Flags) (sub : Bool) (t : Bytes) (h : t.all isNameChar = true) :
    ∀ acc, run (.piTarget f sub acc) t = .piTarget f sub (acc ++ t) := by
  induction t with
  | nil => intro acc; simp
  | cons c cs ih =>
    intro acc
    simp only [List.all_cons, Bool.and_eq_true] at h
    simp [step, h.1, ih h.2]

theorem run_pi (f : Flags) (sub : Bool) (t body : Bytes) (ht : piTargetOk t = true)
    (hb : piOk body = true) : run (.text f sub) (piBytes t body) = .text f sub := by
  simp only [piTargetOk, Bool.and_eq_true, bne_iff_ne] at ht
  have hall := isName_all ht.1
  have h1 := run_piTarget f sub t hall []
  have h2 := run_pi_body f sub body hb false (by intro h0; cases h0)
  have e1 : step (.text f sub) 60 = .lt f sub := by simp [step, isWs]
  have e2 : step (.lt f sub) 63 = .piTarget f sub [] := by simp [step]
  have e3 : step (.piTarget f sub t) 32 = .pi f sub false := by
    simp [step, isNameChar, isNameStart, isWs, ht.2]
  simp only [piBytes, List.cons_append, List.nil_append, run_cons, run_append, e1, e2, h1, e3, h2]

/-! ### literals -/

theorem run_headLit (f : Flags) (q : Nat) (body : Bytes) (h : body.all (· != q) = true) :
    run (.headLit f q) body = .headLit f q := by
  induction body with
  | nil => rfl
  | cons c cs ih =>
    simp only [List.all_cons, Bool.and_eq_true, bne_iff_ne] at h
    simp [step, h.1, ih h.2]

theorem run_declLit (f : Flags) (q : Nat) (body : Bytes) (h : body.all (· != q) = true) :
    run (.declLit f q) body = .declLit f q := by
  induction body with
  | nil => rfl
  | cons c cs ih =>
    simp only [List.all_cons, Bool.and_eq_true, bne_iff_ne] at h
    simp [step, h.1, ih h.2]

theorem run_entExtLit (n : Bytes) (q : Nat) (body : Bytes) (h : body.all (· != q) = true) :
    run (.entExtLit n q) body = .entExtLit n q := by
  induction body with
  | nil => rfl
  | cons c cs ih =>
    simp only [List.all_cons, Bool.and_eq_true, bne_iff_ne] at h
    simp [step, h.1, ih h.2]

theorem run_xVal (f : Flags) (n : Bytes) (q : Nat) (body : Bytes) (h : body.all (· != q) = true) :
    ∀ acc, run (.xVal f n q acc) body = .xVal f n q (acc ++ body) := by
  induction body with
  | nil => intro acc; simp
  | cons c cs ih =>
    intro acc
    simp only [List.all_cons, Bool.and_eq_true, bne_iff_ne] at h
    simp [step, h.1, ih h.2]

/-! ### declarations that are skipped -/

theorem run_decl_raw (f : Flags) (b : Bytes) (h : rawOk b = true) : run (.decl f) b = .decl f := by
  induction b with
  | nil => rfl
  | cons c cs ih =>
    simp only [rawOk, List.all_cons, Bool.and_eq_true] at h
    have h1 := raw_plain (by simpa using h.1)
    have : rawOk cs = true := h.2
    simp [step, h1.1, h1.2.1, h1.2.2, ih this]

theorem run_decl_name (f : Flags) (n : Bytes) (h : isName n = true) : run (.decl f) n = .decl f :=
  run_decl_raw f n (name_rawOk (isName_all h))

theorem run_decl_lit (f : Flags) (l : Lit) (h : l.wf = true) : run (.decl f) l.render = .decl f := by
  simp only [Lit.render, run_cons, run_append, run_nil]
  simp [step, quote_byte_isQuote, run_declLit f l.q.byte l.body h]

theorem run_decl_extId (f : Flags) (id : ExtId) (h : id.wf = true) :
    run (.decl f) id.render = .decl f := by
  cases id with
  | system s =>
    simp only [ExtId.wf] at h
    simp only [ExtId.render, kSYSTEM, List.cons_append, List.nil_append, run_cons]
    simp [step, isQuote, run_decl_lit f s h]
  | pub p s =>
    simp only [ExtId.wf, Bool.and_eq_true] at h
    simp only [ExtId.render, kPUBLIC, List.cons_append, List.nil_append, run_cons, run_append]
    simp [step, isQuote, run_decl_lit f p h.1, run_decl_lit f s h.2]

theorem run_decl_entDef (f : Flags) (d : EntDef) (h : d.wf = true) :
    run (.decl f) d.render = .decl f := by
  cases d with
  | value v => exact run_decl_lit f v h
  | ext id => exact run_decl_extId f id h
  | ndata id n =>
    simp only [EntDef.wf, Bool.and_eq_true] at h
    simp only [EntDef.render, kNDATA, List.cons_append, List.nil_append, run_cons, run_append]
    simp [step, isQuote, run_decl_extId f id h.1, run_decl_name f n h.2]

theorem run_decl_attDefault (f : Flags) (a : AttDefault) (h : a.wf = true) :
    run (.decl f) a.render = .decl f := by
  cases a with
  | kw k => exact run_decl_raw f k h
  | lit l => exact run_decl_lit f l h
  | fixed l =>
    simp only [AttDefault.render, List.cons_append, List.nil_append, run_cons]
    simp [step, isQuote, run_decl_lit f l h]

theorem run_decl_atts (f : Flags) (as : List AttDef) (h : as.all AttDef.wf = true) :
    run (.decl f) (renderAtts as) = .decl f := by
  induction as with
  | nil => rfl
  | cons a as ih =>
    simp only [List.all_cons, Bool.and_eq_true, AttDef.wf] at h
    simp only [renderAtts, AttDef.render, run_append, run_cons]
    simp [step, isQuote, run_decl_name f a.name h.1.1.1, run_decl_raw f a.type h.1.1.2,
      run_decl_attDefault f a.dflt h.1.2, ih h.2]

/-! ### entity declarations that are processed -/

theorem run_entName (n : Bytes) (h : n.all isNameChar = true) :
    ∀ acc, run (.entName acc) n = .entName (acc ++ n) := by
  induction n with
  | nil => intro acc; simp
  | cons c cs ih =>
    intro acc
    simp only [List.all_cons, Bool.and_eq_true] at h
    simp [step, h.1, ih h.2]

theorem run_entExt_lit (n : Bytes) (l : Lit) (h : l.wf = true) :
    run (.entExt n) l.render = .entExt n := by
  simp only [Lit.render, run_cons, run_append, run_nil]
  simp [step, quote_byte_isQuote, run_entExtLit n l.q.byte l.body h]

/-- after the first letter of SYSTEM / PUBLIC has been consumed by `entDef` -/
theorem run_entDef_extId (n : Bytes) (id : ExtId) (h : id.wf = true) :
    run (.entDef n) id.render = .entExt n := by
  cases id with
  | system s =>
    simp only [ExtId.wf] at h
    simp only [ExtId.render, kSYSTEM, List.cons_append, List.nil_append, run_cons]
    simp [step, isQuote, isWs, isUpper, run_entExt_lit n s h]
  | pub p s =>
    simp only [ExtId.wf, Bool.and_eq_true] at h
    simp only [ExtId.render, kPUBLIC, List.cons_append, List.nil_append, run_cons, run_append]
    simp [step, isQuote, isWs, isUpper, run_entExt_lit n p h.1, run_entExt_lit n s h.2]

theorem run_entDef (n : Bytes) (d : EntDef) (h : d.wf = true) (k : Bytes) :
    run (.entDef n) (d.render ++ 62 :: k) = .done (entityVerdict n d) := by
  cases d with
  | value v =>
    simp only [EntDef.render, Lit.render, List.cons_append, run_cons]
    have hq := quote_byte_isQuote v.q
    have hw : isWs v.q.byte = false := by cases v.q <;> rfl
    simp [step, hq, hw, entityVerdict]
  | ext id =>
    simp only [EntDef.wf] at h
    simp only [EntDef.render, run_append, run_entDef_extId n id h, run_cons]
    simp [step, isQuote, entityVerdict]
  | ndata id m =>
    simp only [EntDef.wf, Bool.and_eq_true] at h
    simp only [EntDef.render, kNDATA, List.cons_append, List.nil_append, List.append_assoc, run_append,
      run_entDef_extId n id h.1, run_cons]
    simp [step, isQuote, entityVerdict]

/-! ### one declaration of the internal subset -/

theorem step_text_lt (f : Flags) (sub : Bool) : step (.text f sub) 60 = .lt f sub := by
  simp [step, isWs]

/-- `<!KEYWORD ` in the internal subset, for the three kinds of declarations that are skipped -/
theorem run_kw_skip (f : Flags) (kwd : Bytes)
    (h : kwd = kELEMENT ∨ kwd = kATTLIST ∨ kwd = kNOTATION) :
    run (.text f true) ([60, 33] ++ (kwd ++ [32])) = .decl f := by
  rcases h with rfl | rfl | rfl <;>
    simp [step, isWs, isUpper, kwDispatch, kELEMENT, kATTLIST, kNOTATION, kENTITY]

theorem run_kw_entity (f : Flags) :
    run (.text f true) ([60, 33] ++ (kENTITY ++ [32])) = if f.keep then .entPre else .decl f := by
  simp [step, isWs, isUpper, kwDispatch, kENTITY]

theorem run_entPre_name (param : Bool) (n : Bytes) (h : isName n = true) :
    run .entPre ((if param then [37, 32] else []) ++ (n ++ [32])) = .entDef n := by
  cases n with
  | nil => simp [isName] at h
  | cons c cs =>
    simp only [isName, Bool.and_eq_true] at h
    have hp := nameChar_plain (nameStart_nameChar h.1)
    have e1 : step .entPre c = .entName [c] := by simp [step, hp.1, hp.2.2.2.2.2.2.2.2, h.1]
    have e2 : step (.entName (c :: cs)) 32 = .entDef (c :: cs) := by
      simp [step, isNameChar, isNameStart, isWs]
    have e3 := run_entName cs h.2 [c]
    cases param
    · simp only [Bool.false_eq_true, if_false, List.nil_append, List.cons_append, run_cons, run_append,
        e1, e3, run_nil, e2]
    · simp only [if_true, List.cons_append, List.nil_append, run_cons, run_append]
      have e0 : step (step .entPre 37) 32 = .entPre := by simp [step, isWs]
      simp [e0, e1, e3, e2]

/-- the body of an entity declaration, when it is skipped (`keep = false`) -/
theorem run_decl_entityBody (f : Flags) (param : Bool) (n : Bytes) (d : EntDef)
    (hn : isName n = true) (hd : d.wf = true) :
    run (.decl f) ((if param then [37, 32] else []) ++ (n ++ 32 :: (d.render ++ [62]))) = .text f true := by
  have e0 : run (.decl f) (if param then [37, 32] else []) = .decl f := by
    cases param <;> simp [step, isQuote]
  simp only [run_append, e0, run_decl_name f n hn, run_cons, run_nil]
  simp [step, isQuote, run_decl_entDef f d hd]

theorem run_decl (f : Flags) (d : Decl) (h : d.wf = true) :
    run (.text f true) d.render =
      match d with
      | .entity _ name df => if f.keep then .done (entityVerdict name df) else .text f true
      | .peRef _ => .text { f with keep := f.keep && f.sa } true
      | _ => .text f true := by
  cases d with
  | entity param name df =>
    simp only [Decl.wf, Bool.and_eq_true] at h
    simp only [Decl.render]
    have e : [60, 33] ++ (kENTITY ++ 32 :: ((if param then [37, 32] else []) ++ (name ++ 32 :: (df.render ++ [62]))))
        = ([60, 33] ++ (kENTITY ++ [32])) ++ ((if param then [37, 32] else []) ++ (name ++ 32 :: (df.render ++ [62]))) := by
      simp
    rw [e, run_append, run_kw_entity]
    by_cases hk : f.keep = true
    · simp only [hk, if_true]
      have e2 : (if param then [37, 32] else []) ++ (name ++ 32 :: (df.render ++ [62]))
          = ((if param then [37, 32] else []) ++ (name ++ [32])) ++ (df.render ++ 62 :: []) := by simp
      rw [e2, run_append, run_entPre_name param name h.1, run_entDef name df h.2]
    · simp only [hk, if_false, Bool.false_eq_true]
      exact run_decl_entityBody f param name df h.1 h.2
  | notationDecl name id =>
    simp only [Decl.wf, Bool.and_eq_true] at h
    simp only [Decl.render]
    have e : [60, 33] ++ (kNOTATION ++ 32 :: (name ++ 32 :: (id.render ++ [62])))
        = ([60, 33] ++ (kNOTATION ++ [32])) ++ (name ++ 32 :: (id.render ++ [62])) := by simp
    rw [e, run_append, run_kw_skip f kNOTATION (Or.inr (Or.inr rfl))]
    simp only [run_append, run_decl_name f name h.1, run_cons, run_nil]
    simp [step, isQuote, run_decl_extId f id h.2]
  | element name spec =>
    simp only [Decl.wf, Bool.and_eq_true] at h
    simp only [Decl.render]
    have e : [60, 33] ++ (kELEMENT ++ 32 :: (name ++ 32 :: (spec ++ [62])))
        = ([60, 33] ++ (kELEMENT ++ [32])) ++ (name ++ 32 :: (spec ++ [62])) := by simp
    rw [e, run_append, run_kw_skip f kELEMENT (Or.inl rfl)]
    simp only [run_append, run_decl_name f name h.1, run_cons, run_nil]
    simp [step, isQuote, run_decl_raw f spec h.2]
  | attlist el atts =>
    simp only [Decl.wf, Bool.and_eq_true] at h
    simp only [Decl.render]
    have e : [60, 33] ++ (kATTLIST ++ 32 :: (el ++ (renderAtts atts ++ [62])))
        = ([60, 33] ++ (kATTLIST ++ [32])) ++ (el ++ (renderAtts atts ++ [62])) := by simp
    rw [e, run_append, run_kw_skip f kATTLIST (Or.inr (Or.inl rfl))]
    simp only [run_append, run_decl_name f el h.1, run_decl_atts f atts h.2, run_cons, run_nil]
    simp [step, isQuote]
  | comment body => exact run_comment f true body h
  | pi target body =>
    simp only [Decl.wf, Bool.and_eq_true] at h
    exact run_pi f true target body h.1 h.2
  | peRef name =>
    simp only [Decl.wf] at h
    have hall := isName_all h
    have e1 : step (.text f true) 37 = .peref f := by simp [step, isWs]
    have e2 : run (.peref f) name = .peref f := by
      clear h
      induction name with
      | nil => rfl
      | cons c cs ih =>
        simp only [List.all_cons, Bool.and_eq_true] at hall
        have hp := nameChar_plain hall.1
        simp [step, hp.2.2.2.2.2.1, hall.1, ih hall.2]
    simp only [Decl.render, run_cons, run_append, e1, e2, run_nil]
    simp [step]
  | space ws =>
    simp only [Decl.wf] at h
    exact run_text_ws f true ws h

/-- whether declarations are still processed after a list of declarations -/
def keepAfter (sa : Bool) : Bool → List Decl → Bool
  | k, [] => k
  | k, .peRef _ :: ds => keepAfter sa (k && sa) ds
  | k, _ :: ds => keepAfter sa k ds

theorem run_decls (ds : List Decl) (h : ds.all Decl.wf = true) :
    ∀ f : Flags, run (.text f true) (renderDecls ds) =
      match firstLive f.sa f.keep ds with
      | some v => .done v
      | none => .text { f with keep := keepAfter f.sa f.keep ds } true := by
  induction ds with
  | nil => intro f; simp [renderDecls, firstLive, keepAfter]
  | cons d ds ih =>
    intro f
    simp only [List.all_cons, Bool.and_eq_true] at h
    have h1 := run_decl f d h.1
    simp only [renderDecls, run_append, h1]
    cases d with
    | entity param name df =>
      by_cases hk : f.keep = true
      · simp [hk, firstLive]
      · have hk' : f.keep = false := by simpa using hk
        simp only [hk', Bool.false_eq_true, if_false, firstLive, keepAfter]
        have := ih h.2 f
        simpa [hk'] using this
    | peRef name =>
      have := ih h.2 { f with keep := f.keep && f.sa }
      simpa [firstLive, keepAfter] using this
    | notationDecl name id => simpa [firstLive, keepAfter] using ih h.2 f
    | element name spec => simpa [firstLive, keepAfter] using ih h.2 f
    | attlist el atts => simpa [firstLive, keepAfter] using ih h.2 f
    | comment body => simpa [firstLive, keepAfter] using ih h.2 f
    | pi t b => simpa [firstLive, keepAfter] using ih h.2 f
    | space ws => simpa [firstLive, keepAfter] using ih h.2 f

/-! ### the top level: miscellaneous items, XML declaration, DOCTYPE -/

theorem run_misc (f : Flags) (m : Misc) (h : m.wf = true) :
    run (.text f false) m.render = .text f false := by
  cases m with
  | comment body => exact run_comment f false body h
  | pi t b =>
    simp only [Misc.wf, Bool.and_eq_true] at h
    exact run_pi f false t b h.1 h.2
  | space ws => exact run_text_ws f false ws h

theorem run_miscs (f : Flags) (ms : List Misc) (h : ms.all Misc.wf = true) :
    run (.text f false) (renderMiscs ms) = .text f false := by
  induction ms with
  | nil => rfl
  | cons m ms ih =>
    simp only [List.all_cons, Bool.and_eq_true] at h
    simp [renderMiscs, run_append, run_misc f m h.1, ih h.2]

theorem run_saBytes (f : Flags) (hf : f.sa = false) (sa : Option Bool) :
    run (.xName f []) (saBytes sa ++ [63, 62]) = .text { f with sa := sa == some true } false := by
  obtain ⟨fsa, fe, fk⟩ := f
  simp only at hf
  subst hf
  rcases sa with _ | _ | _
  · simp [saBytes, step, isWs, isNameChar, isNameStart]
  · simp [saBytes, step, isWs, isNameChar, isNameStart, isQuote, kStandalone, kYes]
  · simp [saBytes, step, isWs, isNameChar, isNameStart, isQuote, kStandalone, kYes]

theorem run_encBytes (enc : Option Bytes) (h : (match enc with | some e => e.all isNameChar | none => true) = true) :
    run (.xName flags0 []) (encBytes enc) = .xName flags0 [] := by
  cases enc with
  | none => rfl
  | some e =>
    simp only at h
    have h' := List.all_eq_true.mp h
    have hq : e.all (· != 34) = true := by
      apply List.all_eq_true.mpr
      intro c hc
      have := (nameChar_plain (h' c hc)).2.1
      simp only [isQuote, Bool.or_eq_false_iff, beq_eq_false_iff_ne] at this
      simpa using this.1
    have e1 : run (.xName flags0 []) [32, 101, 110, 99, 111, 100, 105, 110, 103, 61, 34]
        = .xVal flags0 [101, 110, 99, 111, 100, 105, 110, 103] 34 [] := by
      simp [step, isWs, isNameChar, isNameStart, isQuote]
    have e2 := run_xVal flags0 [101, 110, 99, 111, 100, 105, 110, 103] 34 e hq []
    have e3 : step (.xVal flags0 [101, 110, 99, 111, 100, 105, 110, 103] 34 e) 34 = .xName flags0 [] := by
      simp [step, kStandalone]
    simp only [encBytes, run_append, e1, e2, List.nil_append, run_cons, run_nil, e3]

theorem run_xmlDecl (x : XmlDecl) (h : x.wf = true) :
    run st0 x.render = .text { flags0 with sa := x.standalone == some true } false := by
  have ev : run st0 [60, 63, 120, 109, 108, 32, 118, 101, 114, 115, 105, 111, 110, 61, 34, 49, 46, 48, 34]
      = .xName flags0 [] := by
    simp [st0, step, isWs, isNameChar, isNameStart, isQuote, kXml, kStandalone]
  simp only [XmlDecl.render, run_append, ev, run_encBytes x.encoding h]
  simpa [run_append] using run_saBytes flags0 rfl x.standalone

theorem run_head_name (f : Flags) (n : Bytes) (h : n.all isNameChar = true) :
    run (.head f) n = .head f := by
  induction n with
  | nil => rfl
  | cons c cs ih =>
    simp only [List.all_cons, Bool.and_eq_true] at h
    have hp := nameChar_plain h.1
    simp [step, hp.2.1, hp.2.2.2.1, hp.2.2.2.2.1, ih h.2]

theorem run_head_lit (f : Flags) (l : Lit) (h : l.wf = true) :
    run (.head f) l.render = .head { f with ext := true } := by
  simp only [Lit.render, run_cons, run_append, run_nil]
  simp [step, quote_byte_isQuote, run_headLit { f with ext := true } l.q.byte l.body h]

theorem run_head_extId (f : Flags) (id : ExtId) (h : id.wf = true) :
    run (.head f) (32 :: id.render) = .head { f with ext := true } := by
  cases id with
  | system s =>
    simp only [ExtId.wf] at h
    simp only [ExtId.render, kSYSTEM, List.cons_append, List.nil_append, run_cons]
    simp [step, isQuote, run_head_lit f s h]
  | pub p s =>
    simp only [ExtId.wf, Bool.and_eq_true] at h
    simp only [ExtId.render, kPUBLIC, List.cons_append, List.nil_append, run_cons, run_append]
    simp [step, isQuote, run_head_lit f p h.1, run_head_lit { f with ext := true } s h.2]

theorem run_extBytes (f : Flags) (hf : f.ext = false) (ext : Option ExtId)
    (h : (match ext with | some id => id.wf | none => true) = true) :
    run (.head f) (extBytes ext) = .head { f with ext := ext.isSome } := by
  cases ext with
  | none => simp [extBytes, ← hf]
  | some id => simpa [extBytes] using run_head_extId f id h

theorem run_subsetBytes (f : Flags) (hk : f.keep = true) (subset : Option (List Decl))
    (h : (match subset with | some ds => ds.all Decl.wf | none => true) = true) :
    run (.head f) (subsetBytes subset ++ [62]) =
      match firstLive f.sa true (subset.getD []) with
      | some v => .done v
      | none => finish f := by
  cases subset with
  | none => simp [subsetBytes, step, isQuote, firstLive]
  | some ds =>
    simp only at h
    have e2 : step (step (.head f) 32) 91 = .text f true := by simp [step, isQuote]
    simp only [subsetBytes, List.cons_append, List.nil_append, run_cons, run_append, Option.getD_some, e2,
      run_decls ds h, hk]
    cases firstLive f.sa true ds with
    | some v => simp [step]
    | none => simp [step, isWs, finish]

theorem run_doctype (f : Flags) (d : Doctype) (h : d.wf = true) (hf : f.ext = false) (hk : f.keep = true) :
    run (.text f false) d.render =
      match firstLive f.sa true (d.subset.getD []) with
      | some v => .done v
      | none => .done (if d.ext.isSome && !f.sa then .external else .clean) := by
  simp only [Doctype.wf, Bool.and_eq_true] at h
  obtain ⟨⟨hn, hext⟩, hsub⟩ := h
  have e0 : run (.text f false) ([60, 33] ++ (kDOCTYPE ++ [32])) = .head f := by
    simp [step, isWs, isUpper, kwDispatch, kDOCTYPE]
  have e : d.render = ([60, 33] ++ (kDOCTYPE ++ [32])) ++ (d.name ++ (extBytes d.ext ++ (subsetBytes d.subset ++ [62]))) := by
    simp [Doctype.render]
  rw [e, run_append, e0, run_append, run_head_name f d.name (isName_all hn), run_append,
    run_extBytes f hf d.ext hext,
    run_subsetBytes { f with ext := d.ext.isSome } (by simpa using hk) d.subset hsub]
  simp [finish]

/-! ### the expected verdict -/

theorem entityVerdict_ne_clean (n : Bytes) (d : EntDef) :
    entityVerdict n d ≠ .clean ∧ entityVerdict n d ≠ .malformed := by
  cases d <;> simp [entityVerdict]

theorem firstLive_ne_clean (sa : Bool) (ds : List Decl) :
    ∀ keep v, firstLive sa keep ds = some v → v ≠ .clean ∧ v ≠ .malformed ∧ ds.any Decl.isEntity = true := by
  induction ds with
  | nil => intro keep v h; simp [firstLive] at h
  | cons d ds ih =>
    intro keep v h
    cases d with
    | entity param name df =>
      cases keep with
      | true =>
        simp only [firstLive, if_true, Option.some.injEq] at h
        subst h
        exact ⟨(entityVerdict_ne_clean name df).1, (entityVerdict_ne_clean name df).2, by simp [Decl.isEntity]⟩
      | false =>
        simp only [firstLive, if_false, Bool.false_eq_true] at h
        obtain ⟨h1, h2, h3⟩ := ih false v h
        exact ⟨h1, h2, by simp [Decl.isEntity]⟩
    | peRef name =>
      obtain ⟨h1, h2, h3⟩ := ih (keep && sa) v (by simpa [firstLive] using h)
      exact ⟨h1, h2, by simp [Decl.isEntity, h3]⟩
    | notationDecl name id =>
      obtain ⟨h1, h2, h3⟩ := ih keep v (by simpa [firstLive] using h)
      exact ⟨h1, h2, by simp [Decl.isEntity, h3]⟩
    | element name spec =>
      obtain ⟨h1, h2, h3⟩ := ih keep v (by simpa [firstLive] using h)
      exact ⟨h1, h2, by simp [Decl.isEntity, h3]⟩
    | attlist el atts =>
      obtain ⟨h1, h2, h3⟩ := ih keep v (by simpa [firstLive] using h)
      exact ⟨h1, h2, by simp [Decl.isEntity, h3]⟩
    | comment body =>
      obtain ⟨h1, h2, h3⟩ := ih keep v (by simpa [firstLive] using h)
      exact ⟨h1, h2, by simp [Decl.isEntity, h3]⟩
    | pi t bd =>
      obtain ⟨h1, h2, h3⟩ := ih keep v (by simpa [firstLive] using h)
      exact ⟨h1, h2, by simp [Decl.isEntity, h3]⟩
    | space ws =>
      obtain ⟨h1, h2, h3⟩ := ih keep v (by simpa [firstLive] using h)
      exact ⟨h1, h2, by simp [Decl.isEntity, h3]⟩

/-- without PE references every entity declaration is processed -/
theorem firstLive_none_iff (sa : Bool) (ds : List Decl) (h : ds.any Decl.isPeRef = false) :
    firstLive sa true ds = none ↔ ds.any Decl.isEntity = false := by
  induction ds with
  | nil => simp [firstLive]
  | cons d ds ih =>
    simp only [List.any_cons, Bool.or_eq_false_iff] at h
    cases d <;> simp_all [firstLive, Decl.isEntity, Decl.isPeRef]

/-! ### the event model -/

/-- the verdict of the scan is the first processed entity declaration -/
theorem firstLive_eq_headAux (sa : Bool) (ds : List Decl) :
    ∀ keep, firstLive sa keep ds =
      ((liveEntsAux sa keep [] ds).head?).map (fun e => entityVerdict e.2.1 e.2.2) := by
  induction ds with
  | nil => intro keep; rfl
  | cons d ds ih =>
    intro keep
    cases d with
    | entity param name df =>
      cases keep with
      | true => simp [firstLive, liveEntsAux]
      | false => simpa [firstLive, liveEntsAux] using ih false
    | peRef name => simpa [firstLive, liveEntsAux] using ih (keep && sa)
    | notationDecl name id => simpa [firstLive, liveEntsAux] using ih keep
    | element name spec => simpa [firstLive, liveEntsAux] using ih keep
    | attlist el atts => simpa [firstLive, liveEntsAux] using ih keep
    | comment body => simpa [firstLive, liveEntsAux] using ih keep
    | pi t bd => simpa [firstLive, liveEntsAux] using ih keep
    | space ws => simpa [firstLive, liveEntsAux] using ih keep

theorem firstLive_eq_head (sa : Bool) (ds : List Decl) (keep : Bool) :
    firstLive sa keep ds = ((liveEnts sa keep ds).head?).map (fun e => entityVerdict e.2.1 e.2.2) :=
  firstLive_eq_headAux sa ds keep

theorem firstLive_none_iff_live (sa : Bool) (keep : Bool) (ds : List Decl) :
    firstLive sa keep ds = none ↔ liveEnts sa keep ds = [] := by
  rw [firstLive_eq_head]
  cases liveEnts sa keep ds <;> simp

theorem lookupGeneral_nil (name : Bytes) : lookupGeneral name [] = none := rfl

end XsVerif.Prolog
