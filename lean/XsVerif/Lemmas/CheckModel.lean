/-
  Invariants of the port of `check_model` (Model/CheckModel.lean): the `paths` dict keeps, for every
  element name seen so far, one entry whose type is the type of every visited element of that name.
-/
import XsVerif.Model.CheckModel

namespace XsVerif.CM
open XsVerif.Wildcard

theorem mem_dictSet (d : List Entry) (en x : Entry) :
    x ∈ dictSet d en ↔ x = en ∨ (x ∈ d ∧ x.key ≠ en.key) := by
  unfold dictSet
  split
  · rename_i hany
    simp only [List.any_eq_true, beq_iff_eq] at hany
    obtain ⟨y0, hy0, hk0⟩ := hany
    simp only [List.mem_map, beq_iff_eq]
    constructor
    · rintro ⟨y, hy, rfl⟩
      by_cases hk : y.key = en.key
      · simp [hk]
      · simp only [hk, if_false]; exact .inr ⟨hy, hk⟩
    · rintro (rfl | ⟨hx, hk⟩)
      · exact ⟨y0, hy0, by simp [hk0]⟩
      · exact ⟨x, hx, by simp [hk]⟩
  · rename_i hany
    simp only [List.any_eq_true, beq_iff_eq, not_exists, not_and] at hany
    simp only [List.mem_append, List.mem_singleton]
    constructor
    · rintro (hx | rfl)
      · exact .inr ⟨hx, hany x hx⟩
      · exact .inl rfl
    · rintro (rfl | ⟨hx, _⟩)
      · exact .inr rfl
      · exact .inl hx

variable (M : Ctx)

/-- if the inner loop raises nothing, the new element is consistent with every entry of the dict -/
theorem against_ok (e : Nat) (cp : List Nat) : ∀ (d : List Entry) (acc : Acc),
    (M.against e cp d acc).2 = none → ∀ en ∈ d, M.consistent e en.leaf = true := by
  intro d
  induction d with
  | nil => intro acc _ en hen; cases hen
  | cons en0 rest ih =>
    intro acc h en hen
    unfold Ctx.against at h
    by_cases hc : M.consistent e en0.leaf = true
    · simp only [hc, Bool.not_true, Bool.false_eq_true, if_false] at h
      have hrest : ∃ acc', (M.against e cp rest acc').2 = none := by
        split at h
        · exact ⟨_, h⟩
        · split at h
          · simp at h
          · exact ⟨_, h⟩
      obtain ⟨acc', h'⟩ := hrest
      rcases List.mem_cons.mp hen with rfl | hen
      · exact hc
      · exact ih acc' h' en hen
    · simp [hc] at h

/-- `is_consistent` of two element particles with the same name means: same type (both versions) -/
theorem consistent_same_name (e pe : Nat) (h : M.consistent e pe = true)
    (he : M.isElem e = true) (hpe : M.isElem pe = true)
    (hn : (M.info e).name = (M.info pe).name) : (M.info e).ty = (M.info pe).ty := by
  unfold Ctx.consistent at h
  simp only [he, hpe, Bool.and_self, Bool.not_true, Bool.false_eq_true, if_false] at h
  by_cases hv : (!M.v11 && !M.fx.edc10) = true
  · simp only [hv, if_true, Bool.or_eq_true, bne_iff_ne, beq_iff_eq] at h
    rcases h with h | h
    · exact absurd hn h
    · exact h
  · simp only [hv, Bool.false_eq_true, if_false, hn, beq_self_eq_true, if_true, beq_iff_eq] at h
    exact h

/-- invariant of the `paths` dict -/
structure Inv (visited : List Nat) (d : List Entry) : Prop where
  uniq : ∀ x1 ∈ d, ∀ x2 ∈ d, x1.key = x2.key → x1 = x2
  keyed : ∀ x ∈ d, x.key = M.key x.leaf
  cover : ∀ v ∈ visited, M.isElem v = true →
    ∃ x ∈ d, M.isElem x.leaf = true ∧ (M.info x.leaf).name = (M.info v).name ∧ (M.info x.leaf).ty = (M.info v).ty

theorem key_elem {i : Nat} (h : M.isElem i = true) : M.key i = some (M.info i).name := by
  simp [Ctx.key, h]

theorem key_some {i : Nat} {q : QN} (h : M.key i = some q) : M.isElem i = true ∧ (M.info i).name = q := by
  unfold Ctx.key at h
  split at h
  · rename_i he; exact ⟨he, by simpa using h⟩
  · cases h

theorem inv_step (visited : List Nat) (d : List Entry) (e : Nat) (cp : List Nat)
    (hinv : Inv M visited d) (hc : ∀ en ∈ d, M.consistent e en.leaf = true) :
    Inv M (visited ++ [e]) (dictSet d ⟨M.key e, e, cp⟩) := by
  refine ⟨?_, ?_, ?_⟩
  · intro x1 h1 x2 h2 hk
    rcases (mem_dictSet _ _ _).mp h1 with rfl | ⟨h1, k1⟩
    · rcases (mem_dictSet _ _ _).mp h2 with rfl | ⟨_, k2⟩
      · rfl
      · exact absurd hk.symm k2
    · rcases (mem_dictSet _ _ _).mp h2 with rfl | ⟨h2, _⟩
      · exact absurd hk k1
      · exact hinv.uniq x1 h1 x2 h2 hk
  · intro x hx
    rcases (mem_dictSet _ _ _).mp hx with rfl | ⟨hx, _⟩
    · rfl
    · exact hinv.keyed x hx
  · intro v hv hve
    rcases List.mem_append.mp hv with hv | hv
    · obtain ⟨x, hx, hxe, hxn, hxt⟩ := hinv.cover v hv hve
      by_cases hk : x.key = M.key e
      · -- the entry of that name is replaced by `e`, which has the same name and (consistency) type
        have hkx : M.key e = some (M.info x.leaf).name := by
          rw [← hk, hinv.keyed x hx, key_elem M hxe]
        obtain ⟨hee, hen⟩ := key_some M hkx
        have hty := consistent_same_name M e x.leaf (hc x hx) hee hxe hen
        exact ⟨⟨M.key e, e, cp⟩, (mem_dictSet _ _ _).mpr (.inl rfl), hee, hen.trans hxn, hty.trans hxt⟩
      · exact ⟨x, (mem_dictSet _ _ _).mpr (.inr ⟨hx, hk⟩), hxe, hxn, hxt⟩
    · simp only [List.mem_singleton] at hv
      subst hv
      exact ⟨⟨M.key v, v, cp⟩, (mem_dictSet _ _ _).mpr (.inl rfl), hve, rfl, rfl⟩

/-- what the invariant gives at the end of the loop -/
theorem inv_concl (visited : List Nat) (d : List Entry) (hinv : Inv M visited d) :
    ∀ v1 ∈ visited, ∀ v2 ∈ visited, M.isElem v1 = true → M.isElem v2 = true →
      (M.info v1).name = (M.info v2).name → (M.info v1).ty = (M.info v2).ty := by
  intro v1 h1 v2 h2 e1 e2 hn
  obtain ⟨x1, hx1, xe1, xn1, xt1⟩ := hinv.cover v1 h1 e1
  obtain ⟨x2, hx2, xe2, xn2, xt2⟩ := hinv.cover v2 h2 e2
  have hk : x1.key = x2.key := by
    rw [hinv.keyed x1 hx1, hinv.keyed x2 hx2, key_elem M xe1, key_elem M xe2, xn1, xn2, hn]
  have := hinv.uniq x1 hx1 x2 hx2 hk
  subst this
  exact xt1.symm.trans xt2

theorem outer_edc : ∀ (l : List (Nat × List Nat)) (d : List Entry) (acc : Acc) (visited : List Nat),
    Inv M visited d → (M.outer l d acc).err = none →
    ∀ v1 ∈ visited ++ l.map (·.1), ∀ v2 ∈ visited ++ l.map (·.1), M.isElem v1 = true → M.isElem v2 = true →
      (M.info v1).name = (M.info v2).name → (M.info v1).ty = (M.info v2).ty := by
  intro l
  induction l with
  | nil =>
    intro d acc visited hinv _
    simpa using inv_concl M visited d hinv
  | cons hd rest ih =>
    obtain ⟨e, cp⟩ := hd
    intro d acc visited hinv h
    unfold Ctx.outer at h
    split at h
    · simp at h
    · rename_i acc' hag
      have hc := against_ok M e cp d acc (by rw [hag])
      have := ih _ acc' (visited ++ [e]) (inv_step M visited d e cp hinv hc) h
      simpa [List.append_assoc] using this

theorem accepts_edc_direct (p : Particle) (h : M.accepts p = true) :
    ∀ v1 ∈ (M.visited p).map (·.1), ∀ v2 ∈ (M.visited p).map (·.1),
      M.isElem v1 = true → M.isElem v2 = true →
      (M.info v1).name = (M.info v2).name → (M.info v1).ty = (M.info v2).ty := by
  have hinv : Inv M [] [] := by
    refine ⟨?_, ?_, ?_⟩
    · intro x hx; cases hx
    · intro x hx; cases hx
    · intro v hv; cases hv
  have herr : (M.outer (M.visited p) [] {}).err = none := by
    simpa [Ctx.accepts, Ctx.checkModel] using h
  simpa using outer_edc M (M.visited p) [] {} [] hinv herr


/-! ### XSD 1.1: an element / wildcard pair is never an error -/

/-- the two particles of a UPA error are of the same kind (both elements or both wildcards) -/
def SameKindErr : CMErr → Prop
  | .edc _ _ => True
  | .sameGroup pe e => M.isAny pe = M.isAny e
  | .upa pe e => M.isAny pe = M.isAny e

theorem stage1_err (hv : M.v11 = true) (e : Nat) (cp : List Nat) (pe : Nat) (pp : List Nat) (acc : Acc)
    (err : CMErr) (h : M.stage1 e cp pe pp acc = .error err) : SameKindErr M err := by
  unfold Ctx.stage1 at h
  simp only [hv, Bool.true_and] at h
  cases hpe : M.isAny pe <;> cases he : M.isAny e <;> simp only [hpe, he] at h <;>
    (repeat' split at h) <;> first | (simp at h; done) | (cases h; simp_all [SameKindErr])

theorem stage2_err (hv : M.v11 = true) (e : Nat) (cp : List Nat) (pe : Nat) (pp : List Nat) (acc : Acc)
    (err : CMErr) (h : (M.stage2 e cp pe pp acc).2 = some err) : SameKindErr M err := by
  unfold Ctx.stage2 at h
  simp only [hv, Bool.true_and] at h
  cases hpe : M.isAny pe <;> cases he : M.isAny e <;> simp only [hpe, he] at h <;>
    (repeat' split at h) <;> first | (simp at h; done) | (simp at h; subst h; simp_all [SameKindErr])

theorem upaStep_err (hv : M.v11 = true) (e : Nat) (cp : List Nat) (pe : Nat) (pp : List Nat) (acc : Acc)
    (err : CMErr) (h : (M.upaStep e cp pe pp acc).2 = some err) : SameKindErr M err := by
  unfold Ctx.upaStep at h
  split at h
  · rename_i err' h1
    simp only [Option.some.injEq] at h
    subst h
    exact stage1_err M hv e cp pe pp acc err' h1
  · simp at h
  · exact stage2_err M hv e cp pe pp _ err h

theorem against_err (hv : M.v11 = true) (e : Nat) (cp : List Nat) : ∀ (d : List Entry) (acc : Acc) (err : CMErr),
    (M.against e cp d acc).2 = some err → SameKindErr M err := by
  intro d
  induction d with
  | nil => intro acc err h; simp [Ctx.against] at h
  | cons en rest ih =>
    intro acc err h
    unfold Ctx.against at h
    split at h
    · simp only [Option.some.injEq] at h; subst h; trivial
    · split at h
      · exact ih _ _ h
      · split at h
        · rename_i acc' err' hstep
          simp only [Option.some.injEq] at h
          subst h
          exact upaStep_err M hv e cp en.leaf en.path acc err' (by rw [hstep])
        · exact ih _ _ h

theorem outer_err (hv : M.v11 = true) : ∀ (l : List (Nat × List Nat)) (d : List Entry) (acc : Acc) (err : CMErr),
    (M.outer l d acc).err = some err → SameKindErr M err := by
  intro l
  induction l with
  | nil => intro d acc err h; simp [Ctx.outer] at h
  | cons hd rest ih =>
    obtain ⟨e, cp⟩ := hd
    intro d acc err h
    unfold Ctx.outer at h
    split at h
    · rename_i acc' err' hag
      simp only [Option.some.injEq] at h
      subst h
      exact against_err M hv e cp d acc err' (by rw [hag])
    · exact ih _ _ _ h

end XsVerif.CM
