/-
  Helper lemmas for C11 (Model/RaisePolicy.lean): what a site can do outside strict mode, and the
  descent over an arbitrary sequence of reached sites.
-/
import XsVerif.Model.RaisePolicy

namespace XsVerif.RaisePolicy
open XsVerif.Modes (Mode)

/-- outside strict mode only resource / stop sites — and `content` sites, the violations — escape -/
theorem fire_escapes_not_strict (k : Kind) (g : Guard) (m : Mode) (hm : m ≠ .strict)
    (h : fire k g m = .escapes) : k.resourceOrStop = true ∨ k = .content := by
  cases k <;> cases g <;> cases m <;> simp_all [fire, Guard.admits, Kind.resourceOrStop]

/-- a strict-guarded statement does nothing outside strict mode, whatever its kind -/
theorem fire_strict_guard (k : Kind) (m : Mode) (hm : m ≠ .strict) : fire k .strict m = .silent := by
  cases k <;> cases m <;> simp_all [fire, Guard.admits]

/-- … also inside a sub-descent started by a mode switch, whatever its literal mode -/
theorem fireAt_escapes_not_strict (m : Mode) (r : Reached) (hm : m ≠ .strict)
    (h : fireAt m r = .escapes) : r.kind.resourceOrStop = true ∨ r.kind = .content := by
  unfold fireAt at h
  cases hn : r.nested with
  | none => simp only [hn] at h; exact fire_escapes_not_strict _ _ m hm h
  | some m' =>
    simp only [hn] at h
    cases hf : fire r.kind r.guard m' with
    | silent => simp [hf] at h
    | collected => simp only [hf] at h; split at h <;> simp at h
    | escapes =>
      simp only [hf] at h
      by_cases hc : (r.kind.resourceOrStop || r.kind == Kind.content) = true
      · rcases Bool.or_eq_true _ _ ▸ hc with h1 | h1
        · exact Or.inl h1
        · exact Or.inr (by simpa using h1)
      · simp [hc] at h

/-- the exception that ends a descent is the one of a site of the sequence that escapes in that mode -/
theorem run_raised_mem (m : Mode) (script : List Reached) (r : Reached) (h : (run m script).raised = some r) :
    r ∈ script ∧ fireAt m r = .escapes := by
  induction script with
  | nil => simp [run] at h
  | cons x k ih =>
    unfold run at h
    cases hx : fireAt m x with
    | silent =>
      simp only [hx] at h
      exact ⟨List.mem_cons_of_mem _ (ih h).1, (ih h).2⟩
    | collected =>
      simp only [hx] at h
      by_cases hl : (m == Mode.lax) = true
      · simp only [hl, if_true] at h
        exact ⟨List.mem_cons_of_mem _ (ih h).1, (ih h).2⟩
      · simp only [hl] at h
        exact ⟨List.mem_cons_of_mem _ (ih h).1, (ih h).2⟩
    | escapes =>
      simp only [hx] at h
      cases h
      exact ⟨List.mem_cons_self .., hx⟩

/-- skip mode collects nothing -/
theorem run_skip_collects_nothing (script : List Reached) : (run .skip script).collected = [] := by
  induction script with
  | nil => simp [run]
  | cons x k ih =>
    unfold run
    cases hx : fireAt .skip x <;> simp [ih]

/-- a successful walk classifies every site of the table, in order: nothing is skipped -/
theorem classifyAll_fst (ss : List RaiseSite) (pol : List (String × Nat × Kind)) (l : List (RaiseSite × Kind))
    (h : classifyAll ss pol = some l) : l.map Prod.fst = ss := by
  induction ss generalizing pol l with
  | nil =>
    cases pol with
    | nil => simp [classifyAll] at h; subst h; rfl
    | cons p ps => simp [classifyAll] at h
  | cons s ss ih =>
    unfold classifyAll at h
    by_cases hg : (s.guard == Guard.strict) = true
    · simp only [hg, if_true] at h
      cases hr : classifyAll ss pol with
      | none => simp [hr] at h
      | some t => simp [hr] at h; subst h; simp [ih pol t hr]
    · simp only [hg] at h
      cases pol with
      | nil => simp at h
      | cons p ps =>
        obtain ⟨key, n, k⟩ := p
        simp only at h
        by_cases hk : (s.key == key) = true
        · simp only [hk, if_true] at h
          match n, h with
          | 0, h => simp at h
          | 1, h =>
            cases hr : classifyAll ss ps with
            | none => simp [hr] at h
            | some t => simp [hr] at h; subst h; simp [ih ps t hr]
          | n + 2, h =>
            cases hr : classifyAll ss ((key, n + 1, k) :: ps) with
            | none => simp [hr] at h
            | some t => simp [hr] at h; subst h; simp [ih _ t hr]
        · simp [hk] at h

/-- … and a site gets the kind `strictGuard` from the walk exactly when its AST guard is `strict`,
    provided the hand table itself never uses that kind -/
theorem classifyAll_strict (ss : List RaiseSite) (pol : List (String × Nat × Kind)) (l : List (RaiseSite × Kind))
    (h : classifyAll ss pol = some l) (hp : ∀ p ∈ pol, p.2.2 ≠ Kind.strictGuard) :
    ∀ x ∈ l, (x.2 = Kind.strictGuard ↔ x.1.guard = Guard.strict) := by
  induction ss generalizing pol l with
  | nil =>
    cases pol with
    | nil => simp [classifyAll] at h; subst h; simp
    | cons p ps => simp [classifyAll] at h
  | cons s ss ih =>
    unfold classifyAll at h
    by_cases hg : (s.guard == Guard.strict) = true
    · simp only [hg, if_true] at h
      cases hr : classifyAll ss pol with
      | none => simp [hr] at h
      | some t =>
        simp [hr] at h; subst h
        intro x hx
        rcases List.mem_cons.1 hx with rfl | hx
        · simpa using hg
        · exact ih pol t hr hp x hx
    · simp only [hg] at h
      cases pol with
      | nil => simp at h
      | cons p ps =>
        obtain ⟨key, n, k⟩ := p
        have hk0 : k ≠ Kind.strictGuard := hp (key, n, k) (List.mem_cons_self ..)
        have hps : ∀ p ∈ ps, p.2.2 ≠ Kind.strictGuard := fun p hp' => hp p (List.mem_cons_of_mem _ hp')
        simp only at h
        by_cases hk : (s.key == key) = true
        · simp only [hk, if_true] at h
          have hg' : s.guard ≠ Guard.strict := by simpa using hg
          match n, h with
          | 0, h => simp at h
          | 1, h =>
            cases hr : classifyAll ss ps with
            | none => simp [hr] at h
            | some t =>
              simp [hr] at h; subst h
              intro x hx
              rcases List.mem_cons.1 hx with rfl | hx
              · simp [hk0, hg']
              · exact ih ps t hr hps x hx
          | n + 2, h =>
            cases hr : classifyAll ss ((key, n + 1, k) :: ps) with
            | none => simp [hr] at h
            | some t =>
              simp [hr] at h; subst h
              intro x hx
              rcases List.mem_cons.1 hx with rfl | hx
              · simp [hk0, hg']
              · refine ih _ t hr ?_ x hx
                intro p hp'
                rcases List.mem_cons.1 hp' with rfl | hp'
                · exact hk0
                · exact hps p hp'
        · simp [hk] at h

end XsVerif.RaisePolicy
