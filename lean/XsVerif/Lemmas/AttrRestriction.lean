/-
  C14, layer L (attributes): an attribute group accepted as a restriction (`AttrRestr.accepted`) admits,
  under three explicit guards (findings C14-F2 / F4 / F5), only attribute sets the base group admits.
  Definitions and statements: the guards, `attr_restriction_sound_partial`, `required_preserved`,
  `wildcard_narrows`; everything in between is helper material (ordered-dict update, the clauses of the
  acceptance check, monotonicity of the wildcard and of one declaration, the four lookup cases).
  No Mathlib import.
-/
import XsVerif.Model.AttrRestriction
import XsVerif.Lemmas.Attributes
import XsVerif.Props.C16

namespace XsVerif.AttrRestr
open XsVerif.Wildcard XsVerif.Attributes

/-- semantic facts about the simple types that the attribute rules take for granted (C02's business) -/
structure TypeSem (R : RCtx) (s : Sem) : Prop where
  /-- a type derived by restriction accepts a subset of the values -/
  derived_valid : ∀ d b v, R.tyDerived d b = true → s.validT d v = true → s.validT b v = true
  /-- equal normalised fixed values: a value that meets the derived fixed constraint meets the base one -/
  fixed_compat : ∀ d b v df bf, R.tyDerived d b = true → R.norm d df = R.norm b bf →
      s.validT d v = true → (v = df ∨ s.valueEq d v df = true) → (v = bf ∨ s.valueEq b v bf = true)

theorem lookup_cons (x : Decl) (t : List Decl) (n : QN) :
    lookup (x :: t) n = if x.name = n then some x else lookup t n := by
  unfold lookup
  rw [List.find?_cons]
  by_cases h : x.name = n
  · simp [h]
  · have : (x.name == n) = false := by simpa using h
    simp [h, this]

theorem lookup_map_replace (d : Decl) (n : QN) (base : List Decl) :
    lookup (base.map fun b => if b.name == d.name then d else b) n =
      (lookup base n).map fun b => if b.name == d.name then d else b := by
  induction base with
  | nil => rfl
  | cons x t ih =>
    rw [List.map_cons, lookup_cons, lookup_cons, ih]
    by_cases hx : x.name = d.name
    · simp only [hx, beq_self_eq_true, if_true]
      by_cases hn : d.name = n <;> simp [hn, hx]
    · have : (x.name == d.name) = false := by simpa using hx
      simp only [this]
      by_cases hn : x.name = n
      · simp [hn]; intro h; exact absurd (hn.trans h) hx
      · simp [hn]

theorem lookup_append_single (base : List Decl) (d : Decl) (n : QN) :
    lookup (base ++ [d]) n = (lookup base n).or (if d.name = n then some d else none) := by
  induction base with
  | nil => simp [lookup_cons]; rfl
  | cons x t ih =>
    rw [List.cons_append, lookup_cons, lookup_cons, ih]
    by_cases hn : x.name = n <;> simp [hn]

theorem lookup_updateDecls (ds : List Decl) : ∀ (base : List Decl) (n : QN),
    (ds.map (·.name)).Nodup →
    lookup (updateDecls base ds) n = (lookup ds n).or (lookup base n) := by
  induction ds with
  | nil => intro base n _; simp [updateDecls, lookup]
  | cons d ds ih =>
    intro base n hnd
    simp only [List.map_cons, List.nodup_cons] at hnd
    unfold updateDecls
    rw [ih _ n hnd.2, lookup_cons]
    by_cases hn : d.name = n
    · subst hn
      have hnone : lookup ds d.name = none := by
        rw [lookup_none_iff]; intro y hy hyn
        exact hnd.1 (List.mem_map.mpr ⟨y, hy, hyn⟩)
      simp only [hnone, Option.none_or, if_true, Option.some_or]
      cases hb : lookup base d.name with
      | none => simp [lookup_append_single, hb]
      | some b =>
        have := (lookup_some_mem hb).2
        simp only [Option.isSome_some, if_true]
        rw [lookup_map_replace, hb]
        simp [this]
    · simp only [hn, if_false]
      congr 1
      cases hb : lookup base d.name with
      | none => simp [lookup_append_single, hn]
      | some b =>
        simp only [Option.isSome_some, if_true]
        rw [lookup_map_replace]
        cases hb2 : lookup base n with
        | none => rfl
        | some b2 =>
          have := (lookup_some_mem hb2).2
          have h3 : ¬ b2.name = d.name := by rw [this]; exact fun h => hn h.symm
          simp [h3]

theorem lookup_merged_some {B D : Group} (hndD : (D.decls.map (·.name)).Nodup) {n : QN} {d : Decl}
    (h : lookup D.decls n = some d) : lookup (merged B D).decls n = some d := by
  simp [merged, lookup_updateDecls _ _ _ hndD, h]

theorem lookup_merged_none {B D : Group} (hndD : (D.decls.map (·.name)).Nodup) {n : QN}
    (h : lookup D.decls n = none) : lookup (merged B D).decls n = lookup B.decls n := by
  simp [merged, lookup_updateDecls _ _ _ hndD, h]

/-! ### what acceptance says -/

theorem accepted_decl {R : RCtx} {env : Env} {B D : Group} (hacc : accepted R env B D = true)
    {d : Decl} (hd : d ∈ D.decls) : checkDecl R env B d = [] := by
  simp only [accepted, check, List.isEmpty_iff, List.append_eq_nil_iff, List.flatMap_eq_nil_iff] at hacc
  exact hacc.1 d hd

theorem accepted_any {R : RCtx} {env : Env} {B D : Group} (hacc : accepted R env B D = true) :
    checkAny B D = [] := by
  simp only [accepted, check, List.isEmpty_iff, List.append_eq_nil_iff] at hacc
  exact hacc.2

theorem isRestriction_pc {a b : Wc} {pa pb : PC} (h : isRestriction a b pa pb = true) :
    restrPC pa pb = true := by
  unfold isRestriction normPair at h
  split at h <;> simp only [isRestrictionCore, Bool.and_eq_true] at h <;> exact h.1.1

/-- an accepted restriction that repeats the wildcard: the base type has one and `is_restriction` held -/
theorem accepted_any_some {R : RCtx} {env : Env} {B D : Group} (hacc : accepted R env B D = true)
    {w : AnyAttr} (hw : D.any = some w) :
    ∃ bw, B.any = some bw ∧ isRestriction w.wc bw.wc w.pc bw.pc = true := by
  have h := accepted_any hacc
  unfold checkAny at h
  rw [hw] at h
  cases hb : B.any with
  | none => simp [hb] at h
  | some bw =>
    refine ⟨bw, rfl, ?_⟩
    simp only [hb] at h
    cases hr : isRestriction w.wc bw.wc w.pc bw.pc with
    | true => rfl
    | false => simp [hr] at h

theorem emptied_not_matches (env : Env) (bw : AnyAttr) (n : QN) (hx : n.ns ≠ xsiNs) :
    anyMatches env (emptied bw) n = false := by
  simp [anyMatches, allows, nsAllowed, emptied, NsC.isAny, NsC.isOther, NsC.elems, mem, hx]

/-- the wildcard of the derived type, when it admits a non-xsi name, is the repeated one -/
theorem merged_any_matches {R : RCtx} {env : Env} {B D : Group} (hacc : accepted R env B D = true)
    {n : QN} (hx : n.ns ≠ xsiNs) {a : AnyAttr} (ha : (merged B D).any = some a)
    (hm : anyMatches env a n = true) :
    ∃ bw, B.any = some bw ∧ restrPC a.pc bw.pc = true ∧ anyMatches env bw n = true := by
  cases hD : D.any with
  | none =>
    simp only [merged, hD] at ha
    cases hb : B.any with
    | none => simp [hb] at ha
    | some bw =>
      simp only [hb, Option.map_some, Option.some.injEq] at ha
      subst ha
      rw [emptied_not_matches env bw n hx] at hm
      cases hm
  | some w =>
    simp only [merged, hD, Option.some.injEq] at ha
    subst ha
    obtain ⟨bw, hb, hr⟩ := accepted_any_some hacc hD
    exact ⟨bw, hb, isRestriction_pc hr,
      XsVerif.Props.C16.restriction_sound _ _ _ _ hr _ _ n hx hm⟩

theorem restrPC_cases {p q : PC} (h : restrPC p q = true) :
    q = .skip ∨ (q = .lax ∧ p ≠ .skip) ∨ (q = .strict ∧ p = .strict) := by
  cases p <;> cases q <;> simp [restrPC] at h ⊢

theorem anyErrs_mono (s : Sem) (env : Env) (w bw : AnyAttr) (n : QN) (v : String)
    (hpc : restrPC w.pc bw.pc = true) (hm : anyMatches env bw n = true)
    (h : anyErrs s env w n v = []) : anyErrs s env bw n v = [] := by
  unfold anyErrs at h ⊢
  simp only [List.append_eq_nil_iff] at h ⊢
  refine ⟨by simp [hm], ?_⟩
  have h2 := h.2
  rcases restrPC_cases hpc with hq | ⟨hq, hp⟩ | ⟨hq, hp⟩
  · simp [hq]
  · rw [hq]
    cases hp' : w.pc <;> simp_all <;> grind
  · rw [hq]; rw [hp] at h2; exact h2

/-- whatever the derived type's wildcard accepts without error, the base wildcard accepts too -/
theorem merged_anyErrs {R : RCtx} {env : Env} {B D : Group} (hacc : accepted R env B D = true)
    (s : Sem) {n : QN} (hx : n.ns ≠ xsiNs) {a : AnyAttr} (ha : (merged B D).any = some a) (v : String)
    (h : anyErrs s env a n v = []) : ∃ bw, B.any = some bw ∧ anyErrs s env bw n v = [] := by
  have hm : anyMatches env a n = true := by
    unfold anyErrs at h
    simp only [List.append_eq_nil_iff] at h
    cases hm : anyMatches env a n with
    | true => rfl
    | false => simp [hm] at h
  obtain ⟨bw, hb, hpc, hbm⟩ := merged_any_matches hacc hx ha hm
  exact ⟨bw, hb, anyErrs_mono s env a bw n v hpc hbm h⟩

/-! ### the clauses of the per-attribute check -/

theorem declErrsR_nil {R : RCtx} {env : Env} {B : Group} {d b : Decl}
    (h : declErrsR R env B d b = []) :
    (typeExempt R d = true ∨ R.tyDerived d.ty b.ty = true) ∧
    (b.use = .required → d.use = .required) ∧
    (b.use = .prohibited → d.use ≠ .prohibited → baseAdmits env B d.name = true) ∧
    (∀ bf, b.fixed = some bf → ∃ df, d.fixed = some df ∧ R.norm d.ty df = R.norm b.ty bf) := by
  unfold declErrsR at h
  simp only [List.append_eq_nil_iff] at h
  obtain ⟨⟨h1, h2⟩, h3⟩ := h
  refine ⟨?_, ?_, ?_, ?_⟩
  · cases he : typeExempt R d <;> cases ht : R.tyDerived d.ty b.ty <;>
      simp [he, ht] at h1 ⊢
  · intro hb
    cases hd : d.use <;> simp [hb, hd] at h2 ⊢
  · intro hb hd
    cases hd' : d.use <;> cases hm : baseAdmits env B d.name <;> simp_all
  · intro bf hbf
    rw [hbf] at h3
    cases hdf : d.fixed with
    | none => simp [hdf] at h3
    | some df =>
      refine ⟨df, rfl, ?_⟩
      simp only [hdf] at h3
      by_cases hne : R.norm d.ty df = R.norm b.ty bf
      · exact hne
      · simp [hne] at h3

theorem declErrs_mono {R : RCtx} {s : Sem} (hsem : TypeSem R s) (d b : Decl) (n : QN) (v : String)
    (hty : R.tyDerived d.ty b.ty = true)
    (hfix : ∀ bf, b.fixed = some bf → ∃ df, d.fixed = some df ∧ R.norm d.ty df = R.norm b.ty bf)
    (h : declErrs s d n v = []) : declErrs s b n v = [] := by
  unfold declErrs at h ⊢
  simp only [List.append_eq_nil_iff] at h ⊢
  obtain ⟨h1, h2⟩ := h
  have hv : s.validT d.ty v = true := by
    cases hv : s.validT d.ty v with
    | true => rfl
    | false => simp [hv] at h2
  refine ⟨?_, by simp [hsem.derived_valid _ _ _ hty hv]⟩
  cases hbf : b.fixed with
  | none => rfl
  | some bf =>
    obtain ⟨df, hdf, hnorm⟩ := hfix bf hbf
    rw [hdf] at h1
    have hd : v = df ∨ s.valueEq d.ty v df = true := by
      by_cases hvd : v = df
      · exact Or.inl hvd
      · right
        cases he : s.valueEq d.ty v df with
        | true => rfl
        | false => simp [hvd, he] at h1
    rcases hsem.fixed_compat _ _ v df bf hty hnorm hv hd with hb | hb
    · simp [hb]
    · simp [hb]

theorem anyErrs_noassess (s : Sem) (env : Env) (bw : AnyAttr) (n : QN) (v : String)
    (hm : anyMatches env bw n = true)
    (hpc : (bw.pc == .skip ||
      (bw.pc == .lax && (!env.loaded.contains n.ns || (lookup env.globals n).isNone))) = true) :
    anyErrs s env bw n v = [] := by
  unfold anyErrs
  simp only [List.append_eq_nil_iff]
  refine ⟨by simp [hm], ?_⟩
  cases hp : bw.pc with
  | skip => simp
  | strict => simp [hp] at hpc
  | lax =>
    simp only [hp] at hpc
    cases hl : env.loaded.contains n.ns with
    | false => simp
    | true =>
      cases hg : lookup env.globals n with
      | none => simp
      | some g => simp_all

theorem anyErrs_nil_matches {s : Sem} {env : Env} {a : AnyAttr} {n : QN} {v : String}
    (h : anyErrs s env a n v = []) : anyMatches env a n = true := by
  unfold anyErrs at h
  simp only [List.append_eq_nil_iff] at h
  cases hm : anyMatches env a n with
  | true => rfl
  | false => simp [hm] at h
/-- `required_preserved`, proved first because the main theorem uses it -/
theorem required_preserved_aux (R : RCtx) (env : Env) (B D : Group)
    (hndB : (B.decls.map (·.name)).Nodup) (hndD : (D.decls.map (·.name)).Nodup)
    (hacc : accepted R env B D = true) (b : Decl) (hb : b ∈ B.decls) (hreq : b.use = .required) :
    ∃ d ∈ (merged B D).decls, d.name = b.name ∧ d.use = .required := by
  have hlb := lookup_of_nodup hndB hb
  cases hD : lookup D.decls b.name with
  | none =>
    have := lookup_merged_none (B := B) hndD hD
    rw [hlb] at this
    exact ⟨b, (lookup_some_mem this).1, rfl, hreq⟩
  | some d =>
    obtain ⟨hdm, hdn⟩ := lookup_some_mem hD
    have hm := lookup_merged_some (B := B) hndD hD
    have hc := accepted_decl hacc hdm
    unfold checkDecl at hc
    rw [hdn, hlb] at hc
    exact ⟨d, (lookup_some_mem hm).1, hdn, (declErrsR_nil hc).2.1 hreq⟩

/-- `wildcard_narrows`, proved here next to the wildcard lemmas -/
theorem wildcard_narrows_aux (R : RCtx) (env : Env) (B D : Group) (hacc : accepted R env B D = true)
    (n : QN) (hx : n.ns ≠ xsiNs) (h : mergedAdmits env B D n = true) : baseAdmits env B n = true := by
  unfold mergedAdmits at h
  cases ha : (merged B D).any with
  | none => simp [ha] at h
  | some a =>
    simp only [ha] at h
    obtain ⟨bw, hb, -, hm⟩ := merged_any_matches hacc hx ha h
    simp [baseAdmits, hb, hm]

/-! ### one attribute of the instance: the four lookup cases -/

/-- a prohibited declaration of the derived type lets the attribute through only via the wildcard -/
theorem declaredErrs_prohibited {s : Sem} {env : Env} {o : Opts} (ho : o.legacy = false) {G : Group}
    {d : Decl} (hp : d.use = .prohibited) {n : QN} {v : String}
    (h : declaredErrs s env o G d n v = []) :
    ∃ a, G.any = some a ∧ anyMatches env a n = true ∧ anyErrs s env a n v = [] := by
  unfold declaredErrs at h
  simp only [hp, beq_self_eq_true, if_true, ho] at h
  cases ha : G.any with
  | none => simp [ha] at h
  | some a =>
    simp only [ha] at h
    cases hm : anyMatches env a n with
    | false => simp [hm] at h
    | true =>
      simp only [hm, if_true] at h
      exact ⟨a, rfl, hm, by simpa using h⟩

theorem declaredErrs_prohibited_of {s : Sem} {env : Env} {o : Opts} (ho : o.legacy = false) {G : Group}
    {d : Decl} (hp : d.use = .prohibited) {n : QN} {v : String} {a : AnyAttr} (ha : G.any = some a)
    (h : anyErrs s env a n v = []) : declaredErrs s env o G d n v = [] := by
  unfold declaredErrs
  simp [hp, ha, ho, anyErrs_nil_matches h, h]

theorem declaredErrs_live {s : Sem} {env : Env} {o : Opts} {G : Group}
    {d : Decl} (hp : d.use ≠ .prohibited) {n : QN} {v : String} :
    declaredErrs s env o G d n v = declErrs s d n v := by
  unfold declaredErrs
  simp [hp]

theorem stepErrs_some {s : Sem} {env : Env} {o : Opts} {G : Group} {n : QN} {v : String} {d : Decl}
    (h : lookup G.decls n = some d) : stepErrs s env o G (n, v) = declaredErrs s env o G d n v := by
  simp [stepErrs, h]

theorem stepErrs_none_nil {s : Sem} {env : Env} {o : Opts} {G : Group} {n : QN} {v : String}
    (h : lookup G.decls n = none) (hx : n.ns ≠ xsiNs) (he : stepErrs s env o G (n, v) = []) :
    ∃ a, G.any = some a ∧ anyErrs s env a n v = [] := by
  cases ha : G.any with
  | none => simp [stepErrs, h, hx, ha] at he
  | some a => exact ⟨a, rfl, by simpa [stepErrs, h, hx, ha] using he⟩

theorem stepErrs_none_of {s : Sem} {env : Env} {o : Opts} {G : Group} {n : QN} {v : String}
    (h : lookup G.decls n = none) (hx : n.ns ≠ xsiNs) {a : AnyAttr} (ha : G.any = some a)
    (he : anyErrs s env a n v = []) : stepErrs s env o G (n, v) = [] := by
  simp [stepErrs, h, hx, ha, he]

/-- guard 3 for one declaration, spelled out -/
theorem g3_at {env : Env} {B D : Group} (g3 : wildcardDoesNotAssess env B D = true) {d : Decl}
    (hd : d ∈ D.decls) (hp : d.use ≠ .prohibited)
    (hb : ∀ b, lookup B.decls d.name = some b → b.use = .prohibited)
    {bw : AnyAttr} (hbw : B.any = some bw) :
    (bw.pc == .skip ||
      (bw.pc == .lax && (!env.loaded.contains d.name.ns || (lookup env.globals d.name).isNone))) = true := by
  unfold wildcardDoesNotAssess at g3
  have h := (List.all_eq_true.mp g3) d hd
  rw [hbw] at h
  cases hl : lookup B.decls d.name with
  | none => simpa [hp, hl] using h
  | some b => simpa [hp, hl, hb b hl] using h

theorem baseAdmits_some {env : Env} {B : Group} {n : QN} (h : baseAdmits env B n = true) :
    ∃ bw, B.any = some bw ∧ anyMatches env bw n = true := by
  unfold baseAdmits at h
  cases hb : B.any with
  | none => simp [hb] at h
  | some bw => exact ⟨bw, rfl, by simpa [hb] using h⟩

/-- case: the restriction declares the attribute (`d`), the base type declares it too (`b`) -/
theorem step_both {R : RCtx} {s : Sem} {env : Env} {o : Opts} (ho : o.legacy = false) {B D : Group}
    (hsem : TypeSem R s) (hacc : accepted R env B D = true)
    (g1 : noAnyExempt R D = true) (g2 : noProhibitedThroughWildcard env B D = true)
    (g3 : wildcardDoesNotAssess env B D = true)
    {n : QN} (hx : n.ns ≠ xsiNs) {v : String} {d b : Decl}
    (hD : lookup D.decls n = some d) (hBl : lookup B.decls n = some b)
    (h : declaredErrs s env o (merged B D) d n v = []) : declaredErrs s env o B b n v = [] := by
  obtain ⟨hdm, hdn⟩ := lookup_some_mem hD
  subst hdn
  have hc := accepted_decl hacc hdm
  unfold checkDecl at hc
  rw [hBl] at hc
  obtain ⟨c1, -, c3, c4⟩ := declErrsR_nil hc
  by_cases hdp : d.use = .prohibited
  · obtain ⟨a, ha, ham, hae⟩ := declaredErrs_prohibited ho hdp h
    have hbp : b.use = .prohibited := by
      have := (List.all_eq_true.mp g2) d hdm
      simp only [hBl, hdp, mergedAdmits, ha, ham] at this
      cases hbu : b.use <;> simp [hbu] at this ⊢
    obtain ⟨bw, hbw, hbe⟩ := merged_anyErrs hacc s hx ha v hae
    exact declaredErrs_prohibited_of ho hbp hbw hbe
  · rw [declaredErrs_live hdp] at h
    by_cases hbp : b.use = .prohibited
    · obtain ⟨bw, hbw, hbm⟩ := baseAdmits_some (c3 hbp hdp)
      have hpc := g3_at g3 hdm hdp (fun b' hb' => by rw [hBl] at hb'; cases hb'; exact hbp) hbw
      exact declaredErrs_prohibited_of ho hbp hbw (anyErrs_noassess s env bw _ v hbm hpc)
    · rw [declaredErrs_live hbp]
      have hty : R.tyDerived d.ty b.ty = true := by
        have := (List.all_eq_true.mp g1) d hdm
        rcases c1 with c1 | c1
        · cases hu : d.use <;> simp_all
        · exact c1
      exact declErrs_mono hsem d b _ v hty c4 h

/-- case: the restriction declares the attribute, the base type admits it through its wildcard -/
theorem step_derived_only {R : RCtx} {s : Sem} {env : Env} {o : Opts} (ho : o.legacy = false)
    {B D : Group} (hacc : accepted R env B D = true)
    (g3 : wildcardDoesNotAssess env B D = true)
    {n : QN} (hx : n.ns ≠ xsiNs) {v : String} {d : Decl}
    (hD : lookup D.decls n = some d) (hBl : lookup B.decls n = none)
    (h : declaredErrs s env o (merged B D) d n v = []) : stepErrs s env o B (n, v) = [] := by
  obtain ⟨hdm, hdn⟩ := lookup_some_mem hD
  subst hdn
  have hc := accepted_decl hacc hdm
  unfold checkDecl at hc
  rw [hBl] at hc
  have hadm : baseAdmits env B d.name = true := by
    cases hm : baseAdmits env B d.name with
    | true => rfl
    | false => simp [hm] at hc
  obtain ⟨bw, hbw, hbm⟩ := baseAdmits_some hadm
  by_cases hdp : d.use = .prohibited
  · obtain ⟨a, ha, -, hae⟩ := declaredErrs_prohibited ho hdp h
    obtain ⟨bw', hbw', hbe⟩ := merged_anyErrs hacc s hx ha v hae
    exact stepErrs_none_of hBl hx hbw' hbe
  · have hpc := g3_at g3 hdm hdp (fun b' hb' => by rw [hBl] at hb'; cases hb') hbw
    exact stepErrs_none_of hBl hx hbw (anyErrs_noassess s env bw _ v hbm hpc)

/-- case: the restriction does not mention the attribute, the base type declares it -/
theorem step_base_only {R : RCtx} {s : Sem} {env : Env} {o : Opts} (ho : o.legacy = false)
    {B D : Group} (hacc : accepted R env B D = true)
    {n : QN} (hx : n.ns ≠ xsiNs) {v : String} {b : Decl}
    (h : declaredErrs s env o (merged B D) b n v = []) : declaredErrs s env o B b n v = [] := by
  by_cases hbp : b.use = .prohibited
  · obtain ⟨a, ha, -, hae⟩ := declaredErrs_prohibited ho hbp h
    obtain ⟨bw, hbw, hbe⟩ := merged_anyErrs hacc s hx ha v hae
    exact declaredErrs_prohibited_of ho hbp hbw hbe
  · rw [declaredErrs_live hbp] at h ⊢; exact h

/-- one attribute of the instance (not in the xsi namespace) -/
theorem step_mono {R : RCtx} {s : Sem} {env : Env} {o : Opts} (ho : o.legacy = false) {B D : Group}
    (hsem : TypeSem R s) (hndD : (D.decls.map (·.name)).Nodup) (hacc : accepted R env B D = true)
    (g1 : noAnyExempt R D = true) (g2 : noProhibitedThroughWildcard env B D = true)
    (g3 : wildcardDoesNotAssess env B D = true)
    {n : QN} (hx : n.ns ≠ xsiNs) {v : String}
    (h : stepErrs s env o (merged B D) (n, v) = []) : stepErrs s env o B (n, v) = [] := by
  cases hD : lookup D.decls n with
  | some d =>
    rw [stepErrs_some (lookup_merged_some hndD hD)] at h
    cases hBl : lookup B.decls n with
    | some b => rw [stepErrs_some hBl]; exact step_both ho hsem hacc g1 g2 g3 hx hD hBl h
    | none => exact step_derived_only ho hacc g3 hx hD hBl h
  | none =>
    have hml := lookup_merged_none (B := B) hndD hD
    cases hBl : lookup B.decls n with
    | some b =>
      rw [hBl] at hml
      rw [stepErrs_some hml] at h
      rw [stepErrs_some hBl]
      exact step_base_only ho hacc hx h
    | none =>
      rw [hBl] at hml
      obtain ⟨a, ha, hae⟩ := stepErrs_none_nil hml hx h
      obtain ⟨bw, hbw, hbe⟩ := merged_anyErrs hacc s hx ha v hae
      exact stepErrs_none_of hBl hx hbw hbe

/-- the fixed / default values the base type injects for absent attributes -/
theorem step_additional {s : Sem} {env : Env} {o : Opts} (ho : o.legacy = false) {B : Group}
    (hndB : (B.decls.map (·.name)).Nodup)
    (hB : ∀ b ∈ B.decls, ∀ v, constraintOf o b = some v → declErrs s b b.name v = [])
    {A : List Attr} {a : Attr} (ha : a ∈ additional o B A) : stepErrs s env o B a = [] := by
  unfold additional at ha
  obtain ⟨b, hb, hba⟩ := List.mem_filterMap.mp ha
  cases hp : present A b.name with
  | true => simp [hp] at hba
  | false =>
    simp only [hp, Bool.false_eq_true, if_false, Option.map_eq_some_iff] at hba
    obtain ⟨v, hv, rfl⟩ := hba
    have hnp : b.use ≠ .prohibited := by
      intro hbp
      simp [constraintOf, hbp, ho] at hv
    rw [stepErrs_some (lookup_of_nodup hndB hb), declaredErrs_live hnp]
    exact hB b hb v hv

theorem missing_nil_iff {G : Group} {A : List Attr} :
    missing G A = [] ↔ ∀ d ∈ G.decls, d.use = .required → present A d.name = true := by
  unfold missing
  simp only [List.map_eq_nil_iff, List.filter_eq_nil_iff]
  constructor
  · intro h d hd hr
    have := h d hd
    cases hp : present A d.name with
    | true => rfl
    | false => simp [hr, hp] at this
  · intro h d hd
    by_cases hr : d.use = .required
    · simp [h d hd hr]
    · simp [hr]

theorem attr_restriction_sound_partial (R : RCtx) (s : Sem) (env : Env) (o : Opts)
    (ho : o.legacy = false) (B D : Group) (hsem : TypeSem R s)
    (hndB : (B.decls.map (·.name)).Nodup) (hndD : (D.decls.map (·.name)).Nodup)
    (hacc : accepted R env B D = true)
    (g1 : noAnyExempt R D = true) (g2 : noProhibitedThroughWildcard env B D = true)
    (g3 : wildcardDoesNotAssess env B D = true)
    (hB : ∀ b ∈ B.decls, ∀ v, constraintOf o b = some v → declErrs s b b.name v = [])
    (A : List Attr) (hxA : ∀ a ∈ A, a.1.ns ≠ xsiNs)
    (h : validFor s env o (merged B D) A = true) : validFor s env o B A = true := by
  simp only [validFor, errors, List.isEmpty_iff, List.append_eq_nil_iff,
    List.flatMap_eq_nil_iff] at h ⊢
  obtain ⟨hmiss, hstep⟩ := h
  refine ⟨?_, ?_⟩
  · rw [missing_nil_iff] at hmiss ⊢
    intro b hb hreq
    obtain ⟨d, hd, hdn, hdr⟩ := required_preserved_aux R env B D hndB hndD hacc b hb hreq
    rw [← hdn]; exact hmiss d hd hdr
  · intro a ha
    rcases List.mem_append.mp ha with haA | haadd
    · obtain ⟨n, v⟩ := a
      exact step_mono ho hsem hndD hacc g1 g2 g3 (hxA _ haA)
        (hstep _ (List.mem_append.mpr (Or.inl haA)))
    · exact step_additional ho hndB hB haadd

/-- every attribute the base type requires is required by the derived type -/
theorem required_preserved (R : RCtx) (env : Env) (B D : Group)
    (hndB : (B.decls.map (·.name)).Nodup) (hndD : (D.decls.map (·.name)).Nodup)
    (hacc : accepted R env B D = true) (b : Decl) (hb : b ∈ B.decls) (hreq : b.use = .required) :
    ∃ d ∈ (merged B D).decls, d.name = b.name ∧ d.use = .required := by
  exact required_preserved_aux R env B D hndB hndD hacc b hb hreq

/-- the wildcard of the derived type admits a subset of the names the base wildcard admits -/
theorem wildcard_narrows (R : RCtx) (env : Env) (B D : Group) (hacc : accepted R env B D = true)
    (n : QN) (hx : n.ns ≠ xsiNs) (h : mergedAdmits env B D n = true) : baseAdmits env B n = true := by
  exact wildcard_narrows_aux R env B D hacc n hx h

end XsVerif.AttrRestr
