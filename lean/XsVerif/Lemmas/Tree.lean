/-
  The recursion around the converters: a one-level round trip lifts to whole trees.
-/
import XsVerif.Lemmas.Converters

namespace XsVerif.Conv

/-- erase child values (what a level condition may look at) -/
def shape {α} (l : List (Item α)) : List (Item Unit) := mapIt (fun _ => ()) l

def Node.f : Node → Facts | .mk f _ _ => f
def Node.hd : Node → Hd | .mk _ hd _ => hd
def Node.items : Node → Items | .mk _ _ items => items

/-- the content that `element_encode` hands to the child declarations, compared with the expected one: same
    keys, same cdata, child values related by `R` -/
inductive ItemRel (R : J → J → Prop) : Item J → Item J → Prop
  | cdata (i : Nat) (v : J) : ItemRel R (.cdata i v) (.cdata i v)
  | child (nm : String) (s : Bool) (v v' : J) : R v v' → ItemRel R (.child nm s v) (.child nm s v')

inductive ItemsRel (R : J → J → Prop) : List (Item J) → List (Item J) → Prop
  | nil : ItemsRel R [] []
  | cons {a b : Item J} {l l' : List (Item J)} : ItemRel R a b → ItemsRel R l l' → ItemsRel R (a :: l) (b :: l')

theorem ItemsRel.refl_eq : ∀ l : List (Item J), ItemsRel Eq l l
  | [] => .nil
  | .cdata i v :: l => .cons (.cdata i v) (ItemsRel.refl_eq l)
  | .child nm s v :: l => .cons (.child nm s v v rfl) (ItemsRel.refl_eq l)

/-- One-level contract of a converter.
    `WFin` : admissible inputs of `element_decode`, a condition on the element's own data and on the shape
             of its content (not on the converted children);
    `Inv`  : what every converted value looks like (by element name);
    `norm1`: the documented normalisation of one level (polymorphic in the child values);
    `R`    : how the value of a child that `element_encode` returns may differ from the value that
             `element_decode` was given (`Eq` for JsonML; a DataElement child comes back with its tail set,
             dataobjects.py:549) — `element_encode` of the child must not see the difference (`encR`). -/
structure LevelOK (c : Conv) (Inv : String → J → Prop)
    (WFin : Facts → Hd → List (Item Unit) → Prop)
    (norm1 : {α : Type} → Facts → Hd → List (Item α) → Hd × List (Item α))
    (R : J → J → Prop) : Prop where
  rt : ∀ f hd (its : List (Item J)), WFin f hd (shape its) →
      (∀ nm s v, Item.child nm s v ∈ its → Inv nm v) →
      ∃ its', c.enc f hd.tag (c.dec f hd its) = .ok ((norm1 f hd its).1, its') ∧
        ItemsRel R (norm1 f hd its).2 its'
  encR : ∀ f nm v v', R v v' → c.enc f nm v' = c.enc f nm v
  inv : ∀ f hd (its : List (Item J)), WFin f hd (shape its) →
      (∀ nm s v, Item.child nm s v ∈ its → Inv nm v) → Inv hd.tag (c.dec f hd its)
  natural : ∀ {α β} (g : α → β) f hd (its : List (Item α)),
      norm1 f hd (mapIt g its) = ((norm1 f hd its).1, mapIt g (norm1 f hd its).2)
  children : ∀ {α} f hd (its : List (Item α)) nm s v,
      Item.child nm s v ∈ (norm1 f hd its).2 → ∃ s', Item.child nm s' v ∈ its

mutual
/-- a typed tree: every level is an admissible input and every child is declared, under its own name,
    in the content model of its parent with the child's type -/
def TreeWF (WFin : Facts → Hd → List (Item Unit) → Prop) (sch : Nat → Option Facts) : Node → Prop
  | .mk f hd items => WFin f hd (shape items.toList) ∧ ItemsWF WFin sch f items
def ItemsWF (WFin : Facts → Hd → List (Item Unit) → Prop) (sch : Nat → Option Facts) (f : Facts) : Items → Prop
  | .nil => True
  | .cdata _ _ r => ItemsWF WFin sch f r
  | .child nm _ n r =>
      n.hd.tag = nm ∧ (∃ ch, findChild f nm = some ch ∧ sch ch.ty = some n.f) ∧
      TreeWF WFin sch n ∧ ItemsWF WFin sch f r
end

mutual
def normTree (norm1 : {α : Type} → Facts → Hd → List (Item α) → Hd × List (Item α)) : Node → Node
  | .mk f hd items =>
      .mk f (norm1 f hd (normItems norm1 items)).1 (Items.ofList (norm1 f hd (normItems norm1 items)).2)
def normItems (norm1 : {α : Type} → Facts → Hd → List (Item α) → Hd × List (Item α)) : Items → List (Item Node)
  | .nil => []
  | .cdata i v r => .cdata i v :: normItems norm1 r
  | .child nm s n r => .child nm s (normTree norm1 n) :: normItems norm1 r
end

theorem normItems_eq (norm1 : {α : Type} → Facts → Hd → List (Item α) → Hd × List (Item α)) :
    ∀ items : Items, normItems norm1 items = mapIt (normTree norm1) items.toList
  | .nil => rfl
  | .cdata i v r => by
    have := normItems_eq norm1 r
    simp [normItems, Items.toList, mapIt, Item.map] at this ⊢; exact this
  | .child nm s n r => by
    have := normItems_eq norm1 r
    simp [normItems, Items.toList, mapIt, Item.map] at this ⊢; exact this

theorem decItems_eq (c : Conv) : ∀ items : Items, decItems c items = mapIt (decTree c) items.toList
  | .nil => by simp [decItems, Items.toList, mapIt]
  | .cdata i v r => by
    have := decItems_eq c r
    simp [decItems, Items.toList, mapIt, Item.map] at this ⊢; exact this
  | .child nm s n r => by
    have := decItems_eq c r
    simp [decItems, Items.toList, mapIt, Item.map] at this ⊢; exact this

theorem shape_mapIt {α β} (g : α → β) (l : List (Item α)) : shape (mapIt g l) = shape l := by
  induction l with
  | nil => rfl
  | cons a l ih =>
    cases a <;> simp_all [shape, mapIt, Item.map]

theorem encTree_congr (c : Conv) (sch : Nat → Option Facts) (fuel : Nat) (f : Facts) (nm : String) (v v' : J)
    (h : c.enc f nm v' = c.enc f nm v) : encTree c sch fuel f nm v' = encTree c sch fuel f nm v := by
  cases fuel with
  | zero => rfl
  | succ k => simp only [encTree, h]

/-- encoding the children of one level, given that each child round-trips -/
theorem encItems_ok (c : Conv) (sch : Nat → Option Facts) (norm1 : {α : Type} → Facts → Hd → List (Item α) → Hd × List (Item α))
    (rec : Facts → String → J → Except Err Node) (f : Facts) (R : J → J → Prop) :
    ∀ (l : List (Item Node)) (its' : List (Item J)), ItemsRel R (mapIt (decTree c) l) its' →
      (∀ nm s n, Item.child nm s n ∈ l →
        ∃ ch, findChild f nm = some ch ∧ sch ch.ty = some n.f ∧
          ∀ v', R (decTree c n) v' → rec n.f nm v' = .ok (normTree norm1 n)) →
      encItems sch rec f its' = .ok (Items.ofList (mapIt (normTree norm1) l)) := by
  intro l
  induction l with
  | nil =>
    intro its' hrel _
    simp only [mapIt, List.map_nil] at hrel
    cases hrel
    rfl
  | cons a l ih =>
    intro its' hrel h
    simp only [mapIt, List.map_cons] at hrel
    cases hrel with
    | cons hab hrest =>
      have ih' := ih _ hrest (fun nm s n hm => h nm s n (by simp [hm]))
      cases a with
      | cdata i v =>
        simp only [Item.map] at hab
        cases hab
        simp only [mapIt, List.map_cons, Item.map, encItems] at ih' ⊢
        rw [ih']
        rfl
      | child nm s n =>
        simp only [Item.map] at hab
        cases hab with
        | child _ _ _ v' hr =>
          obtain ⟨ch, h1, h2, h3⟩ := h nm s n (by simp)
          simp only [mapIt, List.map_cons, Item.map, encItems, h1, h2, h3 v' hr] at ih' ⊢
          rw [ih']
          rfl

theorem mem_mapIt_child {α β} (g : α → β) (l : List (Item α)) (nm : String) (s : Bool) (v : β)
    (h : Item.child nm s v ∈ mapIt g l) : ∃ a, Item.child nm s a ∈ l ∧ v = g a := by
  induction l with
  | nil => simp [mapIt] at h
  | cons x l ih =>
    simp only [mapIt, List.map_cons, List.mem_cons] at h
    rcases h with h | h
    · cases x with
      | cdata i w => simp [Item.map] at h
      | child nm' s' a =>
        simp only [Item.map, Item.child.injEq] at h
        obtain ⟨rfl, rfl, rfl⟩ := h
        exact ⟨a, by simp, rfl⟩
    · obtain ⟨a, ha, hv⟩ := ih h
      exact ⟨a, by simp [ha], hv⟩

section
variable (c : Conv) {Inv : String → J → Prop} {WFin : Facts → Hd → List (Item Unit) → Prop}
  {norm1 : {α : Type} → Facts → Hd → List (Item α) → Hd × List (Item α)} {R : J → J → Prop}
  (L : LevelOK c Inv WFin norm1 R) (sch : Nat → Option Facts)
include L

mutual
theorem tree_rt : ∀ (n : Node), TreeWF WFin sch n → ∀ fuel, n.depth ≤ fuel →
    encTree c sch fuel n.f n.hd.tag (decTree c n) = .ok (normTree norm1 n) ∧ Inv n.hd.tag (decTree c n)
  | .mk f hd items, hw, fuel, hfuel => by
    simp only [TreeWF] at hw
    obtain ⟨hin, hitems⟩ := hw
    simp only [Node.depth] at hfuel
    obtain ⟨fuel', rfl⟩ : ∃ k, fuel = k + 1 := ⟨fuel - 1, by omega⟩
    have hI := items_rt items f hitems fuel' (by omega)
    have hdec : decItems c items = mapIt (decTree c) items.toList := decItems_eq c items
    have hin' : WFin f hd (shape (decItems c items)) := by rw [hdec, shape_mapIt]; exact hin
    have hinv : ∀ nm s v, Item.child nm s v ∈ decItems c items → Inv nm v := by
      intro nm s v hm
      rw [hdec] at hm
      obtain ⟨n, hn, rfl⟩ := mem_mapIt_child _ _ _ _ _ hm
      exact (hI nm s n hn).2.2.2
    refine ⟨?_, ?_⟩
    · obtain ⟨its', henc, hrel⟩ := L.rt f hd _ hin' hinv
      simp only [Node.f, Node.hd, decTree, encTree]
      rw [henc]
      rw [hdec, L.natural] at hrel ⊢
      simp only [bind, Except.bind]
      rw [encItems_ok c sch norm1 (encTree c sch fuel') f R _ its' hrel]
      · simp only [pure, Except.pure, normTree]
        rw [normItems_eq, L.natural]
      · intro nm s n hm
        obtain ⟨s', hs'⟩ := L.children f hd _ nm s n hm
        obtain ⟨_, ⟨ch, h1, h2⟩, h3, _⟩ := hI nm s' n hs'
        refine ⟨ch, h1, h2, ?_⟩
        intro v' hr
        rw [encTree_congr c sch fuel' n.f nm _ v' (L.encR n.f nm _ v' hr)]
        exact h3
    · simp only [Node.hd, decTree]
      exact L.inv f hd _ hin' hinv
theorem items_rt : ∀ (items : Items) (f : Facts), ItemsWF WFin sch f items → ∀ fuel, items.depth ≤ fuel →
    ∀ nm s n, Item.child nm s n ∈ items.toList →
      n.hd.tag = nm ∧ (∃ ch, findChild f nm = some ch ∧ sch ch.ty = some n.f) ∧
      encTree c sch fuel n.f nm (decTree c n) = .ok (normTree norm1 n) ∧ Inv nm (decTree c n)
  | .nil, _, _, _, _, nm, s, n, hm => by simp [Items.toList] at hm
  | .cdata i v r, f, hw, fuel, hfuel, nm, s, n, hm => by
    simp only [ItemsWF] at hw
    simp only [Items.depth] at hfuel
    simp only [Items.toList, List.mem_cons] at hm
    rcases hm with hm | hm
    · cases hm
    · exact items_rt r f hw fuel hfuel nm s n hm
  | .child nm' s' n' r, f, hw, fuel, hfuel, nm, s, n, hm => by
    simp only [ItemsWF] at hw
    obtain ⟨htag, hch, hn', hr⟩ := hw
    simp only [Items.depth] at hfuel
    simp only [Items.toList, List.mem_cons, Item.child.injEq] at hm
    rcases hm with ⟨rfl, rfl, rfl⟩ | hm
    · refine ⟨htag, hch, ?_, ?_⟩
      · rw [← htag]; exact (tree_rt n hn' fuel (by omega)).1
      · rw [← htag]; exact (tree_rt n hn' fuel (by omega)).2
    · exact items_rt r f hr fuel (by omega) nm s n hm
end
end

/-! ### scoped recursion: the name mapping follows the namespace declarations in scope -/

/-- contract of a scoped converter.  The one-level round trip `rt` holds in every scope; `Inv sc nm v` is what a
    converted child named `nm` looks like *to an element whose scope is `sc`* (the child itself was converted in
    the scope extended with its own declarations: `inv`); `element_encode` reports exactly the declarations that
    `get_xmlns_from_data` reads from the object (`encXmlns`), the normalisation keeps the declarations
    (`normXmlns`), and values related by `R` carry the same declarations (`xmlnsR`). -/
structure ScopedOK (c : SConv) (Inv : NsScope → String → J → Prop)
    (WFin : NsScope → Facts → Hd → List (Item Unit) → Prop)
    (norm1 : {α : Type} → Facts → Hd → List (Item α) → Hd × List (Item α))
    (R : J → J → Prop) : Prop where
  rt : ∀ sc f hd (its : List (Item J)), WFin sc f hd (shape its) →
      (∀ nm s v, Item.child nm s v ∈ its → Inv sc nm v) →
      ∃ its', (c.cv sc).enc f hd.tag ((c.cv sc).dec f hd its) = .ok ((norm1 f hd its).1, its') ∧
        ItemsRel R (norm1 f hd its).2 its'
  encR : ∀ sc f nm v v', R v v' → (c.cv sc).enc f nm v' = (c.cv sc).enc f nm v
  inv : ∀ sc f hd (its : List (Item J)), WFin (sc.push hd.xmlns) f hd (shape its) →
      (∀ nm s v, Item.child nm s v ∈ its → Inv (sc.push hd.xmlns) nm v) →
      Inv sc hd.tag ((c.cv (sc.push hd.xmlns)).dec f hd its)
  natural : ∀ {α β} (g : α → β) f hd (its : List (Item α)),
      norm1 f hd (mapIt g its) = ((norm1 f hd its).1, mapIt g (norm1 f hd its).2)
  children : ∀ {α} f hd (its : List (Item α)) nm s v,
      Item.child nm s v ∈ (norm1 f hd its).2 → ∃ s', Item.child nm s' v ∈ its
  encXmlns : ∀ sc f nm v hd its, (c.cv sc).enc f nm v = .ok (hd, its) → hd.xmlns = c.xmlnsOf v
  normXmlns : ∀ f hd (its : List (Item J)), (norm1 f hd its).1.xmlns = hd.xmlns
  xmlnsR : ∀ v v', R v v' → c.xmlnsOf v' = c.xmlnsOf v

/-- a family of converters each of which meets the one-level contract with one scope-independent invariant
    (the converted children do not mention prefixed names: DataElement) is a scoped converter -/
theorem ScopedOK.ofLevel {c : SConv} {Inv : String → J → Prop}
    {WFin : NsScope → Facts → Hd → List (Item Unit) → Prop}
    {norm1 : {α : Type} → Facts → Hd → List (Item α) → Hd × List (Item α)} {R : J → J → Prop}
    (level : ∀ sc, LevelOK (c.cv sc) Inv (WFin sc) norm1 R)
    (encXmlns : ∀ sc f nm v hd its, (c.cv sc).enc f nm v = .ok (hd, its) → hd.xmlns = c.xmlnsOf v)
    (normXmlns : ∀ f hd (its : List (Item J)), (norm1 f hd its).1.xmlns = hd.xmlns)
    (xmlnsR : ∀ v v', R v v' → c.xmlnsOf v' = c.xmlnsOf v) :
    ScopedOK c (fun _ => Inv) WFin norm1 R where
  rt := fun sc => (level sc).rt
  encR := fun sc => (level sc).encR
  inv := fun sc f hd its => (level (sc.push hd.xmlns)).inv f hd its
  natural := (level []).natural
  children := (level []).children
  encXmlns := encXmlns
  normXmlns := normXmlns
  xmlnsR := xmlnsR

mutual
/-- a typed tree every level of which is an admissible input *in its own scope* -/
def TreeWFS (WFin : NsScope → Facts → Hd → List (Item Unit) → Prop) (sch : Nat → Option Facts)
    (sc : NsScope) : Node → Prop
  | .mk f hd items =>
      WFin (sc.push hd.xmlns) f hd (shape items.toList) ∧ ItemsWFS WFin sch (sc.push hd.xmlns) f items
def ItemsWFS (WFin : NsScope → Facts → Hd → List (Item Unit) → Prop) (sch : Nat → Option Facts)
    (sc : NsScope) (f : Facts) : Items → Prop
  | .nil => True
  | .cdata _ _ r => ItemsWFS WFin sch sc f r
  | .child nm _ n r =>
      n.hd.tag = nm ∧ (∃ ch, findChild f nm = some ch ∧ sch ch.ty = some n.f) ∧
      TreeWFS WFin sch sc n ∧ ItemsWFS WFin sch sc f r
end

/-- the scoped recursion with a constant family is the plain one (documents without inner declarations, or
    `process_namespaces=False`: one mapper for the whole document) -/
theorem encTreeS_const (c : Conv) (x : J → List (String × String)) (sch : Nat → Option Facts) :
    ∀ (fuel : Nat) (sc : NsScope) (f : Facts) (nm : String) (v : J),
      encTreeS ⟨fun _ => c, x⟩ sch fuel sc f nm v = encTree c sch fuel f nm v := by
  intro fuel
  induction fuel with
  | zero => intros; rfl
  | succ k ih =>
    intro sc f nm v
    have hrec : encTreeS ⟨fun _ => c, x⟩ sch k (sc.push (x v)) = encTree c sch k := by
      funext f nm v; exact ih _ f nm v
    simp only [encTreeS, encTree, hrec]

mutual
theorem decTreeS_const (c : Conv) (x : J → List (String × String)) :
    ∀ (n : Node) (sc : NsScope), decTreeS ⟨fun _ => c, x⟩ sc n = decTree c n
  | .mk f hd items, sc => by
    simp only [decTreeS, decTree, decItemsS_const c x items]
theorem decItemsS_const (c : Conv) (x : J → List (String × String)) :
    ∀ (items : Items) (sc : NsScope), decItemsS ⟨fun _ => c, x⟩ sc items = decItems c items
  | .nil, _ => rfl
  | .cdata i v r, sc => by simp only [decItemsS, decItems, decItemsS_const c x r]
  | .child nm s n r, sc => by
    simp only [decItemsS, decItems, decTreeS_const c x n, decItemsS_const c x r]
end

theorem decItemsS_eq (c : SConv) (sc : NsScope) :
    ∀ items : Items, decItemsS c sc items = mapIt (decTreeS c sc) items.toList
  | .nil => by simp [decItemsS, Items.toList, mapIt]
  | .cdata i v r => by
    have := decItemsS_eq c sc r
    simp [decItemsS, Items.toList, mapIt, Item.map] at this ⊢; exact this
  | .child nm s n r => by
    have := decItemsS_eq c sc r
    simp [decItemsS, Items.toList, mapIt, Item.map] at this ⊢; exact this

theorem encTreeS_congr (c : SConv) (sch : Nat → Option Facts) (fuel : Nat) (sc : NsScope) (f : Facts)
    (nm : String) (v v' : J) (hx : c.xmlnsOf v' = c.xmlnsOf v)
    (h : ∀ sc', (c.cv sc').enc f nm v' = (c.cv sc').enc f nm v) :
    encTreeS c sch fuel sc f nm v' = encTreeS c sch fuel sc f nm v := by
  cases fuel with
  | zero => rfl
  | succ k => simp only [encTreeS, hx, h]

/-- `encItems_ok` with the decoder of the scope -/
theorem encItems_okS (c : SConv) (sc : NsScope) (sch : Nat → Option Facts)
    (norm1 : {α : Type} → Facts → Hd → List (Item α) → Hd × List (Item α))
    (rec : Facts → String → J → Except Err Node) (f : Facts) (R : J → J → Prop) :
    ∀ (l : List (Item Node)) (its' : List (Item J)), ItemsRel R (mapIt (decTreeS c sc) l) its' →
      (∀ nm s n, Item.child nm s n ∈ l →
        ∃ ch, findChild f nm = some ch ∧ sch ch.ty = some n.f ∧
          ∀ v', R (decTreeS c sc n) v' → rec n.f nm v' = .ok (normTree norm1 n)) →
      encItems sch rec f its' = .ok (Items.ofList (mapIt (normTree norm1) l)) := by
  intro l
  induction l with
  | nil =>
    intro its' hrel _
    simp only [mapIt, List.map_nil] at hrel
    cases hrel
    rfl
  | cons a l ih =>
    intro its' hrel h
    simp only [mapIt, List.map_cons] at hrel
    cases hrel with
    | cons hab hrest =>
      have ih' := ih _ hrest (fun nm s n hm => h nm s n (by simp [hm]))
      cases a with
      | cdata i v =>
        simp only [Item.map] at hab
        cases hab
        simp only [mapIt, List.map_cons, Item.map, encItems] at ih' ⊢
        rw [ih']
        rfl
      | child nm s n =>
        simp only [Item.map] at hab
        cases hab with
        | child _ _ _ v' hr =>
          obtain ⟨ch, h1, h2, h3⟩ := h nm s n (by simp)
          simp only [mapIt, List.map_cons, Item.map, encItems, h1, h2, h3 v' hr] at ih' ⊢
          rw [ih']
          rfl

section
variable (c : SConv) {Inv : NsScope → String → J → Prop}
  {WFin : NsScope → Facts → Hd → List (Item Unit) → Prop}
  {norm1 : {α : Type} → Facts → Hd → List (Item α) → Hd × List (Item α)} {R : J → J → Prop}
  (S : ScopedOK c Inv WFin norm1 R) (sch : Nat → Option Facts)
include S

mutual
/-- the one-level round trips lift to whole trees when the name mapping follows the declarations in scope:
    every element is decoded and re-encoded under the declarations of its ancestors-or-self, whatever its
    siblings and their descendants declare -/
theorem tree_rt_scoped : ∀ (n : Node) (sc : NsScope), TreeWFS WFin sch sc n → ∀ fuel, n.depth ≤ fuel →
    encTreeS c sch fuel sc n.f n.hd.tag (decTreeS c sc n) = .ok (normTree norm1 n) ∧
    Inv sc n.hd.tag (decTreeS c sc n)
  | .mk f hd items, sc, hw, fuel, hfuel => by
    simp only [TreeWFS] at hw
    obtain ⟨hin, hitems⟩ := hw
    simp only [Node.depth] at hfuel
    obtain ⟨fuel', rfl⟩ : ∃ k, fuel = k + 1 := ⟨fuel - 1, by omega⟩
    have hI := items_rt_scoped items (sc.push hd.xmlns) f hitems fuel' (by omega)
    have hdec : decItemsS c (sc.push hd.xmlns) items = mapIt (decTreeS c (sc.push hd.xmlns)) items.toList :=
      decItemsS_eq c _ items
    have hin' : WFin (sc.push hd.xmlns) f hd (shape (decItemsS c (sc.push hd.xmlns) items)) := by
      rw [hdec, shape_mapIt]; exact hin
    have hinv : ∀ nm s v, Item.child nm s v ∈ decItemsS c (sc.push hd.xmlns) items →
        Inv (sc.push hd.xmlns) nm v := by
      intro nm s v hm
      rw [hdec] at hm
      obtain ⟨n, hn, rfl⟩ := mem_mapIt_child _ _ _ _ _ hm
      exact (hI nm s n hn).2.2.2
    refine ⟨?_, ?_⟩
    · obtain ⟨its', henc, hrel⟩ := S.rt _ f hd _ hin' hinv
      -- the declarations read back from the decoded object are the element's own
      have hx : c.xmlnsOf ((c.cv (sc.push hd.xmlns)).dec f hd (decItemsS c (sc.push hd.xmlns) items)) = hd.xmlns := by
        rw [← S.encXmlns _ _ _ _ _ _ henc]
        exact S.normXmlns f hd _
      simp only [Node.f, Node.hd, decTreeS, encTreeS]
      rw [hx, henc]
      rw [hdec, S.natural] at hrel ⊢
      simp only [bind, Except.bind]
      rw [encItems_okS c (sc.push hd.xmlns) sch norm1 (encTreeS c sch fuel' (sc.push hd.xmlns)) f R _ its' hrel]
      · simp only [pure, Except.pure, normTree]
        rw [normItems_eq, S.natural]
      · intro nm s n hm
        obtain ⟨s', hs'⟩ := S.children f hd _ nm s n hm
        obtain ⟨_, ⟨ch, h1, h2⟩, h3, _⟩ := hI nm s' n hs'
        refine ⟨ch, h1, h2, ?_⟩
        intro v' hr
        rw [encTreeS_congr c sch fuel' _ n.f nm _ v' (S.xmlnsR _ _ hr)
          (fun sc' => S.encR sc' n.f nm _ v' hr)]
        exact h3
    · simp only [Node.hd, decTreeS]
      exact S.inv sc f hd _ hin' hinv
theorem items_rt_scoped : ∀ (items : Items) (sc : NsScope) (f : Facts), ItemsWFS WFin sch sc f items →
    ∀ fuel, items.depth ≤ fuel →
    ∀ nm s n, Item.child nm s n ∈ items.toList →
      n.hd.tag = nm ∧ (∃ ch, findChild f nm = some ch ∧ sch ch.ty = some n.f) ∧
      encTreeS c sch fuel sc n.f nm (decTreeS c sc n) = .ok (normTree norm1 n) ∧ Inv sc nm (decTreeS c sc n)
  | .nil, _, _, _, _, _, nm, s, n, hm => by simp [Items.toList] at hm
  | .cdata i v r, sc, f, hw, fuel, hfuel, nm, s, n, hm => by
    simp only [ItemsWFS] at hw
    simp only [Items.depth] at hfuel
    simp only [Items.toList, List.mem_cons] at hm
    rcases hm with hm | hm
    · cases hm
    · exact items_rt_scoped r sc f hw fuel hfuel nm s n hm
  | .child nm' s' n' r, sc, f, hw, fuel, hfuel, nm, s, n, hm => by
    simp only [ItemsWFS] at hw
    obtain ⟨htag, hch, hn', hr⟩ := hw
    simp only [Items.depth] at hfuel
    simp only [Items.toList, List.mem_cons, Item.child.injEq] at hm
    rcases hm with ⟨rfl, rfl, rfl⟩ | hm
    · refine ⟨htag, hch, ?_, ?_⟩
      · rw [← htag]; exact (tree_rt_scoped n sc hn' fuel (by omega)).1
      · rw [← htag]; exact (tree_rt_scoped n sc hn' fuel (by omega)).2
    · exact items_rt_scoped r sc f hr fuel (by omega) nm s n hm
end
end

end XsVerif.Conv
