/-
  The recursion around the converters: a one-level round trip lifts to whole trees.
-/
import XsVerif.Lemmas.Converters

namespace XsVerif.Conv

/-- erase child values (what a level condition may look at) -/
def shape {α} (l : List (Item α)) : List (Item Unit) := mapIt (fun _ => ()) l

def Node.f : Node → Facts | .mk f _ _ => f
def Node.hd : Node → Hd | .mk _ hd _ => hd
def Node.items : Node → Items | .mk _ _ items => items

/-- One-level contract of a converter.
    `WFin` : admissible inputs of `element_decode`, a condition on the element's own data and on the shape
             of its content (not on the converted children);
    `Inv`  : what every converted value looks like (by element name);
    `norm1`: the documented normalisation of one level (polymorphic in the child values). -/
structure LevelOK (c : Conv) (Inv : String → J → Prop)
    (WFin : Facts → Hd → List (Item Unit) → Prop)
    (norm1 : {α : Type} → Facts → Hd → List (Item α) → Hd × List (Item α)) : Prop where
  rt : ∀ f hd (its : List (Item J)), WFin f hd (shape its) →
      (∀ nm s v, Item.child nm s v ∈ its → Inv nm v) →
      c.enc f hd.tag (c.dec f hd its) = .ok (norm1 f hd its)
  inv : ∀ f hd (its : List (Item J)), WFin f hd (shape its) →
      (∀ nm s v, Item.child nm s v ∈ its → Inv nm v) → Inv hd.tag (c.dec f hd its)
  natural : ∀ {α β} (g : α → β) f hd (its : List (Item α)),
      norm1 f hd (mapIt g its) = ((norm1 f hd its).1, mapIt g (norm1 f hd its).2)
  children : ∀ {α} f hd (its : List (Item α)) nm s v,
      Item.child nm s v ∈ (norm1 f hd its).2 → ∃ s', Item.child nm s' v ∈ its

mutual
/-- a typed tree: every level is an admissible input and every child is declared, under its own name,
    in the content model of its parent with the child's type -/
def TreeWF (WFin : Facts → Hd → List (Item Unit) → Prop) (sch : Nat → Option Facts) : Node → Prop
  | .mk f hd items => WFin f hd (shape items.toList) ∧ ItemsWF WFin sch f items
def ItemsWF (WFin : Facts → Hd → List (Item Unit) → Prop) (sch : Nat → Option Facts) (f : Facts) : Items → Prop
  | .nil => True
  | .cdata _ _ r => ItemsWF WFin sch f r
  | .child nm _ n r =>
      n.hd.tag = nm ∧ (∃ ch, findChild f nm = some ch ∧ sch ch.ty = some n.f) ∧
      TreeWF WFin sch n ∧ ItemsWF WFin sch f r
end

mutual
def normTree (norm1 : {α : Type} → Facts → Hd → List (Item α) → Hd × List (Item α)) : Node → Node
  | .mk f hd items =>
      .mk f (norm1 f hd (normItems norm1 items)).1 (Items.ofList (norm1 f hd (normItems norm1 items)).2)
def normItems (norm1 : {α : Type} → Facts → Hd → List (Item α) → Hd × List (Item α)) : Items → List (Item Node)
  | .nil => []
  | .cdata i v r => .cdata i v :: normItems norm1 r
  | .child nm s n r => .child nm s (normTree norm1 n) :: normItems norm1 r
end

theorem normItems_eq (norm1 : {α : Type} → Facts → Hd → List (Item α) → Hd × List (Item α)) :
    ∀ items : Items, normItems norm1 items = mapIt (normTree norm1) items.toList
  | .nil => rfl
  | .cdata i v r => by
    have := normItems_eq norm1 r
    simp [normItems, Items.toList, mapIt, Item.map] at this ⊢; exact this
  | .child nm s n r => by
    have := normItems_eq norm1 r
    simp [normItems, Items.toList, mapIt, Item.map] at this ⊢; exact this

theorem decItems_eq (c : Conv) : ∀ items : Items, decItems c items = mapIt (decTree c) items.toList
  | .nil => by simp [decItems, Items.toList, mapIt]
  | .cdata i v r => by
    have := decItems_eq c r
    simp [decItems, Items.toList, mapIt, Item.map] at this ⊢; exact this
  | .child nm s n r => by
    have := decItems_eq c r
    simp [decItems, Items.toList, mapIt, Item.map] at this ⊢; exact this

theorem shape_mapIt {α β} (g : α → β) (l : List (Item α)) : shape (mapIt g l) = shape l := by
  induction l with
  | nil => rfl
  | cons a l ih =>
    cases a <;> simp_all [shape, mapIt, Item.map]

/-- encoding the children of one level, given that each child round-trips -/
theorem encItems_ok (c : Conv) (sch : Nat → Option Facts) (norm1 : {α : Type} → Facts → Hd → List (Item α) → Hd × List (Item α))
    (rec : Facts → String → J → Except Err Node) (f : Facts) :
    ∀ (l : List (Item Node)),
      (∀ nm s n, Item.child nm s n ∈ l →
        ∃ ch, findChild f nm = some ch ∧ sch ch.ty = some n.f ∧
          rec n.f nm (decTree c n) = .ok (normTree norm1 n)) →
      encItems sch rec f (mapIt (decTree c) l) = .ok (Items.ofList (mapIt (normTree norm1) l)) := by
  intro l
  induction l with
  | nil => intro _; rfl
  | cons a l ih =>
    intro h
    have ih' := ih (fun nm s n hm => h nm s n (by simp [hm]))
    cases a with
    | cdata i v =>
      simp only [mapIt, List.map_cons, Item.map, encItems] at ih' ⊢
      rw [ih']
      rfl
    | child nm s n =>
      obtain ⟨ch, h1, h2, h3⟩ := h nm s n (by simp)
      simp only [mapIt, List.map_cons, Item.map, encItems, h1, h2, h3] at ih' ⊢
      rw [ih']
      rfl

theorem mem_mapIt_child {α β} (g : α → β) (l : List (Item α)) (nm : String) (s : Bool) (v : β)
    (h : Item.child nm s v ∈ mapIt g l) : ∃ a, Item.child nm s a ∈ l ∧ v = g a := by
  induction l with
  | nil => simp [mapIt] at h
  | cons x l ih =>
    simp only [mapIt, List.map_cons, List.mem_cons] at h
    rcases h with h | h
    · cases x with
      | cdata i w => simp [Item.map] at h
      | child nm' s' a =>
        simp only [Item.map, Item.child.injEq] at h
        obtain ⟨rfl, rfl, rfl⟩ := h
        exact ⟨a, by simp, rfl⟩
    · obtain ⟨a, ha, hv⟩ := ih h
      exact ⟨a, by simp [ha], hv⟩

section
variable (c : Conv) {Inv : String → J → Prop} {WFin : Facts → Hd → List (Item Unit) → Prop}
  {norm1 : {α : Type} → Facts → Hd → List (Item α) → Hd × List (Item α)}
  (L : LevelOK c Inv WFin norm1) (sch : Nat → Option Facts)
include L

mutual
theorem tree_rt : ∀ (n : Node), TreeWF WFin sch n → ∀ fuel, n.depth ≤ fuel →
    encTree c sch fuel n.f n.hd.tag (decTree c n) = .ok (normTree norm1 n) ∧ Inv n.hd.tag (decTree c n)
  | .mk f hd items, hw, fuel, hfuel => by
    simp only [TreeWF] at hw
    obtain ⟨hin, hitems⟩ := hw
    simp only [Node.depth] at hfuel
    obtain ⟨fuel', rfl⟩ : ∃ k, fuel = k + 1 := ⟨fuel - 1, by omega⟩
    have hI := items_rt items f hitems fuel' (by omega)
    have hdec : decItems c items = mapIt (decTree c) items.toList := decItems_eq c items
    have hin' : WFin f hd (shape (decItems c items)) := by rw [hdec, shape_mapIt]; exact hin
    have hinv : ∀ nm s v, Item.child nm s v ∈ decItems c items → Inv nm v := by
      intro nm s v hm
      rw [hdec] at hm
      obtain ⟨n, hn, rfl⟩ := mem_mapIt_child _ _ _ _ _ hm
      exact (hI nm s n hn).2.2.2
    refine ⟨?_, ?_⟩
    · simp only [Node.f, Node.hd, decTree, encTree]
      rw [L.rt f hd _ hin' hinv, hdec, L.natural]
      simp only [bind, Except.bind]
      rw [encItems_ok c sch norm1 (encTree c sch fuel') f]
      · simp only [pure, Except.pure, normTree]
        rw [normItems_eq, L.natural]
      · intro nm s n hm
        obtain ⟨s', hs'⟩ := L.children f hd _ nm s n hm
        obtain ⟨_, ⟨ch, h1, h2⟩, h3, _⟩ := hI nm s' n hs'
        exact ⟨ch, h1, h2, h3⟩
    · simp only [Node.hd, decTree]
      exact L.inv f hd _ hin' hinv
theorem items_rt : ∀ (items : Items) (f : Facts), ItemsWF WFin sch f items → ∀ fuel, items.depth ≤ fuel →
    ∀ nm s n, Item.child nm s n ∈ items.toList →
      n.hd.tag = nm ∧ (∃ ch, findChild f nm = some ch ∧ sch ch.ty = some n.f) ∧
      encTree c sch fuel n.f nm (decTree c n) = .ok (normTree norm1 n) ∧ Inv nm (decTree c n)
  | .nil, _, _, _, _, nm, s, n, hm => by simp [Items.toList] at hm
  | .cdata i v r, f, hw, fuel, hfuel, nm, s, n, hm => by
    simp only [ItemsWF] at hw
    simp only [Items.depth] at hfuel
    simp only [Items.toList, List.mem_cons] at hm
    rcases hm with hm | hm
    · cases hm
    · exact items_rt r f hw fuel hfuel nm s n hm
  | .child nm' s' n' r, f, hw, fuel, hfuel, nm, s, n, hm => by
    simp only [ItemsWF] at hw
    obtain ⟨htag, hch, hn', hr⟩ := hw
    simp only [Items.depth] at hfuel
    simp only [Items.toList, List.mem_cons, Item.child.injEq] at hm
    rcases hm with ⟨rfl, rfl, rfl⟩ | hm
    · refine ⟨htag, hch, ?_, ?_⟩
      · rw [← htag]; exact (tree_rt n hn' fuel (by omega)).1
      · rw [← htag]; exact (tree_rt n hn' fuel (by omega)).2
    · exact items_rt r f hr fuel (by omega) nm s n hm
end
end

end XsVerif.Conv
