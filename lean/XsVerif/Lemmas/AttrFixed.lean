/-
  The variant chain of Model/AttrFixed.lean: equal to the original chain when no type is marked, and the
  no-error characterisation of one declaration.
-/
import XsVerif.Model.AttrFixed
import XsVerif.Lemmas.Attributes

namespace XsVerif.Attributes
open XsVerif.Wildcard

theorem declErrsX_eq (s : Sem) (inj : Bool) (d : Decl) (n : QN) (v : String) :
    declErrsX s (fun _ => false) inj d n v = declErrs s d n v := by
  unfold declErrsX declErrs
  cases d.fixed <;> simp

theorem anyErrsX_eq (s : Sem) (env : Env) (a : AnyAttr) (n : QN) (v : String) :
    anyErrsX s (fun _ => false) env a n v = anyErrs s env a n v := by
  unfold anyErrsX anyErrs
  cases lookup env.globals n <;> simp [declErrsX_eq]

theorem declaredErrsX_eq (s : Sem) (env : Env) (o : Opts) (ho : o.legacy = false) (inj : Bool) (G : Group)
    (d : Decl) (n : QN) (v : String) :
    declaredErrsX s (fun _ => false) env inj G d n v = declaredErrs s env o G d n v := by
  unfold declaredErrsX declaredErrs
  cases G.any <;> simp [declErrsX_eq, anyErrsX_eq, ho]

theorem stepErrsX_eq (s : Sem) (env : Env) (o : Opts) (ho : o.legacy = false) (inj : Bool) (G : Group)
    (a : Attr) : stepErrsX s (fun _ => false) env inj G a = stepErrs s env o G a := by
  unfold stepErrsX stepErrs
  cases lookup G.decls a.1 <;> cases lookup env.globals a.1 <;> cases G.any <;>
    simp [declErrsX_eq, anyErrsX_eq, declaredErrsX_eq s env o ho]

/-- with no context-dependent type the variant chain IS the chain of Model/Attributes.lean -/
theorem errorsX_eq_errors (s : Sem) (env : Env) (o : Opts) (ho : o.legacy = false) (G : Group)
    (A : List Attr) : errorsX s (fun _ => false) env o G A = errors s env o G A := by
  unfold errorsX errors augmented
  rw [List.flatMap_append, List.append_assoc]
  congr 1
  congr 1
  · exact flatMap_congr' fun a _ => stepErrsX_eq s env o ho false G a
  · exact flatMap_congr' fun a _ => stepErrsX_eq s env o ho true G a

/-- one declaration, a value of the instance: no error iff valid for the type and passing the fixed test.
    The test must be reflexive only for the types that keep the text short-cut. -/
theorem declErrsX_nil_iff (s : Sem) (q : Nat → Bool) (hrefl : ∀ t x, q t = false → s.valueEq t x x = true)
    (d : Decl) (n : QN) (v : String) :
    declErrsX s q false d n v = [] ↔
      (s.validT d.ty v = true ∧ ∀ f, d.fixed = some f → s.valueEq d.ty v f = true) := by
  unfold declErrsX
  simp only [Bool.false_and, Bool.false_eq_true, if_false]
  cases hf : d.fixed with
  | none => cases hv : s.validT d.ty v <;> simp
  | some f =>
    cases hq : q d.ty with
    | true => cases hv : s.validT d.ty v <;> cases he : s.valueEq d.ty v f <;> simp
    | false =>
      by_cases hvf : v = f
      · subst hvf; cases hv : s.validT d.ty v <;> simp [hrefl _ _ hq]
      · cases hv : s.validT d.ty v <;> cases he : s.valueEq d.ty v f <;> simp [hvf]

end XsVerif.Attributes
