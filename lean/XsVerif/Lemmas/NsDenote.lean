/-
  C17 — decoded data denotes the document: the keys of the data tree built by the decoder (`decodeT`), read with
  nothing but the declarations the data itself reports, are the expanded names of the XML nodes (stacked mode).
  Helper lemmas and the mutual induction; the statements are used by Props/C17.lean.
-/
import XsVerif.Model.NsMapper
import XsVerif.Lemmas.NsMapper
import XsVerif.Lemmas.NsStack
import XsVerif.Lemmas.NsSpec
import XsVerif.Lemmas.NsInv
set_option linter.unusedSimpArgs false
namespace XsVerif.Props.C17
open XsVerif.NsMapper XsVerif.NsMapper.Map XsVerif.NsMapper.Stack

/-! ### mapper-level round trips -/

/-- mapper-level round trips (ReverseOk m.ns m.rev := ∀ u p, m.rev.get u = some p → m.ns.get p = some u) -/
theorem roundtrip_elem' (m : Mapper) (q : QN) (hr : ReverseOk m.ns m.rev)
    (hd : q.ns = "" → DefaultUnset m.ns) : resolveElem m.ns (mapQName m q) = some q := by
  obtain ⟨u, l⟩ := q
  unfold mapQName
  by_cases h0 : u = ""
  · subst h0
    simp only [if_true, resolveElem]
    rcases hd rfl with h | h <;> simp [h]
  · simp only [h0, if_false]
    split
    · rfl
    · cases hg : m.rev.get u with
      | none => rfl
      | some p =>
        have hb := hr u p hg
        by_cases hp : p = ""
        · subst hp; simp [resolveElem, hb]
        · simp [hp, resolveElem, hb, h0]

/-- attribute keys under the rule of the tree under check: needs that the namespace is not the default one -/
theorem roundtrip_attr_current (m : Mapper) (q : QN) (hr : ReverseOk m.ns m.rev)
    (hg : q.ns ≠ "" → m.ns.get "" ≠ some q.ns) : resolveAttr m.ns (mapAttr .current m q) = some q := by
  obtain ⟨u, l⟩ := q
  show resolveAttr m.ns (mapQName m ⟨u, l⟩) = some ⟨u, l⟩
  unfold mapQName
  by_cases h0 : u = ""
  · subst h0; simp [resolveAttr]
  · simp only [h0, if_false]
    split
    · rfl
    · cases hg' : m.rev.get u with
      | none => rfl
      | some p =>
        have hb := hr u p hg'
        have hp : p ≠ "" := by
          intro e; subst e; exact hg h0 hb
        simp [hp, resolveAttr, resolveElem, hb, h0]

/-- attribute keys under the repaired rule: unconditional -/
theorem roundtrip_attr_repaired' (m : Mapper) (q : QN) (hr : ReverseOk m.ns m.rev) (hn : Map.Nodup m.ns) :
    resolveAttr m.ns (mapAttr .repaired m q) = some q := by
  obtain ⟨u, l⟩ := q
  by_cases h0 : u = ""
  · subst h0; simp [mapAttr, mapQName, resolveAttr]
  · unfold mapAttr
    simp only
    unfold mapQName
    simp only [h0, if_false]
    by_cases he : m.ns.isEmpty = true
    · simp [he, resolveAttr, resolveElem]
    · simp only [he, if_false]
      cases hg : m.rev.get u with
      | none => simp [resolveAttr, resolveElem]
      | some p =>
        have hb := hr u p hg
        by_cases hp : p = ""
        · subst hp
          simp only [if_true]
          cases hl : m.ns.lastKey (fun k u' => k ≠ "" && u' = u) with
          | none => simp [resolveAttr, resolveElem]
          | some p' =>
            obtain ⟨w, hw, hpw⟩ := lastKey_mem hl
            simp only [Bool.and_eq_true, decide_eq_true_eq, ne_eq] at hpw
            have hgw := get_of_mem hn hw
            simp [resolveAttr, resolveElem, hgw, hpw.2, h0]
        · simp [hp, resolveAttr, resolveElem, hb, h0]

/-! ### scopes and maps -/

theorem nd_get_none_of_notin {m : Map} {k : String} (h : k ∉ m.map (·.1)) : m.get k = none := by
  induction m with
  | nil => rfl
  | cons hd t ih =>
    obtain ⟨a, b⟩ := hd
    simp only [List.map_cons, List.mem_cons, not_or] at h
    have hne : ¬ (a = k) := fun e => h.1 e.symm
    simp only [Map.get, hne, if_false]
    exact ih h.2

theorem nd_bind_cons (s : Scope) (d : String × String) (t : Xmlns) :
    Scope.bind s (d :: t) = Scope.bind (fun k => if d.1 = k then some d.2 else s k) t := rfl

theorem nd_bind_nodup : ∀ (l : Map) (s : Scope), Map.Nodup l → ∀ k,
    Scope.bind s l k = match l.get k with | some v => some v | none => s k := by
  intro l
  induction l with
  | nil => intro s _ k; rfl
  | cons d t ih =>
    intro s hn k
    obtain ⟨a, b⟩ := d
    simp only [Map.Nodup, List.map_cons, List.nodup_cons] at hn
    rw [nd_bind_cons, ih _ hn.2 k]
    simp only [Map.get]
    by_cases hk : a = k
    · subst hk
      rw [nd_get_none_of_notin hn.1]
      simp
    · simp only [hk, if_false]

/-- a reader that starts from nothing and is handed a whole dict as declarations ends up with that dict -/
theorem bind_empty_map (m : Map) (hn : Map.Nodup m) : Scope.bind Scope.empty m = m.get := by
  funext k
  rw [nd_bind_nodup m _ hn k]
  cases m.get k <;> rfl

theorem get_update_bind' (m : Map) (l : Xmlns) : (Map.update m l).get = Scope.bind m.get l := by
  induction l generalizing m with
  | nil => rfl
  | cons d t ih =>
    have e : Map.update m (d :: t) = Map.update (m.set d.1 d.2) t := rfl
    rw [e, ih, nd_bind_cons]
    congr 1
    funext k
    exact get_set m d.1 d.2 k

theorem readElem_get (ns : Map) (n : PName) : readElem ns.get n = resolveElem ns n := by
  cases n <;> rfl

theorem readAttr_get (ns : Map) (n : PName) : readAttr ns.get n = resolveAttr ns n := by
  cases n <;> rfl

theorem nd_get_update_some {m : Map} {l : Xmlns} {x u : String} (h : (Map.update m l).get x = some u) :
    (x, u) ∈ l ∨ m.get x = some u := by
  induction l generalizing m with
  | nil => exact Or.inr h
  | cons d t ih =>
    obtain ⟨a, b⟩ := d
    have e : Map.update m ((a, b) :: t) = Map.update (m.set a b) t := rfl
    rw [e] at h
    rcases ih h with h1 | h1
    · exact Or.inl (List.mem_cons_of_mem _ h1)
    · rw [get_set] at h1
      split at h1
      · rename_i hk
        simp only [Option.some.injEq] at h1
        subst hk; subst h1
        exact Or.inl List.mem_cons_self
      · exact Or.inr h1

theorem nd_get_update_none {m : Map} {l : Xmlns} {x : String} (h : (Map.update m l).get x = none) :
    m.get x = none := by
  induction l generalizing m with
  | nil => exact h
  | cons d t ih =>
    obtain ⟨a, b⟩ := d
    have e : Map.update m ((a, b) :: t) = Map.update (m.set a b) t := rfl
    rw [e] at h
    have h1 := ih h
    rw [get_set] at h1
    split at h1
    · cases h1
    · exact h1

theorem nd_not_mem_of_any_false {l : Xmlns} {u x : String} (h : l.any (fun d => d.2 = u) = false) :
    (x, u) ∉ l := by
  intro hm
  have := List.any_eq_false.mp h (x, u) hm
  simp at this

/-- a key that resolves in the scope of an element whose own declarations do not bind the name's namespace
    resolves to the same name in the parent's scope -/
theorem nd_resolve_parent {ns0 : Map} {decl : Xmlns} {key : PName} {q : QN}
    (h : resolveElem (Map.update ns0 decl) key = some q) (ha : decl.any (fun d => d.2 = q.ns) = false) :
    resolveElem ns0 key = some q := by
  cases key with
  | braced u l => exact h
  | pre p l =>
    simp only [resolveElem] at h ⊢
    cases hg : (Map.update ns0 decl).get p with
    | none => rw [hg] at h; cases h
    | some u =>
      rw [hg] at h
      simp only at h
      by_cases hu : u = ""
      · simp [hu] at h
      · simp only [hu, if_false, Option.some.injEq] at h
        subst h
        rcases nd_get_update_some hg with h1 | h1
        · exact absurd h1 (nd_not_mem_of_any_false ha)
        · simp [h1, hu]
  | loc l =>
    simp only [resolveElem] at h ⊢
    cases hg : (Map.update ns0 decl).get "" with
    | none =>
      rw [hg] at h
      simp only at h
      rw [nd_get_update_none hg]
      exact h
    | some u =>
      rw [hg] at h
      simp only [Option.some.injEq] at h
      subst h
      rcases nd_get_update_some hg with h1 | h1
      · exact absurd h1 (nd_not_mem_of_any_false ha)
      · simp [h1]

/-- the pruned root: no binding at all has the namespace of the name -/
theorem nd_resolve_root {M : Map} {key : PName} {q : QN}
    (h : resolveElem M key = some q) (ha : M.any (fun d => d.2 = q.ns) = false) :
    readElem Scope.empty key = some q := by
  cases key with
  | braced u l => exact h
  | pre p l =>
    simp only [resolveElem] at h
    cases hg : M.get p with
    | none => rw [hg] at h; cases h
    | some u =>
      rw [hg] at h
      simp only at h
      by_cases hu : u = ""
      · simp [hu] at h
      · simp only [hu, if_false, Option.some.injEq] at h
        subst h
        exact absurd (mem_of_get hg) (nd_not_mem_of_any_false ha)
  | loc l =>
    simp only [resolveElem] at h
    cases hg : M.get "" with
    | none =>
      rw [hg] at h
      simp only at h
      simpa [readElem, Scope.empty] using h
    | some u =>
      rw [hg] at h
      simp only [Option.some.injEq] at h
      subst h
      exact absurd (mem_of_get hg) (nd_not_mem_of_any_false ha)

/-! ### the scope a reader arrives with, and what an item reports -/

/-- scope with which the reader arrives at an item of level `L` whose parent has the declarations `ns0` in scope -/
def scopeAt (L : Nat) (ns0 : Map) : Scope := if L = 0 then Scope.empty else ns0.get

/-- the declarations the item of an element at level `L` reports (`get_effective_xmlns`) -/
def xmOf (L : Nat) (ns0 : Map) (decl : Xmlns) : Xmlns := if L = 0 then Map.update ns0 decl else decl

theorem nd_bind_xm {L : Nat} {ns0 : Map} (decl : Xmlns) (hn : Map.Nodup ns0) :
    (scopeAt L ns0).bind (xmOf L ns0 decl) = (Map.update ns0 decl).get := by
  unfold scopeAt xmOf
  by_cases hL : L = 0
  · simp only [hL, if_true]
    exact bind_empty_map _ (nodup_update hn decl)
  · simp only [hL, if_false]
    exact (get_update_bind' ns0 decl).symm

theorem nd_read_pruned {L : Nat} {ns0 : Map} {decl : Xmlns} {key : PName} {q : QN}
    (h : resolveElem (Map.update ns0 decl) key = some q)
    (ha : (xmOf L ns0 decl).any (fun d => d.2 = q.ns) = false) : readElem (scopeAt L ns0) key = some q := by
  unfold scopeAt
  unfold xmOf at ha
  by_cases hL : L = 0
  · simp only [hL, if_true] at ha ⊢
    exact nd_resolve_root h ha
  · simp only [hL, if_false] at ha ⊢
    rw [readElem_get]
    exact nd_resolve_parent h ha

theorem nd_reported_eq {L : Nat} {r3 : SetResult} {E : Mapper} {ns0 : Map} {decl : Xmlns} (hm : r3.m = E)
    (hE : E.ns = Map.update ns0 decl) (hret : r3.ret = if decl.isEmpty then none else some decl) :
    reported L r3 = xmOf L ns0 decl := by
  unfold reported xmOf
  by_cases hL : L = 0
  · simp only [hL, if_true, hm, hE]
  · simp only [hL, if_false, hret]
    cases decl <;> rfl

theorem nd_ready_good {L : Nat} {base : List Ctx} {ns0 rev0 : Map} {seen : List Nat} {m : Mapper}
    (hr : Ready L base ns0 rev0 seen m) (hi : Inv m) : Good ns0 rev0 := by
  rcases hr with ⟨_, h2, h3⟩ | ⟨c, h1, _, h3, h4, _⟩
  · rw [← h2, ← h3]; exact hi.1
  · rw [← h3, ← h4]; exact hi.2 c (by rw [h1]; exact List.mem_cons_self)

/-! ### one step of the decoder -/

/-- the item of one element (`keep_result_dict`) -/
def nodeItem (prune : Bool) (id : Nat) (tag : QN) (key : PName) (xm : Xmlns) (as : List PName)
    (items : List Item) : Item :=
  if keptItem prune tag xm as items then .node id key true xm as items else .node id key false [] [] []

theorem decodeT_eq (v : Variant) (a : AttrRule) (prune : Bool) (mode : Mode) (L id : Nat) (tag : QN)
    (attrs : List QN) (decl : Xmlns) (ch : List Tree) (m : Mapper) :
    decodeT v a prune mode L (.node id tag attrs decl ch) m =
      ((setContext v mode (decodeTList v a prune mode (L + 1) ch (setContext v mode m id L decl).m).1 id L decl).m,
       nodeItem prune id tag (mapQName (setContext v mode m id L decl).m tag)
         (reported L (setContext v mode (decodeTList v a prune mode (L + 1) ch
           (setContext v mode m id L decl).m).1 id L decl))
         (attrs.map (mapAttr a (setContext v mode (decodeTList v a prune mode (L + 1) ch
           (setContext v mode m id L decl).m).1 id L decl).m))
         (decodeTList v a prune mode (L + 1) ch (setContext v mode m id L decl).m).2) := by
  simp only [decodeT, nodeItem]
  split <;> rfl

theorem decodeTList_cons_eq (v : Variant) (a : AttrRule) (prune : Bool) (mode : Mode) (L : Nat) (t : Tree)
    (ts : List Tree) (m : Mapper) :
    decodeTList v a prune mode L (t :: ts) m =
      ((decodeTList v a prune mode L ts (decodeT v a prune mode L t m).1).1,
       (decodeT v a prune mode L t m).2 :: (decodeTList v a prune mode L ts (decodeT v a prune mode L t m).1).2) := by
  simp only [decodeTList]

theorem decodeTList_nil_of (v : Variant) (a : AttrRule) (prune : Bool) (mode : Mode) (L : Nat) (ts : List Tree)
    (m : Mapper) (h : (decodeTList v a prune mode L ts m).2 = []) : ts = [] := by
  cases ts with
  | nil => rfl
  | cons t ts => rw [decodeTList_cons_eq] at h; cases h

/-- the item built for an element whose mapper state `E` has the element's declarations in scope denotes the
    element, given that the items of the children denote the children -/
theorem nd_node_step (a : AttrRule) (prune : Bool) (tab : Nat → String → Bool) (id : Nat) (tag : QN)
    (attrs : List QN) (decl : Xmlns) (ch : List Tree) (L : Nat) (ns0 : Map) (E : Mapper) (items : List Item)
    (hn0 : Map.Nodup ns0) (hEns : E.ns = Map.update ns0 decl) (hEok : ReverseOk E.ns E.rev)
    (hw1 : tag.ns = "" → DefaultUnset (Map.update ns0 decl))
    (hw2 : a = .current → ∀ x ∈ attrs, x.ns ≠ "" → (Map.update ns0 decl).get "" ≠ some x.ns)
    (hlen : items = [] → ch = [])
    (hread : readItems (Map.update ns0 decl).get items = docNamesList ch)
    (hrd : UnqualDeclaredList tab (Map.update ns0 decl) ch → ReadableList tab (Map.update ns0 decl).get items) :
    readItem (scopeAt L ns0)
        (nodeItem prune id tag (mapQName E tag) (xmOf L ns0 decl) (attrs.map (mapAttr a E)) items) =
      docNames (.node id tag attrs decl ch) ∧
    (UnqualDeclared tab ns0 (.node id tag attrs decl ch) →
      Readable tab (scopeAt L ns0)
        (nodeItem prune id tag (mapQName E tag) (xmOf L ns0 decl) (attrs.map (mapAttr a E)) items)) := by
  have hbind : (scopeAt L ns0).bind (xmOf L ns0 decl) = (Map.update ns0 decl).get := nd_bind_xm decl hn0
  have hkey : resolveElem (Map.update ns0 decl) (mapQName E tag) = some tag := by
    rw [← hEns]; exact roundtrip_elem' E tag hEok (by rw [hEns]; exact hw1)
  have hattr : ∀ x ∈ attrs, resolveAttr (Map.update ns0 decl) (mapAttr a E x) = some x := by
    intro x hx
    rw [← hEns]
    cases a with
    | current => exact roundtrip_attr_current E x hEok (by rw [hEns]; exact hw2 rfl x hx)
    | repaired => exact roundtrip_attr_repaired' E x hEok (by rw [hEns]; exact nodup_update hn0 _)
  unfold nodeItem
  by_cases hkp : keptItem prune tag (xmOf L ns0 decl) (attrs.map (mapAttr a E)) items = true
  · simp only [hkp, if_true]
    refine ⟨?_, ?_⟩
    · simp only [readItem, docNames, hbind, readElem_get, hkey, hread, List.map_map]
      have : attrs.map (readAttr (Map.update ns0 decl).get ∘ mapAttr a E) = attrs.map some := by
        apply List.map_congr_left
        intro x hx
        simp only [Function.comp, readAttr_get, hattr x hx]
      rw [this]
    · intro ht
      simp only [UnqualDeclared] at ht
      simp only [Readable, hbind]
      refine ⟨by simp, ?_, ?_, hrd ht.2⟩
      · rw [readElem_get, hkey]; simp
      · intro k hk
        obtain ⟨x, hx, rfl⟩ := List.mem_map.mp hk
        have hx' := hattr x hx
        refine ⟨by rw [readAttr_get, hx']; simp, ?_⟩
        intro l hl
        rw [hl] at hx'
        simp only [resolveAttr, Option.some.injEq] at hx'
        subst hx'
        rcases ht.1 _ hx rfl with h | h
        · exact Or.inl h
        · exact Or.inr h
  · have hkp' : keptItem prune tag (xmOf L ns0 decl) (attrs.map (mapAttr a E)) items = false := by
      simpa using hkp
    simp only [hkp', Bool.false_eq_true, if_false]
    unfold keptItem at hkp'
    simp only [Bool.or_eq_false_iff, Bool.not_eq_false', List.isEmpty_iff, List.map_eq_nil_iff] at hkp'
    obtain ⟨⟨⟨_, hattrs⟩, hitems⟩, hany⟩ := hkp'
    have hch := hlen hitems
    subst hattrs; subst hch
    have hk' : readElem (scopeAt L ns0) (mapQName E tag) = some tag := nd_read_pruned hkey hany
    have hb0 : (scopeAt L ns0).bind [] = scopeAt L ns0 := rfl
    refine ⟨?_, ?_⟩
    · simp only [readItem, readItems, docNames, docNamesList, hb0, hk', List.map_nil]
    · intro _
      simp only [Readable, ReadableList, hb0, hk']
      simp

/-! ### the mutual induction -/

mutual
theorem decodeT_main (a : AttrRule) (prune : Bool) (tab : Nat → String → Bool) :
    ∀ (t : Tree), SibDistinct t → DeclsNodup t → ∀ (L : Nat) (m : Mapper) (base : List Ctx) (ns0 rev0 : Map)
      (seen : List Nat), Below L base → Ready L base ns0 rev0 seen m → Inv m → WellScoped a ns0 t →
      Tree.id t ∉ seen →
      Ready L base ns0 rev0 (Tree.id t :: seen) (decodeT .repaired a prune .stacked L t m).1 ∧
      Inv (decodeT .repaired a prune .stacked L t m).1 ∧
      readItem (scopeAt L ns0) (decodeT .repaired a prune .stacked L t m).2 = docNames t ∧
      (UnqualDeclared tab ns0 t → Readable tab (scopeAt L ns0) (decodeT .repaired a prune .stacked L t m).2)
  | .node id tag attrs decl ch, hd, hk, L, m, base, ns0, rev0, seen, hb, hr, hi, hw, hid => by
    simp only [SibDistinct] at hd
    simp only [DeclsNodup] at hk
    simp only [WellScoped] at hw
    simp only [Tree.id] at hid ⊢
    have hg0 : Good ns0 rev0 := nd_ready_good hr hi
    have h1 := enter_spec .repaired id decl hb hr hid
    have i1 : Inv (entered .repaired ns0 rev0 base id L decl) := by
      rw [← h1]; exact setContext_stacked_inv_aux .repaired m id L decl hi hk.1 (Or.inl rfl)
    have hb1 := entered_stack_below .repaired hb ns0 rev0 id decl
    have hEns := entered_ns .repaired ns0 rev0 base id L decl
    obtain ⟨hr2, i2, hrd2, hrb2⟩ := decodeTList_main a prune tab ch hd.2 hd.1 hk.2 (L + 1)
      (entered .repaired ns0 rev0 base id L decl)
      (entered .repaired ns0 rev0 base id L decl).stack (entered .repaired ns0 rev0 base id L decl).ns
      (entered .repaired ns0 rev0 base id L decl).rev [] hb1 (Or.inl ⟨rfl, rfl, rfl⟩) i1
      (by rw [hEns]; exact hw.2.2) (by simp)
    have h3 := exit_spec .repaired ns0 rev0 id decl hb hr2
    have hsc : scopeAt (L + 1) (entered .repaired ns0 rev0 base id L decl).ns = (Map.update ns0 decl).get := by
      simp only [scopeAt, Nat.succ_ne_zero, if_false, hEns]
    rw [hsc] at hrd2 hrb2
    rw [hEns] at hrb2
    have hstep := nd_node_step a prune tab id tag attrs decl ch L ns0 (entered .repaired ns0 rev0 base id L decl)
      (decodeTList .repaired a prune .stacked (L + 1) ch (entered .repaired ns0 rev0 base id L decl)).2
      hg0.2 hEns i1.1.1 hw.1 hw.2.1 (decodeTList_nil_of _ _ _ _ _ _ _) hrd2 hrb2
    simp only [decodeT_eq, h1, nd_reported_eq h3.1 hEns h3.2, h3.1]
    exact ⟨entered_ready .repaired ns0 rev0 base id L decl seen, i1, hstep.1, hstep.2⟩

theorem decodeTList_main (a : AttrRule) (prune : Bool) (tab : Nat → String → Bool) :
    ∀ (ts : List Tree), SibDistinctList ts → (ts.map Tree.id).Nodup → DeclsNodupList ts →
      ∀ (L : Nat) (m : Mapper) (base : List Ctx) (ns0 rev0 : Map) (seen : List Nat), Below L base →
      Ready L base ns0 rev0 seen m → Inv m → WellScopedList a ns0 ts → (∀ t ∈ ts, Tree.id t ∉ seen) →
      Ready L base ns0 rev0 ((ts.map Tree.id).reverse ++ seen) (decodeTList .repaired a prune .stacked L ts m).1 ∧
      Inv (decodeTList .repaired a prune .stacked L ts m).1 ∧
      readItems (scopeAt L ns0) (decodeTList .repaired a prune .stacked L ts m).2 = docNamesList ts ∧
      (UnqualDeclaredList tab ns0 ts →
        ReadableList tab (scopeAt L ns0) (decodeTList .repaired a prune .stacked L ts m).2)
  | [], _, _, _, L, m, base, ns0, rev0, seen, _, hr, hi, _, _ => by
    simp only [decodeTList, readItems, docNamesList, ReadableList, List.map_nil, List.reverse_nil,
      List.nil_append]
    exact ⟨hr, hi, trivial, fun _ => trivial⟩
  | t :: ts, hd, hn, hk, L, m, base, ns0, rev0, seen, hb, hr, hi, hw, hs => by
    simp only [SibDistinctList] at hd
    simp only [DeclsNodupList] at hk
    simp only [WellScopedList] at hw
    simp only [List.map_cons, List.nodup_cons] at hn
    obtain ⟨hr1, i1, hd1, hb1⟩ := decodeT_main a prune tab t hd.1 hk.1 L m base ns0 rev0 seen hb hr hi hw.1
      (hs t List.mem_cons_self)
    have hs' : ∀ t' ∈ ts, Tree.id t' ∉ Tree.id t :: seen := by
      intro t' ht' hm
      rcases List.mem_cons.mp hm with e | e
      · exact hn.1 (e ▸ List.mem_map.mpr ⟨t', ht', rfl⟩)
      · exact hs t' (List.mem_cons_of_mem _ ht') e
    obtain ⟨hr2, i2, hd2, hb2⟩ := decodeTList_main a prune tab ts hd.2 hn.2 hk.2 L
      (decodeT .repaired a prune .stacked L t m).1 base ns0 rev0 (Tree.id t :: seen) hb hr1 i1 hw.2 hs'
    simp only [decodeTList_cons_eq, readItems, docNamesList, hd1, hd2, List.map_cons, List.reverse_cons,
      List.append_assoc, List.singleton_append, UnqualDeclaredList, ReadableList]
    exact ⟨hr2, i2, trivial, fun h => ⟨hb1 h.1, hb2 h.2⟩⟩
end

mutual
theorem decodeT_distinct_aux (v : Variant) (a : AttrRule) (prune : Bool) (mode : Mode) :
    ∀ (t : Tree), SibDistinct t → ∀ (L : Nat) (m : Mapper),
      ItemDistinct (decodeT v a prune mode L t m).2 ∧ Item.id (decodeT v a prune mode L t m).2 = Tree.id t
  | .node id tag attrs decl ch, hd, L, m => by
    simp only [SibDistinct] at hd
    obtain ⟨h1, h2⟩ := decodeTList_distinct_aux v a prune mode ch hd.2 (L + 1) (setContext v mode m id L decl).m
    simp only [decodeT_eq, nodeItem]
    split
    · simp only [ItemDistinct, Item.id, Tree.id, h2]
      exact ⟨⟨hd.1, h1⟩, trivial⟩
    · simp [ItemDistinct, ItemDistinctList, Item.id, Tree.id]

theorem decodeTList_distinct_aux (v : Variant) (a : AttrRule) (prune : Bool) (mode : Mode) :
    ∀ (ts : List Tree), SibDistinctList ts → ∀ (L : Nat) (m : Mapper),
      ItemDistinctList (decodeTList v a prune mode L ts m).2 ∧
      (decodeTList v a prune mode L ts m).2.map Item.id = ts.map Tree.id
  | [], _, L, m => by
    simp only [decodeTList, ItemDistinctList, List.map_nil]
    exact ⟨trivial, trivial⟩
  | t :: ts, hd, L, m => by
    simp only [SibDistinctList] at hd
    obtain ⟨h1, h2⟩ := decodeT_distinct_aux v a prune mode t hd.1 L m
    obtain ⟨h3, h4⟩ := decodeTList_distinct_aux v a prune mode ts hd.2 L (decodeT v a prune mode L t m).1
    simp only [decodeTList_cons_eq, ItemDistinctList, List.map_cons, h2, h4]
    exact ⟨⟨h1, h3⟩, trivial⟩
end

/-! ### the statements -/

/-- **Decoded data denotes the document** (stacked mode, the repointing rule of the tree, both attribute rules,
    with and without the pruning of childless items): every key, resolved with the declarations the data reports for
    the item and its ancestors and nothing else, is the expanded name of its XML node. -/
theorem decode_denotes (a : AttrRule) (prune : Bool) (t : Tree) (m0 : Mapper) (hi : Inv m0) (h0 : m0.stack = [])
    (hk : DeclsNodup t) (hd : SibDistinct t) (hw : WellScoped a m0.ns t) :
    readItem Scope.empty (decodeT .repaired a prune .stacked 0 t m0).2 = docNames t :=
  (decodeT_main a prune (fun _ _ => true) t hd hk 0 m0 [] m0.ns m0.rev [] (by intro c hc; cases hc)
    (Or.inl ⟨h0, rfl, rfl⟩) hi hw (by simp)).2.2.1

theorem decode_distinct (a : AttrRule) (prune : Bool) (mode : Mode) (v : Variant) (t : Tree) (L : Nat) (m : Mapper)
    (hd : SibDistinct t) : ItemDistinct (decodeT v a prune mode L t m).2 :=
  (decodeT_distinct_aux v a prune mode t hd L m).1

/-- the decoded data is readable for the encoder: in addition, every attribute in no namespace is declared by
    its element's type or occurs where the default namespace is unset -/
theorem decode_readable (a : AttrRule) (prune : Bool) (tab : Nat → String → Bool) (t : Tree) (m0 : Mapper)
    (hi : Inv m0) (h0 : m0.stack = []) (hk : DeclsNodup t) (hd : SibDistinct t) (hw : WellScoped a m0.ns t)
    (ht : UnqualDeclared tab m0.ns t) :
    Readable tab Scope.empty (decodeT .repaired a prune .stacked 0 t m0).2 :=
  (decodeT_main a prune tab t hd hk 0 m0 [] m0.ns m0.rev [] (by intro c hc; cases hc)
    (Or.inl ⟨h0, rfl, rfl⟩) hi hw (by simp)).2.2.2 ht

end XsVerif.Props.C17
