/-
  Helper lemmas for the datatype model (C02).  Core Lean only.
-/
import XsVerif.Model.Datatypes
import XsVerif.Model.DatatypesDate

namespace XsVerif.Datatypes

/-- positional value of a digit string: Σ dᵢ·10^(n-1-i) -/
def posVal : Str → Nat
  | [] => 0
  | c :: cs => digVal c * 10 ^ cs.length + posVal cs
theorem foldl_horner (s : Str) (a : Nat) :
    s.foldl (fun a c => 10 * a + digVal c) a = a * 10 ^ s.length + posVal s := by
  induction s generalizing a with
  | nil => simp [posVal]
  | cons c cs ih =>
    simp only [List.foldl_cons, ih, posVal, List.length_cons, Nat.pow_succ]
    grind

theorem natOfDigits_eq_posVal (s : Str) : natOfDigits s = posVal s := by
  simp [natOfDigits, foldl_horner]

theorem splitSign_cases (s : Str) :
    (∃ r, s = '-' :: r ∧ splitSign s = (true, r)) ∨ (∃ r, s = '+' :: r ∧ splitSign s = (false, r)) ∨
    ((∀ r, s ≠ '-' :: r) ∧ (∀ r, s ≠ '+' :: r) ∧ splitSign s = (false, s)) := by
  unfold splitSign
  split
  · left; exact ⟨_, rfl, rfl⟩
  · right; left; exact ⟨_, rfl, rfl⟩
  · rename_i h1 h2
    right; right
    exact ⟨fun r h => h1 r h, fun r h => h2 r h, rfl⟩

theorem digits_ok_iff (ds : Str) :
    (!ds.isEmpty && allDigits ds) = true ↔ (ds ≠ [] ∧ ∀ c ∈ ds, isDig c = true) := by
  cases ds <;> simp [allDigits]

theorem parseInt_of_split {s ds : Str} {neg : Bool} (h : splitSign s = (neg, ds)) (v : Int) :
    parseInt s = some v ↔
      (ds ≠ [] ∧ (∀ c ∈ ds, isDig c = true) ∧ v = if neg then -(posVal ds : Int) else (posVal ds : Int)) := by
  unfold parseInt
  rw [h]
  simp only
  by_cases hd : (!ds.isEmpty && allDigits ds) = true
  · have hd' := (digits_ok_iff ds).mp hd
    rw [if_pos hd]
    simp only [Option.some.injEq, natOfDigits_eq_posVal]
    constructor
    · intro hv; exact ⟨hd'.1, hd'.2, hv.symm⟩
    · intro hv; exact hv.2.2.symm
  · rw [if_neg hd]
    have hd' : ¬ (ds ≠ [] ∧ ∀ c ∈ ds, isDig c = true) := fun h => hd ((digits_ok_iff ds).mpr h)
    constructor
    · intro h; cases h
    · intro h; exact absurd ⟨h.1, h.2.1⟩ hd'

theorem not_digit_sign {ds : Str} (hd : ∀ c ∈ ds, isDig c = true) (c : Char) (hc : c = '-' ∨ c = '+') (r : Str) :
    ds ≠ c :: r := by
  intro h; subst h
  have := hd c (by simp)
  rcases hc with rfl | rfl <;> exact absurd this (by decide)

theorem digChar_spec (k : Nat) (hk : k < 10) :
    digVal (Char.ofNat (48 + k)) = k ∧ isDig (Char.ofNat (48 + k)) = true := by
  have : k = 0 ∨ k = 1 ∨ k = 2 ∨ k = 3 ∨ k = 4 ∨ k = 5 ∨ k = 6 ∨ k = 7 ∨ k = 8 ∨ k = 9 := by omega
  rcases this with rfl | rfl | rfl | rfl | rfl | rfl | rfl | rfl | rfl | rfl <;> decide

theorem natDigitsAux_acc (fuel n : Nat) (acc : Str) :
    natDigitsAux fuel n acc = natDigitsAux fuel n [] ++ acc := by
  induction fuel generalizing n acc with
  | zero => simp [natDigitsAux]
  | succ f ih =>
    simp only [natDigitsAux]
    by_cases h : n / 10 = 0
    · simp [h]
    · simp only [h, if_false]
      rw [ih (n / 10) (Char.ofNat (48 + n % 10) :: acc), ih (n / 10) [Char.ofNat (48 + n % 10)]]
      simp

theorem natOfDigits_snoc (xs : Str) (c : Char) : natOfDigits (xs ++ [c]) = 10 * natOfDigits xs + digVal c := by
  simp [natOfDigits, List.foldl_append]

theorem natDigitsAux_spec (fuel n : Nat) (h : n < fuel) :
    natOfDigits (natDigitsAux fuel n []) = n ∧ natDigitsAux fuel n [] ≠ [] ∧
    ∀ c ∈ natDigitsAux fuel n [], isDig c = true := by
  induction fuel generalizing n with
  | zero => omega
  | succ f ih =>
    simp only [natDigitsAux]
    have hd := digChar_spec (n % 10) (Nat.mod_lt _ (by omega))
    by_cases h0 : n / 10 = 0
    · simp only [h0, if_true]
      refine ⟨?_, by simp, ?_⟩
      · simp [natOfDigits, hd.1]; omega
      · intro c hc; simp at hc; subst hc; exact hd.2
    · simp only [h0, if_false]
      rw [natDigitsAux_acc]
      obtain ⟨i1, i2, i3⟩ := ih (n / 10) (by omega)
      refine ⟨?_, by simp [i2], ?_⟩
      · rw [natOfDigits_snoc, i1, hd.1]; omega
      · intro c hc
        rcases List.mem_append.mp hc with hc | hc
        · exact i3 c hc
        · simp at hc; subst hc; exact hd.2

theorem natDigits_spec (n : Nat) :
    natOfDigits (natDigits n) = n ∧ natDigits n ≠ [] ∧ ∀ c ∈ natDigits n, isDig c = true :=
  natDigitsAux_spec (n + 1) n (by omega)

theorem splitWs_squeeze (W : Char → Bool) (hsp : W ' ' = true) (s : Str) (b : Bool) (cur : Str)
    (hb : b = true → cur = []) : splitWs W cur (squeeze W b s) = splitWs W cur s := by
  induction s generalizing b cur with
  | nil => simp [squeeze]
  | cons c cs ih =>
    by_cases hc : W c = true
    · cases b with
      | true =>
        have := hb rfl; subst this
        simp only [squeeze, hc, if_true, splitWs, List.isEmpty_nil]
        exact ih true [] (fun _ => rfl)
      | false =>
        simp only [squeeze, hc, if_true, splitWs, hsp, Bool.false_eq_true, if_false]
        rw [ih true [] (fun _ => rfl)]
    · simp only [squeeze, hc, splitWs, Bool.false_eq_true, if_false]
      exact ih false (c :: cur) (by simp)

theorem splitWs_lstrip (W : Char → Bool) (s : Str) : splitWs W [] (lstrip W s) = splitWs W [] s := by
  induction s with
  | nil => rfl
  | cons c cs ih =>
    by_cases hc : W c = true
    · simp [lstrip, List.dropWhile, hc, splitWs] at *; exact ih
    · simp [lstrip, List.dropWhile, hc]

theorem splitWs_cons_ws {W : Char → Bool} {c : Char} (hc : W c = true) (cur cs : Str) :
    splitWs W cur (c :: cs) = if cur.isEmpty then splitWs W [] cs else cur.reverse :: splitWs W [] cs := by
  simp [splitWs, hc]

theorem splitWs_cons_nws {W : Char → Bool} {c : Char} (hc : ¬ W c = true) (cur cs : Str) :
    splitWs W cur (c :: cs) = splitWs W (c :: cur) cs := by
  simp [splitWs, hc]

theorem splitWs_rstrip (W : Char → Bool) (s : Str) (cur : Str) :
    splitWs W cur (rstrip W s) = splitWs W cur s := by
  induction s generalizing cur with
  | nil => rfl
  | cons c cs ih =>
    simp only [rstrip]
    cases hr : rstrip W cs with
    | nil =>
      by_cases hc : W c = true
      · simp only [hc, if_true]
        rw [splitWs_cons_ws hc, ← ih [], hr]
        cases cur <;> simp [splitWs]
      · simp only [hc, Bool.false_eq_true, if_false]
        rw [splitWs_cons_nws hc, splitWs_cons_nws hc, ← ih (c :: cur), hr]
    | cons d r =>
      simp only
      by_cases hc : W c = true
      · rw [splitWs_cons_ws hc, splitWs_cons_ws hc, ← ih [], hr]
      · rw [splitWs_cons_nws hc, splitWs_cons_nws hc, ← ih (c :: cur), hr]


theorem facetErrs_nil_iff (E : Env) (fs : List Facet) (v : Val) :
    facetErrs E fs v = [] ↔ ∀ f ∈ fs, f.ok E v = true := by
  unfold facetErrs
  simp [List.filter_eq_nil_iff]

theorem patErrs_nil_iff (E : Env) (pat : Option Nat) (t : Str) :
    patErrs E pat t = [] ↔ ∀ id, pat = some id → E.P id t = some true := by
  unfold patErrs
  cases pat with
  | none => simp
  | some id =>
    simp only [Option.some.injEq, forall_eq']
    cases h : E.P id t with
    | none => simp
    | some b => cases b <;> simp


theorem decodeAll_eq (E : Env) (C : Conv) : (ms : STypes) → (s : Str) →
    decodeAll E C ms s = ms.toList.map (fun t => decode E C t s)
  | .nil, s => by simp [decodeAll, STypes.toList]
  | .cons t ts, s => by simp [decodeAll, STypes.toList, decodeAll_eq E C ts s]

theorem firstValid_some {rs : List Res} {r : Res} (h : firstValid rs = some r) :
    r ∈ rs ∧ r.valid = true ∧ ∃ pre post, rs = pre ++ r :: post ∧ ∀ x ∈ pre, x.valid = false := by
  induction rs with
  | nil => simp [firstValid] at h
  | cons a t ih =>
    unfold firstValid at h
    by_cases ha : a.valid = true
    · simp [ha] at h; subst h
      exact ⟨by simp, ha, [], t, rfl, by simp⟩
    · simp [ha] at h
      obtain ⟨h1, h2, pre, post, h3, h4⟩ := ih h
      refine ⟨by simp [h1], h2, a :: pre, post, by simp [h3], ?_⟩
      intro x hx
      rcases List.mem_cons.mp hx with rfl | hx
      · simpa using ha
      · exact h4 x hx

theorem firstValid_none {rs : List Res} : firstValid rs = none ↔ ∀ r ∈ rs, r.valid = false := by
  induction rs with
  | nil => simp [firstValid]
  | cons a t ih =>
    unfold firstValid
    by_cases ha : a.valid = true
    · simp [ha]
    · simp [ha, ih]

theorem firstNonDecode_invalid {rs : List Res} {r : Res} (h : firstNonDecode rs = some r) :
    r ∈ rs ∧ r.valid = false := by
  induction rs with
  | nil => simp [firstNonDecode] at h
  | cons a t ih =>
    unfold firstNonDecode at h
    split at h
    · have := ih h; exact ⟨by simp [this.1], this.2⟩
    · have := ih h; exact ⟨by simp [this.1], this.2⟩
    · simp at h; subst h
      refine ⟨by simp, ?_⟩
      cases he : a.errs with
      | nil => simp_all
      | cons x xs => simp [Res.valid, he]


end XsVerif.Datatypes
