/-
  Lemmas about the association-list maps and the NamespaceMapper model (C17).
-/
import XsVerif.Model.NsMapper

namespace XsVerif.NsMapper
namespace Map

@[simp] theorem get_nil (x : String) : get [] x = none := rfl

theorem get_cons (k v : String) (t : Map) (x : String) :
    get ((k, v) :: t) x = if k = x then some v else get t x := rfl

theorem get_set (m : Map) (k v x : String) :
    (m.set k v).get x = if k = x then some v else m.get x := by
  induction m with
  | nil => simp [set, get]
  | cons h t ih =>
    obtain ⟨k', v'⟩ := h
    by_cases hk : k' = k
    · subst hk; simp only [set, if_true, get]; split <;> simp_all
    · simp only [set, hk, if_false, get, ih]
      by_cases hx : k' = x
      · subst hx; simp [Ne.symm hk]
      · simp [hx]

theorem get_set_self (m : Map) (k v : String) : (m.set k v).get k = some v := by
  simp [get_set]

theorem get_set_ne (m : Map) {k x : String} (v : String) (h : k ≠ x) :
    (m.set k v).get x = m.get x := by
  simp [get_set, h]

theorem get_erase (m : Map) (k x : String) :
    (m.erase k).get x = if k = x then none else m.get x := by
  induction m with
  | nil => simp [erase, get]
  | cons h t ih =>
    obtain ⟨k', v'⟩ := h
    by_cases hk : k' = k
    · subst hk
      simp only [erase, if_true, ih, get]
      split <;> simp_all
    · simp only [erase, hk, if_false, get, ih]
      by_cases hx : k' = x
      · subst hx; simp [Ne.symm hk]
      · simp [hx]

theorem has_iff (m : Map) (x : String) : m.has x = true ↔ ∃ v, m.get x = some v := by
  unfold has; cases m.get x <;> simp

theorem has_eq_false (m : Map) (x : String) : m.has x = false ↔ m.get x = none := by
  unfold has; cases m.get x <;> simp

/-- the key found by `lastKey` satisfies the predicate and is bound (for maps with unique keys it is
    bound to the value the predicate saw; we only need: `get` of it satisfies `p` when keys are unique) -/
theorem lastKey_mem {m : Map} {p : String → String → Bool} {k : String} (h : m.lastKey p = some k) :
    ∃ v, (k, v) ∈ m ∧ p k v = true := by
  induction m with
  | nil => simp [lastKey] at h
  | cons hd t ih =>
    obtain ⟨k', v'⟩ := hd
    simp only [lastKey] at h
    cases ht : lastKey t p with
    | some k2 =>
      rw [ht] at h; simp only [Option.some.injEq] at h; subst h
      obtain ⟨v, hv, hp⟩ := ih ht
      exact ⟨v, List.mem_cons_of_mem _ hv, hp⟩
    | none =>
      rw [ht] at h
      by_cases hp : p k' v' = true
      · simp [hp] at h; subst h; exact ⟨v', List.mem_cons_self, hp⟩
      · simp [hp] at h

/-- keys are pairwise distinct (a Python dict) -/
def Nodup (m : Map) : Prop := (m.map (·.1)).Nodup

theorem get_of_mem {m : Map} (hn : Nodup m) {k v : String} (h : (k, v) ∈ m) : m.get k = some v := by
  induction m with
  | nil => cases h
  | cons hd t ih =>
    obtain ⟨k', v'⟩ := hd
    simp only [Nodup, List.map_cons, List.nodup_cons] at hn
    rcases List.mem_cons.mp h with h1 | h1
    · cases h1; simp [get]
    · have hne : k' ≠ k := by
        intro e; subst e
        exact hn.1 (List.mem_map.mpr ⟨(k', v), h1, rfl⟩)
      simp only [get, hne, if_false]
      exact ih hn.2 h1

theorem mem_of_get {m : Map} {k v : String} (h : m.get k = some v) : (k, v) ∈ m := by
  induction m with
  | nil => simp [get] at h
  | cons hd t ih =>
    obtain ⟨k', v'⟩ := hd
    simp only [get] at h
    by_cases hk : k' = k
    · simp [hk] at h; subst hk; subst h; exact List.mem_cons_self
    · simp [hk] at h; exact List.mem_cons_of_mem _ (ih h)

theorem keys_set (m : Map) (k v : String) :
    (m.set k v).map (·.1) = if m.has k then m.map (·.1) else m.map (·.1) ++ [k] := by
  induction m with
  | nil => simp [set, has, get]
  | cons hd t ih =>
    obtain ⟨k', v'⟩ := hd
    by_cases hk : k' = k
    · subst hk; simp [set, has, get]
    · simp only [set, hk, if_false, List.map_cons, ih, has, get]
      split <;> simp_all [has]

theorem nodup_set {m : Map} (hn : Nodup m) (k v : String) : Nodup (m.set k v) := by
  unfold Nodup at *
  rw [keys_set]
  split
  · exact hn
  · rename_i h
    have : m.get k = none := by
      have := (has_eq_false m k).mp (by simpa using h); exact this
    rw [List.nodup_append]
    refine ⟨hn, by simp, ?_⟩
    intro a ha b hb
    simp only [List.mem_singleton] at hb
    subst hb
    intro e; subst e
    obtain ⟨⟨k2, v2⟩, hm, hk⟩ := List.mem_map.mp ha
    simp only at hk; subst hk
    rw [get_of_mem hn hm] at this
    cases this

theorem nodup_update {m : Map} (hn : Nodup m) (l : List (String × String)) : Nodup (m.update l) := by
  unfold update
  induction l generalizing m with
  | nil => exact hn
  | cons d t ih => exact ih (nodup_set hn _ _)

end Map
end XsVerif.NsMapper

namespace XsVerif.NsMapper
open Map

/-- every recorded prefix of a URI is bound to that URI -/
def ReverseOk (ns rev : Map) : Prop := ∀ u p, rev.get u = some p → ns.get p = some u

/-- prefixes declared on one element are distinct (XML well-formedness) -/
def NodupKeys (l : Xmlns) : Prop := (l.map (·.1)).Nodup

instance (l : Xmlns) : Decidable (NodupKeys l) := by unfold NodupKeys; infer_instance
instance (m : Map) : Decidable (Map.Nodup m) := by unfold Map.Nodup; infer_instance

/-- executable check of `ReverseOk` (for concrete witnesses) -/
theorem reverseOk_of_all {ns rev : Map} (h : rev.all (fun e => ns.get e.2 = some e.1) = true) :
    ReverseOk ns rev := by
  intro u p hg
  have := List.all_eq_true.mp h (u, p) (mem_of_get hg)
  simpa using this

theorem nodupKeys_inj {l : Xmlns} (hl : NodupKeys l) {a b : String × String} (ha : a ∈ l) (hb : b ∈ l)
    (e : a.1 = b.1) : a = b := by
  induction l with
  | nil => cases ha
  | cons d t ih =>
    simp only [NodupKeys, List.map_cons, List.nodup_cons] at hl
    rcases List.mem_cons.mp ha with h1 | h1 <;> rcases List.mem_cons.mp hb with h2 | h2
    · rw [h1, h2]
    · subst h1; exact absurd (List.mem_map.mpr ⟨b, h2, e.symm⟩) hl.1
    · subst h2; exact absurd (List.mem_map.mpr ⟨a, h1, e⟩) hl.1
    · exact ih hl.2 h1 h2

theorem get_update_keep {m : Map} {l : Xmlns} {x v : String}
    (hl : ∀ d ∈ l, d.1 = x → d.2 = v) (hm : m.get x = some v) : (m.update l).get x = some v := by
  unfold update
  induction l generalizing m with
  | nil => exact hm
  | cons d t ih =>
    simp only [List.foldl_cons]
    apply ih (fun d' hd' => hl d' (List.mem_cons_of_mem _ hd'))
    rw [get_set]
    split
    · rename_i h; rw [hl d List.mem_cons_self h]
    · exact hm

theorem get_update_notin {m : Map} {l : Xmlns} {x : String}
    (hl : ∀ d ∈ l, d.1 ≠ x) : (m.update l).get x = m.get x := by
  unfold update
  induction l generalizing m with
  | nil => rfl
  | cons d t ih =>
    simp only [List.foldl_cons]
    rw [ih (fun d' hd' => hl d' (List.mem_cons_of_mem _ hd')), get_set_ne _ _ (hl d List.mem_cons_self)]

theorem get_update_mem {m : Map} {l : Xmlns} (hn : NodupKeys l) {k v : String} (h : (k, v) ∈ l) :
    (m.update l).get k = some v := by
  induction l generalizing m with
  | nil => cases h
  | cons d t ih =>
    simp only [NodupKeys, List.map_cons, List.nodup_cons] at hn
    rcases List.mem_cons.mp h with h1 | h1
    · subst h1
      have : (Map.update (m.set k v) t).get k = (m.set k v).get k := by
        apply get_update_notin
        intro d' hd' e
        exact hn.1 (List.mem_map.mpr ⟨d', hd', e⟩)
      simp only [update, List.foldl_cons] at this ⊢
      rw [this, get_set_self]
    · simp only [update, List.foldl_cons]
      exact ih hn.2 h1

theorem get_revfold {l : Xmlns} {r : Map} {u p : String}
    (h : (l.foldl (fun r d => r.set d.2 d.1) r).get u = some p) : (p, u) ∈ l ∨ r.get u = some p := by
  induction l generalizing r with
  | nil => exact Or.inr h
  | cons d t ih =>
    simp only [List.foldl_cons] at h
    rcases ih h with h1 | h1
    · exact Or.inl (List.mem_cons_of_mem _ h1)
    · rw [get_set] at h1
      split at h1
      · rename_i e; simp only [Option.some.injEq] at h1
        left; rw [← e, ← h1]; exact List.mem_cons_self
      · exact Or.inr h1

theorem get_revfold0 {l : Xmlns} {r : Map} {u p : String}
    (h : (l.foldl (fun r d => if r.has d.2 then r else r.set d.2 d.1) r).get u = some p) :
    (p, u) ∈ l ∨ r.get u = some p := by
  induction l generalizing r with
  | nil => exact Or.inr h
  | cons d t ih =>
    simp only [List.foldl_cons] at h
    rcases ih h with h1 | h1
    · exact Or.inl (List.mem_cons_of_mem _ h1)
    · split at h1
      · exact Or.inr h1
      · rw [get_set] at h1
        split at h1
        · rename_i e; simp only [Option.some.injEq] at h1
          left; rw [← e, ← h1]; exact List.mem_cons_self
        · exact Or.inr h1

theorem get_revUpdate {level : Nat} {l : Xmlns} {r : Map} {u p : String}
    (h : (revUpdate level r l).get u = some p) : (p, u) ∈ l ∨ r.get u = some p := by
  unfold revUpdate at h
  split at h
  · exact get_revfold h
  · rcases get_revfold0 h with h1 | h1
    · exact Or.inl (List.mem_reverse.mp h1)
    · exact Or.inr h1

theorem mem_rebound {ns : Map} {l : Xmlns} {p : String} :
    p ∈ rebound ns l ↔ ∃ d ∈ l, d.1 = p ∧ ∃ old, ns.get p = some old ∧ old ≠ d.2 := by
  unfold rebound
  simp only [List.mem_map, List.mem_filter]
  constructor
  · rintro ⟨d, ⟨hd, hc⟩, rfl⟩
    refine ⟨d, hd, rfl, ?_⟩
    cases hg : ns.get d.1 with
    | none => simp [hg] at hc
    | some old => simp [hg] at hc; exact ⟨old, rfl, hc⟩
  · rintro ⟨d, hd, rfl, old, hg, hne⟩
    exact ⟨d, ⟨hd, by simp [hg, hne]⟩, rfl⟩

/-- the replacement prefix chosen by the repointing loop is still bound to the old URI after the
    element's declarations are applied: always for the repaired rule, and for the pinned rule when no
    two prefixes of one URI are rebound by the same element. -/
def SingleRebind (ns : Map) (l : Xmlns) : Prop :=
  ∀ p1 p2, p1 ∈ rebound ns l → p2 ∈ rebound ns l → ns.get p1 = ns.get p2 → p1 = p2

/-- loop invariant of namespaces.py:227-235 -/
def RepInv (ns : Map) (rb : List String) (todo : Xmlns) (rev : Map) : Prop :=
  ∀ u p, rev.get u = some p → ns.get p = some u ∧ (p ∈ rb → p ∈ todo.map (·.1))

theorem repointOne_inv {v : Variant} {ns : Map} {l : Xmlns} (hnn : Map.Nodup ns) (hl : NodupKeys l)
    (hv : v = .repaired ∨ SingleRebind ns l)
    {d : String × String} {todo : Xmlns} (hd : d ∈ l) {rev : Map}
    (hi : RepInv ns (rebound ns l) (d :: todo) rev) :
    RepInv ns (rebound ns l) todo (repointOne v ns (rebound ns l) rev d) := by
  -- an entry that points at d.1 can only be the entry of the URI d.1 is bound to
  have key : ∀ u p, rev.get u = some p → p = d.1 → ns.get d.1 = some u := by
    intro u p h e; rw [← e]; exact (hi u p h).1
  -- d.1 ∈ rebound → the old URI differs from d.2
  have hrb : ∀ old, ns.get d.1 = some old → d.1 ∈ rebound ns l → old ≠ d.2 := by
    intro old ho hm
    obtain ⟨d', hd', e1, old', ho', hne⟩ := mem_rebound.mp hm
    have : d' = d := nodupKeys_inj hl hd' hd e1
    subst this
    rw [ho] at ho'; cases ho'; exact hne
  unfold repointOne
  cases hg : ns.get d.1 with
  | none =>
    intro u p h
    obtain ⟨h1, h2⟩ := hi u p h
    refine ⟨h1, fun hp => ?_⟩
    have := h2 hp
    simp only [List.map_cons, List.mem_cons] at this
    rcases this with e | e
    · rw [e, hg] at h1; cases h1
    · exact e
  | some old =>
    simp only
    split
    · rename_i hc
      obtain ⟨hne, hr⟩ := hc
      -- the candidate is bound to `old` and not rebound
      have hcand : ∀ k, (match v with
            | .pinned => ns.lastKey fun k u => k ≠ d.1 && u = old
            | .repaired => ns.lastKey fun k u => !(rebound ns l).contains k && u = old) = some k →
          ns.get k = some old ∧ k ∉ rebound ns l := by
        intro k hk
        cases v with
        | repaired =>
          obtain ⟨w, hw, hp⟩ := lastKey_mem hk
          simp only [Bool.and_eq_true, Bool.not_eq_true', decide_eq_true_eq] at hp
          refine ⟨by rw [get_of_mem hnn hw, hp.2], ?_⟩
          intro hm
          have := List.contains_iff_mem.mpr hm
          rw [this] at hp; exact absurd hp.1 (by simp)
        | pinned =>
          obtain ⟨w, hw, hp⟩ := lastKey_mem hk
          simp only [Bool.and_eq_true, decide_eq_true_eq, ne_eq] at hp
          have hgk : ns.get k = some old := by rw [get_of_mem hnn hw, hp.2]
          refine ⟨hgk, ?_⟩
          intro hm
          rcases hv with hv | hv
          · cases hv
          · have hd1 : d.1 ∈ rebound ns l :=
              mem_rebound.mpr ⟨d, hd, rfl, old, hg, hne⟩
            have := hv k d.1 hm hd1 (by rw [hgk, hg])
            exact hp.1 (by simpa using this)
      intro u p h
      by_cases hu : u = old
      · subst hu
        split at h
        · rename_i k hk
          rw [get_set_self] at h; cases h
          obtain ⟨h1, h2⟩ := hcand _ hk
          exact ⟨h1, fun hp => absurd hp h2⟩
        · rw [get_erase] at h; simp at h
      · have h' : rev.get u = some p := by
          split at h
          · rw [get_set_ne _ _ (Ne.symm hu), get_erase] at h; simpa [Ne.symm hu] using h
          · rw [get_erase] at h; simpa [Ne.symm hu] using h
        obtain ⟨h1, h2⟩ := hi u p h'
        refine ⟨h1, fun hp => ?_⟩
        have := h2 hp
        simp only [List.map_cons, List.mem_cons] at this
        rcases this with e | e
        · have := key u p h' e
          rw [hg] at this; cases this; exact absurd rfl hu
        · exact e
    · rename_i hc
      intro u p h
      obtain ⟨h1, h2⟩ := hi u p h
      refine ⟨h1, fun hp => ?_⟩
      have := h2 hp
      simp only [List.map_cons, List.mem_cons] at this
      rcases this with e | e
      · -- p = d.1 is rebound, so old ≠ d.2, and the entry of old is p: the condition holds
        exfalso
        have hu := key u p h e
        rw [hg] at hu; cases hu
        apply hc
        exact ⟨hrb old hg (e ▸ hp), e ▸ h⟩
      · exact e

theorem repoint_fold_inv {v : Variant} {ns : Map} {l : Xmlns} (hnn : Map.Nodup ns) (hl : NodupKeys l)
    (hv : v = .repaired ∨ SingleRebind ns l) :
    ∀ (todo : Xmlns) (rev : Map), (∀ d ∈ todo, d ∈ l) → RepInv ns (rebound ns l) todo rev →
      RepInv ns (rebound ns l) [] (todo.foldl (repointOne v ns (rebound ns l)) rev) := by
  intro todo
  induction todo with
  | nil => intro rev _ h; exact h
  | cons d t ih =>
    intro rev hsub hi
    simp only [List.foldl_cons]
    exact ih _ (fun d' hd' => hsub d' (List.mem_cons_of_mem _ hd'))
      (repointOne_inv hnn hl hv (hsub d List.mem_cons_self) hi)

/-- after the repointing loop every recorded prefix is bound to its URI and is not rebound by the
    element -/
theorem repoint_spec {v : Variant} {ns rev : Map} {l : Xmlns} (hnn : Map.Nodup ns) (hl : NodupKeys l)
    (hv : v = .repaired ∨ SingleRebind ns l) (hr : ReverseOk ns rev) :
    ∀ u p, (repoint v ns rev l).get u = some p → ns.get p = some u ∧ p ∉ rebound ns l := by
  have h0 : RepInv ns (rebound ns l) l rev := by
    intro u p h
    refine ⟨hr u p h, fun hp => ?_⟩
    obtain ⟨d, hd, e, _⟩ := mem_rebound.mp hp
    exact List.mem_map.mpr ⟨d, hd, e⟩
  have := repoint_fold_inv hnn hl hv l rev (fun _ h => h) h0
  intro u p h
  obtain ⟨h1, h2⟩ := this u p h
  exact ⟨h1, fun hp => by simpa using h2 hp⟩

/-- the stacked branch of `set_xmlns_context` keeps the reverse map consistent -/
theorem stacked_step_reverseOk {v : Variant} {ns rev : Map} {l : Xmlns} (level : Nat)
    (hnn : Map.Nodup ns) (hl : NodupKeys l) (hv : v = .repaired ∨ SingleRebind ns l)
    (hr : ReverseOk ns rev) :
    ReverseOk (Map.update ns l) (revUpdate level (repoint v ns rev l) l) := by
  intro u p h
  rcases get_revUpdate h with h1 | h1
  · exact get_update_mem hl h1
  · obtain ⟨h2, h3⟩ := repoint_spec hnn hl hv hr u p h1
    apply get_update_keep _ h2
    intro d hd e
    by_cases hne : d.2 = u
    · exact hne
    · exact absurd (mem_rebound.mpr ⟨d, hd, e, u, h2, fun x => hne x.symm⟩) h3

end XsVerif.NsMapper
