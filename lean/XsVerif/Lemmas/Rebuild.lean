/-
  Helper lemmas for the "building twice" part of C09 (model: Model/Rebuild.lean).  Plain Lean core.
-/
import XsVerif.Model.Rebuild

namespace XsVerif.Rebuild

/-! ### association lists -/

theorem lookup_mem {β : Type} : ∀ (l : List (Name × β)) (k : Name) (v : β), l.lookup k = some v → (k, v) ∈ l
  | [], _, _, h => by simp at h
  | (k', v') :: l, k, v, h => by
    rw [List.lookup_cons] at h
    by_cases e : k = k'
    · subst e
      simp at h
      subst h
      exact List.mem_cons_self
    · have : (k == k') = false := by simpa using e
      rw [this] at h
      exact List.mem_cons_of_mem _ (lookup_mem l k v h)

theorem lookup_snoc {β : Type} (l : List (Name × β)) (k k' : Name) (v : β) :
    (l ++ [(k', v)]).lookup k = match l.lookup k with
      | some x => some x
      | none => if k' = k then some v else none := by
  rw [List.lookup_append]
  cases h : l.lookup k with
  | some x => simp
  | none =>
    by_cases e : k' = k
    · subst e; simp
    · have : (k == k') = false := by simpa using fun h => e h.symm
      simp [List.lookup_cons, this, e]

/-! ### clear / rebuild -/

theorem clear_faithful (m : Maps) : clear faithful m = empty := rfl

theorem rebuild_faithful (g : Nat) (reqs : List Req) (m : Maps) :
    rebuild faithful g reqs m = rebuild faithful g reqs empty := rfl

theorem runFrom_last (reqs : List Req) :
    ∀ (hist : List (List Req)) (g : Nat) (m : Maps),
      runFrom faithful g m (hist ++ [reqs]) = rebuild faithful (g + hist.length) reqs empty
  | [], g, m => by simp [runFrom, rebuild_faithful g reqs m]
  | h :: hist, g, m => by
    simp only [List.cons_append, runFrom, List.length_cons]
    rw [runFrom_last reqs hist (g + 1)]
    congr 1
    omega

/-! ### the store: first registration of a name wins, a second one is refused -/

theorem step_store_lookup (g : Nat) (m : Maps) (r : Req) (n : Name) :
    (step g m r).store.lookup n = match m.store.lookup n with
      | some v => some v
      | none => if r = .glob n then some g else none := by
  cases r with
  | glob n' =>
    simp only [step]
    cases h' : m.store.lookup n' with
    | some v' =>
      cases h : m.store.lookup n with
      | some v => simp
      | none =>
        have : n' ≠ n := by intro e; subst e; rw [h] at h'; cases h'
        simp [this]
    | none =>
      simp only
      rw [lookup_snoc]
      cases h : m.store.lookup n with
      | some v => rfl
      | none => by_cases e : n' = n <;> simp [e]
  | ident n' node =>
    simp only [step]
    cases m.idents.lookup n' with
    | some e => by_cases c : e.node = node <;> simp [c] <;> cases m.store.lookup n <;> rfl
    | none => cases m.store.lookup n <;> simp
  | subst h x => simp only [step]; cases m.store.lookup n <;> simp

theorem build_store_lookup (g : Nat) : ∀ (reqs : List Req) (m : Maps) (n : Name),
    (build g reqs m).store.lookup n = match m.store.lookup n with
      | some v => some v
      | none => if .glob n ∈ reqs then some g else none
  | [], m, n => by simp [build]; cases m.store.lookup n <;> rfl
  | r :: reqs, m, n => by
    have ih := build_store_lookup g reqs (step g m r) n
    simp only [build, List.foldl_cons] at ih ⊢
    rw [ih, step_store_lookup]
    cases h : m.store.lookup n with
    | some v => rfl
    | none =>
      by_cases e : r = .glob n
      · simp [e]
      · have e' : ¬ (Req.glob n = r) := fun h => e h.symm
        simp [e, e']

/-! ### identities: first registration of a name wins -/

/-- the XSD node of the first registration request for identity `n` -/
def firstNode : List Req → Name → Option Name
  | [], _ => none
  | .ident n' node :: rest, n => if n' = n then some node else firstNode rest n
  | _ :: rest, n => firstNode rest n

theorem step_idents_lookup (g : Nat) (m : Maps) (r : Req) (n : Name) :
    (step g m r).idents.lookup n = match m.idents.lookup n with
      | some e => some e
      | none => (firstNode [r] n).map (⟨·, g⟩) := by
  cases r with
  | glob n' =>
    simp only [step, firstNode]
    cases m.store.lookup n' <;> cases m.idents.lookup n <;> simp
  | subst h x => simp only [step, firstNode]; cases m.idents.lookup n <;> simp
  | ident n' node =>
    simp only [step, firstNode]
    cases h' : m.idents.lookup n' with
    | some e' =>
      cases h : m.idents.lookup n with
      | some e => by_cases c : e'.node = node <;> simp [c, h]
      | none =>
        have : n' ≠ n := by intro e; subst e; rw [h] at h'; cases h'
        by_cases c : e'.node = node <;> simp [c, h, this]
    | none =>
      simp only
      rw [lookup_snoc]
      cases h : m.idents.lookup n with
      | some e => rfl
      | none => by_cases e : n' = n <;> simp [e]

theorem build_idents_lookup (g : Nat) : ∀ (reqs : List Req) (m : Maps) (n : Name),
    (build g reqs m).idents.lookup n = match m.idents.lookup n with
      | some e => some e
      | none => (firstNode reqs n).map (⟨·, g⟩)
  | [], m, n => by simp [build, firstNode]; cases m.idents.lookup n <;> rfl
  | r :: reqs, m, n => by
    have ih := build_idents_lookup g reqs (step g m r) n
    simp only [build, List.foldl_cons] at ih ⊢
    rw [ih, step_idents_lookup]
    cases h : m.idents.lookup n with
    | some e => rfl
    | none =>
      cases r with
      | glob n' => simp [firstNode]
      | subst h x => simp [firstNode]
      | ident n' node => by_cases e : n' = n <;> simp [firstNode, e]

/-- every registration request of one name comes from the same XSD node (a schema without
    "duplicated identity constraint") -/
def Functional (reqs : List Req) : Prop :=
  ∀ n a b, .ident n a ∈ reqs → .ident n b ∈ reqs → a = b

theorem firstNode_some_mem : ∀ (reqs : List Req) (n node : Name),
    firstNode reqs n = some node → .ident n node ∈ reqs
  | [], _, _, h => by simp [firstNode] at h
  | .glob _ :: rest, n, node, h => List.mem_cons_of_mem _ (firstNode_some_mem rest n node (by simpa [firstNode] using h))
  | .subst _ _ :: rest, n, node, h => List.mem_cons_of_mem _ (firstNode_some_mem rest n node (by simpa [firstNode] using h))
  | .ident n' nd :: rest, n, node, h => by
    by_cases e : n' = n
    · subst e
      simp [firstNode] at h
      subst h
      exact List.mem_cons_self
    · simp [firstNode, e] at h
      exact List.mem_cons_of_mem _ (firstNode_some_mem rest n node h)

theorem firstNode_none_not_mem : ∀ (reqs : List Req) (n node : Name),
    firstNode reqs n = none → .ident n node ∉ reqs
  | [], _, _, _ => by simp
  | .glob _ :: rest, n, node, h => by
    simp only [List.mem_cons, not_or]
    exact ⟨by simp, firstNode_none_not_mem rest n node (by simpa [firstNode] using h)⟩
  | .subst _ _ :: rest, n, node, h => by
    simp only [List.mem_cons, not_or]
    exact ⟨by simp, firstNode_none_not_mem rest n node (by simpa [firstNode] using h)⟩
  | .ident n' nd :: rest, n, node, h => by
    by_cases e : n' = n
    · simp [firstNode, e] at h
    · simp only [firstNode, e, if_false] at h
      simp only [List.mem_cons, not_or]
      refine ⟨?_, firstNode_none_not_mem rest n node h⟩
      intro c
      injection c with c1 _
      exact e c1.symm

theorem firstNode_iff (reqs : List Req) (hf : Functional reqs) (n node : Name) :
    firstNode reqs n = some node ↔ .ident n node ∈ reqs := by
  constructor
  · exact firstNode_some_mem reqs n node
  · intro h
    cases c : firstNode reqs n with
    | none => exact absurd h (firstNode_none_not_mem reqs n node c)
    | some nd => rw [hf n nd node (firstNode_some_mem reqs n nd c) h]

/-! ### substitution groups -/

theorem addMember_spec : ∀ (l : List (Name × List (Name × Nat))) (h : Name) (x : Name × Nat) (h' : Name)
    (y : Name × Nat), MemberOf (addMember l h x) h' y ↔ MemberOf l h' y ∨ (h' = h ∧ y = x)
  | [], h, x, h', y => by
    simp only [addMember, MemberOf]
    constructor
    · rintro ⟨ms, hm, hy⟩
      simp only [List.mem_singleton, Prod.mk.injEq] at hm
      obtain ⟨e1, e2⟩ := hm
      subst e2
      simp only [List.mem_singleton] at hy
      exact Or.inr ⟨e1, hy⟩
    · rintro (⟨ms, hm, _⟩ | ⟨e1, e2⟩)
      · simp at hm
      · exact ⟨[x], by simp [e1], by simp [e2]⟩
  | (k, ms0) :: rest, h, x, h', y => by
    have ih := addMember_spec rest h x h' y
    unfold MemberOf at ih ⊢
    by_cases e : k = h
    · subst e
      simp only [addMember, if_true]
      constructor
      · rintro ⟨ms, hm, hy⟩
        rcases List.mem_cons.mp hm with hm | hm
        · simp only [Prod.mk.injEq] at hm
          obtain ⟨e1, e2⟩ := hm
          subst e2
          by_cases c : x ∈ ms0
          · simp only [c, if_true] at hy
            exact Or.inl ⟨ms0, by simp [e1], hy⟩
          · simp only [c, if_false] at hy
            rcases List.mem_append.mp hy with hy | hy
            · exact Or.inl ⟨ms0, by simp [e1], hy⟩
            · simp only [List.mem_singleton] at hy
              exact Or.inr ⟨e1, hy⟩
        · exact Or.inl ⟨ms, List.mem_cons_of_mem _ hm, hy⟩
      · rintro (⟨ms, hm, hy⟩ | ⟨e1, e2⟩)
        · rcases List.mem_cons.mp hm with hm | hm
          · simp only [Prod.mk.injEq] at hm
            obtain ⟨e1, e2⟩ := hm
            subst e2
            refine ⟨if x ∈ ms then ms else ms ++ [x], by simp [e1], ?_⟩
            by_cases c : x ∈ ms
            · simp [c, hy]
            · simp [c, hy]
          · exact ⟨ms, List.mem_cons_of_mem _ hm, hy⟩
        · subst e1 e2
          refine ⟨if y ∈ ms0 then ms0 else ms0 ++ [y], by simp, ?_⟩
          by_cases c : y ∈ ms0
          · simp [c]
          · simp [c]
    · simp only [addMember, e, if_false]
      constructor
      · rintro ⟨ms, hm, hy⟩
        rcases List.mem_cons.mp hm with hm | hm
        · exact Or.inl ⟨ms, by rw [hm]; exact List.mem_cons_self, hy⟩
        · rcases ih.mp ⟨ms, hm, hy⟩ with ⟨ms', hm', hy'⟩ | r
          · exact Or.inl ⟨ms', List.mem_cons_of_mem _ hm', hy'⟩
          · exact Or.inr r
      · rintro (⟨ms, hm, hy⟩ | r)
        · rcases List.mem_cons.mp hm with hm | hm
          · exact ⟨ms, by rw [hm]; exact List.mem_cons_self, hy⟩
          · obtain ⟨ms', hm', hy'⟩ := ih.mpr (Or.inl ⟨ms, hm, hy⟩)
            exact ⟨ms', List.mem_cons_of_mem _ hm', hy'⟩
        · obtain ⟨ms', hm', hy'⟩ := ih.mpr (Or.inr r)
          exact ⟨ms', List.mem_cons_of_mem _ hm', hy'⟩

theorem step_subst (g : Nat) (m : Maps) (r : Req) (h : Name) (y : Name × Nat) :
    MemberOf (step g m r).subst h y ↔ MemberOf m.subst h y ∨ (y.2 = g ∧ r = .subst h y.1) := by
  cases r with
  | glob n' =>
    simp only [step]
    cases m.store.lookup n' <;> simp
  | ident n' node =>
    simp only [step]
    cases m.idents.lookup n' with
    | some e => by_cases c : e.node = node <;> simp [c]
    | none => simp
  | subst h0 x =>
    simp only [step]
    rw [addMember_spec]
    constructor
    · rintro (l | ⟨e1, e2⟩)
      · exact Or.inl l
      · subst e1 e2; exact Or.inr ⟨rfl, rfl⟩
    · rintro (l | ⟨e1, e2⟩)
      · exact Or.inl l
      · injection e2 with a b
        refine Or.inr ⟨a.symm, ?_⟩
        cases y
        simp_all

theorem build_subst (g : Nat) : ∀ (reqs : List Req) (m : Maps) (h : Name) (y : Name × Nat),
    MemberOf (build g reqs m).subst h y ↔ MemberOf m.subst h y ∨ (y.2 = g ∧ .subst h y.1 ∈ reqs)
  | [], m, h, y => by simp [build]
  | r :: reqs, m, h, y => by
    have ih := build_subst g reqs (step g m r) h y
    simp only [build, List.foldl_cons] at ih ⊢
    rw [ih, step_subst]
    constructor
    · rintro ((l | ⟨a, b⟩) | ⟨a, b⟩)
      · exact Or.inl l
      · exact Or.inr ⟨a, by rw [b]; exact List.mem_cons_self⟩
      · exact Or.inr ⟨a, List.mem_cons_of_mem _ b⟩
    · rintro (l | ⟨a, b⟩)
      · exact Or.inl (Or.inl l)
      · rcases List.mem_cons.mp b with b | b
        · exact Or.inl (Or.inr ⟨a, b.symm⟩)
        · exact Or.inr ⟨a, b⟩

/-! ### errors -/

theorem step_errors_mono (g : Nat) (m : Maps) (r : Req) (n : Name) (h : n ∈ m.errors) :
    n ∈ (step g m r).errors := by
  cases r with
  | glob n' => simp only [step]; cases m.store.lookup n' <;> simp [h]
  | ident n' node =>
    simp only [step]
    cases m.idents.lookup n' with
    | some e => by_cases c : e.node = node <;> simp [c, h]
    | none => simp [h]
  | subst h0 x => simpa [step] using h

theorem build_errors_mono (g : Nat) : ∀ (reqs : List Req) (m : Maps) (n : Name),
    n ∈ m.errors → n ∈ (build g reqs m).errors
  | [], _, _, h => h
  | r :: reqs, m, n, h => by
    simp only [build, List.foldl_cons]
    exact build_errors_mono g reqs (step g m r) n (step_errors_mono g m r n h)

/-- a name that an un-cleared store still holds is refused when it is declared again -/
theorem build_refuses_stored (g : Nat) : ∀ (reqs : List Req) (m : Maps) (n : Name) (v : Nat),
    m.store.lookup n = some v → .glob n ∈ reqs → n ∈ (build g reqs m).errors
  | [], _, _, _, _, h => by simp at h
  | r :: reqs, m, n, v, hs, h => by
    simp only [build, List.foldl_cons]
    rcases List.mem_cons.mp h with h | h
    · subst h
      apply build_errors_mono
      simp [step, hs]
    · have : (step g m r).store.lookup n = some v := by rw [step_store_lookup, hs]
      exact build_refuses_stored g reqs (step g m r) n v this h

/-- no errors when every global is declared once and identity registrations are functional -/
theorem build_no_errors (g : Nat) : ∀ (reqs : List Req) (m : Maps),
    m.errors = [] →
    (∀ n, .glob n ∈ reqs → m.store.lookup n = none) →
    (∀ n node e, .ident n node ∈ reqs → m.idents.lookup n = some e → e.node = node) →
    (reqs.filterMap fun | .glob n => some n | _ => none).Nodup → Functional reqs →
    (build g reqs m).errors = []
  | [], m, he, _, _, _, _ => by simpa [build] using he
  | r :: reqs, m, he, hs, hi, hnd, hf => by
    simp only [build, List.foldl_cons]
    have hf' : Functional reqs := fun n a b ha hb => hf n a b (List.mem_cons_of_mem _ ha) (List.mem_cons_of_mem _ hb)
    cases r with
    | glob n' =>
      have hnone := hs n' List.mem_cons_self
      simp only [List.filterMap_cons, List.nodup_cons] at hnd
      apply build_no_errors g reqs _ _ _ _ hnd.2 hf'
      · simp [step, hnone, he]
      · intro n hn
        rw [step_store_lookup, hs n (List.mem_cons_of_mem _ hn)]
        have : n' ≠ n := by
          intro e; subst e
          exact hnd.1 (List.mem_filterMap.mpr ⟨.glob n', hn, rfl⟩)
        simp [this]
      · intro n node e hn hl
        have : (step g m (.glob n')).idents = m.idents := by simp [step, hnone]
        rw [this] at hl
        exact hi n node e (List.mem_cons_of_mem _ hn) hl
    | subst h0 x =>
      simp only [List.filterMap_cons] at hnd
      apply build_no_errors g reqs _ _ _ _ hnd hf'
      · simpa [step] using he
      · intro n hn; simpa [step] using hs n (List.mem_cons_of_mem _ hn)
      · intro n node e hn hl; exact hi n node e (List.mem_cons_of_mem _ hn) (by simpa [step] using hl)
    | ident n' node' =>
      simp only [List.filterMap_cons] at hnd
      apply build_no_errors g reqs _ _ _ _ hnd hf'
      · simp only [step]
        cases c : m.idents.lookup n' with
        | some e => simp [hi n' node' e List.mem_cons_self c, he]
        | none => simpa using he
      · intro n hn
        have := step_store_lookup g m (.ident n' node') n
        rw [this, hs n (List.mem_cons_of_mem _ hn)]
        simp
      · intro n node e hn hl
        rw [step_idents_lookup] at hl
        cases c : m.idents.lookup n with
        | some e0 =>
          rw [c] at hl
          simp only [Option.some.injEq] at hl
          subst hl
          exact hi n node e0 (List.mem_cons_of_mem _ hn) c
        | none =>
          rw [c] at hl
          by_cases e' : n' = n
          · subst e'
            simp [firstNode] at hl
            subst hl
            exact hf n' node' node List.mem_cons_self (List.mem_cons_of_mem _ hn)
          · simp [firstNode, e'] at hl

/-! ### generations -/

/-- every object held by the registries was created by build `g` -/
structure AllGen (g : Nat) (m : Maps) : Prop where
  store : ∀ p ∈ m.store, p.2 = g
  idents : ∀ p ∈ m.idents, p.2.gen = g
  subst : ∀ h y, MemberOf m.subst h y → y.2 = g

theorem empty_allGen (g : Nat) : AllGen g empty :=
  ⟨by simp [empty], by simp [empty], by intro h y ⟨ms, hm, _⟩; simp [empty] at hm⟩

theorem step_allGen (g : Nat) (m : Maps) (r : Req) (h : AllGen g m) : AllGen g (step g m r) := by
  refine ⟨?_, ?_, ?_⟩
  · cases r with
    | glob n' =>
      simp only [step]
      cases m.store.lookup n' with
      | some v => exact h.store
      | none =>
        intro p hp
        rcases List.mem_append.mp hp with hp | hp
        · exact h.store p hp
        · simp only [List.mem_singleton] at hp; subst hp; rfl
    | ident n' node =>
      simp only [step]
      cases m.idents.lookup n' with
      | some e => simp only []; split <;> exact h.store
      | none => exact h.store
    | subst h0 x => exact h.store
  · cases r with
    | glob n' => simp only [step]; cases m.store.lookup n' <;> exact h.idents
    | ident n' node =>
      simp only [step]
      cases m.idents.lookup n' with
      | some e => simp only []; split <;> exact h.idents
      | none =>
        intro p hp
        rcases List.mem_append.mp hp with hp | hp
        · exact h.idents p hp
        · simp only [List.mem_singleton] at hp; subst hp; rfl
    | subst h0 x => exact h.idents
  · intro hd y hy
    rcases (step_subst g m r hd y).mp hy with l | ⟨a, _⟩
    · exact h.subst hd y l
    · exact a

theorem build_allGen (g : Nat) : ∀ (reqs : List Req) (m : Maps), AllGen g m → AllGen g (build g reqs m)
  | [], _, h => h
  | r :: reqs, m, h => by
    simp only [build, List.foldl_cons]
    exact build_allGen g reqs (step g m r) (step_allGen g m r h)

theorem touch_fields (g : Nat) (m : Maps) :
    (touch g m).store = m.store ∧ (touch g m).idents = m.idents ∧ (touch g m).subst = m.subst ∧
    (touch g m).errors = m.errors := by
  unfold touch; cases m.views <;> simp

theorem build_views (g : Nat) : ∀ (reqs : List Req) (m : Maps), (build g reqs m).views = m.views
  | [], _ => rfl
  | r :: reqs, m => by
    simp only [build, List.foldl_cons]
    have := build_views g reqs (step g m r)
    simp only [build] at this
    rw [this]
    cases r with
    | glob n' => simp only [step]; cases m.store.lookup n' <;> rfl
    | ident n' node =>
      simp only [step]
      cases m.idents.lookup n' with
      | some e => by_cases c : e.node = node <;> simp [c]
      | none => rfl
    | subst h0 x => rfl

end XsVerif.Rebuild
