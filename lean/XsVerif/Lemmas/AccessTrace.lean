/-
  C12 — lemmas for the trace model of nested loads (Model/AccessTrace.lean): rendered file URLs are
  fixed points of `normalize_url`, `os.path.dirname` of a rendered URL, the base-inheritance step.
  Core Lean only.
-/
import XsVerif.Lemmas.AccessCoding
namespace XsVerif.Access

/-! ### what percent-encoded text consists of -/

theorem hex_lt16_cases (n : Nat) : (48 ≤ hex n ∧ hex n ≤ 57) ∨ 65 ≤ hex n := by
  unfold hex; split <;> omega

/-- bytes that never occur in percent-encoded text: '#', '?', '\\', ':', blanks, controls … -/
def Reserved (c : Nat) : Prop := isSafe c = false ∧ c ≠ 37 ∧ ¬ (48 ≤ c ∧ c ≤ 57) ∧ c < 65

theorem not_mem_quote {c : Nat} (hc : Reserved c) (p : Bytes) : c ∉ quote p := by
  induction p with
  | nil => simp [quote]
  | cons a t ih =>
    rw [quote_cons, List.mem_append, not_or]
    refine ⟨?_, ih⟩
    unfold qc
    split
    · rename_i hs; simp; intro e; subst e; rw [hc.1] at hs; cases hs
    · simp only [List.mem_cons, List.not_mem_nil, or_false, not_or]
      have h1 := hex_lt16_cases (a / 16)
      have h2 := hex_lt16_cases (a % 16)
      obtain ⟨-, h37, hd, h65⟩ := hc
      refine ⟨h37, ?_, ?_⟩ <;> omega

theorem reserved_35 : Reserved 35 := by unfold Reserved; decide
theorem reserved_63 : Reserved 63 := by unfold Reserved; decide
theorem reserved_58 : Reserved 58 := by unfold Reserved; decide

/-- backslash: 92 = hex 37, which `quote` never emits (hex of a nibble) -/
theorem no_backslash_quote (p : Bytes) : 92 ∉ quote p := by
  induction p with
  | nil => simp [quote]
  | cons a t ih =>
    rw [quote_cons, List.mem_append, not_or]
    refine ⟨?_, ih⟩
    unfold qc
    split
    · rename_i hs; simp; intro e; subst e; revert hs; decide
    · rename_i hs
      have := lt_256_of_not_safe hs
      simp only [List.mem_cons, List.not_mem_nil, or_false, not_or]
      unfold hex
      refine ⟨by omega, ?_, ?_⟩ <;> split <;> omega

theorem breakAt_none (p : Nat → Bool) (l : Bytes) (h : ∀ c ∈ l, p c = false) :
    breakAt p l = (l, false, []) := by
  induction l with
  | nil => rfl
  | cons a t ih =>
    simp only [breakAt, h a (by simp)]
    rw [ih (fun c hc => h c (by simp [hc]))]
    simp

theorem quote_abs {q : Bytes} (hq : isAbsPath q = true) : ∃ r, q = 47 :: r ∧ quote q = 47 :: quote r := by
  obtain ⟨r, rfl⟩ := (startsWith_iff _ _).mp hq
  exact ⟨r, rfl, by simp [quote_cons, qc_47]⟩

def fileScheme : Bytes := [102, 105, 108, 101]

/-- `urlsplit` of a rendered file URL -/
theorem urlsplit_fileUrl (q : Bytes) (hq : isAbsPath q = true) :
    urlsplit (filePre ++ quote q) =
      { scheme := fileScheme, netloc := [], path := quote q, query := [], hasQuery := false,
        fragment := [], hasFragment := false } := by
  have hqa := fileUrl_QA q
  have hd : (filePre ++ quote q).dropWhile isC0OrSpace = filePre ++ quote q :=
    dropWhile_all_false (fun c hc => by have := hqa c hc; unfold QA at this; unfold isC0OrSpace; simp; omega)
  have hf : (filePre ++ quote q).filter (fun c => !(c == 9 || c == 10 || c == 13)) = filePre ++ quote q :=
    filter_all_true (fun c hc => by have := hqa c hc; unfold QA at this; simp; omega)
  obtain ⟨r, rfl, hr⟩ := quote_abs hq
  have h35 : breakAt (· == 35) (47 :: quote r) = (47 :: quote r, false, []) :=
    breakAt_none _ _ (fun c hc => by
      rw [← hr] at hc
      have := not_mem_quote reserved_35 (47 :: r)
      simp; intro e; subst e; exact this hc)
  have h63 : breakAt (· == 63) (47 :: quote r) = (47 :: quote r, false, []) :=
    breakAt_none _ _ (fun c hc => by
      rw [← hr] at hc
      have := not_mem_quote reserved_63 (47 :: r)
      simp; intro e; subst e; exact this hc)
  unfold urlsplit
  simp only [hd, hf]
  rw [hr]
  simp [filePre, splitScheme, scanScheme, isAlpha, isSchemeChar, isDigit, lower, h35, h63, fileScheme]


theorem strip_fileUrl (q : Bytes) : strip (filePre ++ quote q) = filePre ++ quote q ∧
    lstrip (filePre ++ quote q) = filePre ++ quote q := by
  have hq := fileUrl_QA q
  have hns : ∀ c ∈ filePre ++ quote q, isSpace c = false := by
    intro c hc; have := hq c hc; unfold QA at this
    unfold isSpace; simp; omega
  have hl : lstrip (filePre ++ quote q) = filePre ++ quote q := dropWhile_all_false hns
  refine ⟨?_, hl⟩
  unfold strip
  rw [hl, dropWhile_all_false (fun c hc => hns c (List.mem_reverse.mp hc)), List.reverse_reverse]

theorem mem_dropWhile {p : Nat → Bool} {l : Bytes} {c : Nat} (h : c ∈ l.dropWhile p) : c ∈ l :=
  (List.dropWhile_sublist p).subset h

theorem windowsForm_quote (q : Bytes) : windowsForm (quote q) = startsWith (quote q) [47, 47] := by
  unfold windowsForm
  have h92 : (quote q).contains 92 = false := by
    cases h : (quote q).contains 92 with
    | false => rfl
    | true => exact absurd (by simpa using h) (no_backslash_quote q)
  rw [h92]
  have h58 := not_mem_quote reserved_58 q
  split
  · rename_i c t heq
    have : 58 ∈ (quote q).dropWhile (· == 47) := by rw [heq]; simp
    exact absurd (mem_dropWhile this) h58
  · split
    · rename_i heq
      rw [heq] at h58; simp at h58
    · simp

/-- `LocationPath.from_uri` of a rendered file URL gives the path back (POSIX forms) -/
theorem fromUri_fileUrl (q : Bytes) (hq : isAbsPath q = true) :
    fromUri (filePre ++ quote q) =
      if startsWith (quote q) [47, 47] then .error .outOfScope else .ok q := by
  unfold fromUri
  simp only [(strip_fileUrl q).1, urlsplit_fileUrl q hq]
  simp [fileScheme, urn, isLocalScheme, windowsForm_quote, unquote_quote]

/-- `normalize_url` of a rendered file URL: the URL of the normalised path again (whatever the base) -/
theorem normalizeUrl_fileUrl (cwd : Bytes) (base : Option Bytes) (q : Bytes) (hq : isAbsPath q = true) :
    normalizeUrl cwd base (filePre ++ quote q) =
      if startsWith (quote q) [47, 47] then .outOfScope else mkFile q := by
  unfold normalizeUrl
  simp only [(strip_fileUrl q).2, urlsplit_fileUrl q hq, fromUri_fileUrl q hq]
  have h1 : startsWith (filePre ++ quote q) [47, 47] = false := by simp [filePre, startsWith]
  have h2 : startsWith (filePre ++ quote q) [92, 92] = false := by simp [filePre, startsWith]
  simp only [h1, h2]
  by_cases hw : startsWith (quote q) [47, 47] = true
  · simp [hw, fileScheme, isLocalScheme]
  · simp [hw, fileScheme, isLocalScheme, hq]

/-- `normalize_url` is idempotent on its local results: re-normalising the URL of an admitted
    resource (whatever the base) gives the same URL and the same decoded path. -/
theorem normalizeUrl_idempotent (cwd : Bytes) (b b' : Option Bytes) (loc p u : Bytes)
    (hcwd : isAbsPath cwd = true) (h : normalizeUrl cwd b loc = .file p u) :
    normalizeUrl cwd b' u = .file p u ∨ normalizeUrl cwd b' u = .outOfScope := by
  obtain ⟨j, hj, hp, hu⟩ := normalizeUrl_file_shape cwd b loc p u hcwd h
  have hpa : isAbsPath p = true := by rw [hp]; exact (normpath_abs j hj).1
  rw [hu, normalizeUrl_fileUrl cwd b' p hpa]
  by_cases hw : startsWith (quote p) [47, 47] = true
  · right; simp [hw]
  · left
    simp only [hw]
    have hn : normpath p = p := by rw [hp]; exact normpath_idempotent j
    simp [mkFile, asUri, hn, show startsWith p [47] = true from hpa]


/-! ### `os.path.dirname` of a rendered URL and the base-inheritance step -/

theorem quote_replicate_sep (n : Nat) (s : Bytes) :
    quote (List.replicate n 47 ++ s) = List.replicate n 47 ++ quote s := by
  induction n with
  | zero => simp
  | succ k ih => simp [List.replicate_succ, quote_cons, qc_47, ih]

theorem quote_join (cs : List Bytes) : quote (join cs) = join (cs.map quote) := by
  induction cs with
  | nil => simp [join, quote]
  | cons a t ih =>
    cases t with
    | nil => simp [join]
    | cons b r =>
      simp only [join, List.map_cons] at ih ⊢
      rw [quote_append, quote_cons, qc_47, ih]; simp

theorem join_concat (init : List Bytes) (c : Bytes) (h : init ≠ []) :
    join (init ++ [c]) = join init ++ 47 :: c := by
  induction init with
  | nil => exact absurd rfl h
  | cons a t ih =>
    cases t with
    | nil => simp [join]
    | cons b r =>
      have := ih (by simp)
      simp only [List.cons_append, join] at this ⊢
      rw [this]; simp

theorem rstripSlash_concat_sep (h : Bytes) : rstripSlash (h ++ [47]) = rstripSlash h := by
  simp [rstripSlash]

theorem rstripSlash_last_ne (h : Bytes) (x : Nat) (hx : x ≠ 47) : rstripSlash (h ++ [x]) = h ++ [x] := by
  simp [rstripSlash, hx]

theorem dropWhile_ne_append (w t : Bytes) (hw : 47 ∉ w) :
    (w ++ 47 :: t).dropWhile (· != 47) = 47 :: t := by
  induction w with
  | nil => simp
  | cons a r ih =>
    have ha : a ≠ 47 := fun e => hw (by simp [e])
    simp [ha, ih (fun e => hw (by simp [e]))]

/-- `os.path.dirname(h + '/' + w)` when `w` has no separator -/
theorem dirname_append (h w : Bytes) (hw : 47 ∉ w) :
    dirname (h ++ 47 :: w) = if rstripSlash h = [] then h ++ [47] else rstripSlash h := by
  unfold dirname
  have : ((h ++ 47 :: w).reverse.dropWhile (· != 47)).reverse = h ++ [47] := by
    have e : (h ++ 47 :: w).reverse = w.reverse ++ 47 :: h.reverse := by simp
    rw [e, dropWhile_ne_append _ _ (fun hc => hw (List.mem_reverse.mp hc))]
    simp
  simp only [this, rstripSlash_concat_sep]
  by_cases hs : rstripSlash h = [] <;> simp [hs]

theorem seg_quote {c : Bytes} (h : Seg c) : Seg (quote c) :=
  ⟨fun e => h.1 (quote_eq_nil e), quote_noSep h.2⟩

theorem join_last_ne_sep (cs : List Bytes) (hne : cs ≠ []) (h : ∀ c ∈ cs, Seg c) :
    ∃ h' x, join cs = h' ++ [x] ∧ x ≠ 47 := by
  induction cs with
  | nil => exact absurd rfl hne
  | cons a t ih =>
    cases t with
    | nil =>
      have ha := h a (by simp)
      simp only [join]
      have hne' : a ≠ [] := ha.1
      refine ⟨a.dropLast, a.getLast hne', (List.dropLast_concat_getLast hne').symm, ?_⟩
      intro e; exact ha.2 (e ▸ List.getLast_mem hne')
    | cons b r =>
      obtain ⟨h', x, e, hx⟩ := ih (by simp) (fun c hc => h c (by simp [hc]))
      refine ⟨a ++ 47 :: h', x, ?_, hx⟩
      simp only [join]; rw [e]; simp

/-- `os.path.dirname` of the rendered URL of a normal absolute path with components `init ++ [c]` -/
theorem dirname_fileUrl (n : Nat) (hn : n = 1 ∨ n = 2) (init : List Bytes) (c : Bytes)
    (hinit : ∀ x ∈ init, Seg x) (hc : Seg c) :
    dirname (filePre ++ quote (List.replicate n 47 ++ join (init ++ [c]))) =
      if init = [] then fileRel else filePre ++ quote (List.replicate n 47 ++ join init) := by
  by_cases hi : init = []
  · subst hi
    simp only [List.nil_append, join, if_true, quote_replicate_sep]
    rcases hn with rfl | rfl
    · have : filePre ++ (List.replicate 1 47 ++ quote c) = (filePre ++ []) ++ 47 :: quote c := by simp
      rw [this, dirname_append _ _ (seg_quote hc).2]
      decide
    · have : filePre ++ (List.replicate 2 47 ++ quote c) = (filePre ++ [47]) ++ 47 :: quote c := by
        simp [List.replicate_succ]
      rw [this, dirname_append _ _ (seg_quote hc).2]
      decide
  · simp only [hi, if_false]
    rw [join_concat init c hi, quote_replicate_sep, quote_append, quote_cons, qc_47, quote_join,
      quote_replicate_sep, quote_join]
    have hq : ∀ x ∈ init.map quote, Seg x := by
      intro x hx
      obtain ⟨y, hy, rfl⟩ := List.mem_map.mp hx
      exact seg_quote (hinit y hy)
    obtain ⟨h', x, e, hx⟩ := join_last_ne_sep (init.map quote) (by simpa using hi) hq
    have : filePre ++ (List.replicate n 47 ++ (join (init.map quote) ++ ([47] ++ quote c))) =
        (filePre ++ List.replicate n 47 ++ join (init.map quote)) ++ 47 :: quote c := by simp
    rw [this, dirname_append _ _ (seg_quote hc).2, e]
    have e2 : filePre ++ List.replicate n 47 ++ (h' ++ [x]) = (filePre ++ List.replicate n 47 ++ h') ++ [x] := by simp
    rw [e2, rstripSlash_last_ne _ _ hx]
    simp


theorem prefix_concat_of_ne {α} {a l : List α} {c : α} (h : a <+: l ++ [c]) (hne : a ≠ l ++ [c]) : a <+: l := by
  obtain ⟨t, ht⟩ := h
  rcases List.eq_nil_or_concat t with rfl | ⟨t', x, rfl⟩
  · simp at ht; exact absurd ht hne
  · have : a ++ t' ++ [x] = l ++ [c] := by simpa using ht
    have := List.append_inj' this rfl
    exact ⟨t', this.1⟩

/-- The base-inheritance step (`BaseUrlOption.__get__`: the public `base_url` of a resource with a
    URL is `os.path.dirname(url)`), for the URL of any admitted local resource: if the sandbox
    components `d0` are a proper prefix of the components of the resource's path, then they are
    still a prefix of the components of the normalised directory that its children get as base. -/
theorem childBase_confined (cwd j : Bytes) (hj : isAbsPath j = true) (d0 : List Bytes)
    (hpre : d0 <+: comps (normpath j)) (hne : d0 ≠ comps (normpath j)) (d' du' : Bytes)
    (h : normalizeUrl cwd none (dirname (filePre ++ quote (normpath j))) = .file d' du') :
    d0 <+: comps d' := by
  have hc := (normpath_abs j hj).2
  have hclean := normComps_clean j
  rcases normpath_shape j with hdot | ⟨n, N, hN, hn2, -, -, hni, hNe⟩
  · have := (normpath_abs j hj).1
    rw [hdot] at this; simp [dot, startsWith] at this
  · have hpos := initialSlashes_pos hj
    have hn : n = 1 ∨ n = 2 := by omega
    have hb : (n != 0) = true := by simp; omega
    rw [hb] at hNe
    rw [hc, ← hNe] at hpre hne
    rw [← hNe] at hclean
    rcases List.eq_nil_or_concat N with rfl | ⟨init, c, hNc⟩
    · have : d0 = [] := List.prefix_nil.mp hpre
      exact absurd this hne
    · rw [List.concat_eq_append] at hNc
      subst hNc
      by_cases hi : init = []
      · subst hi
        have : d0 = [] := by
          obtain ⟨t, ht⟩ := hpre
          cases d0 with
          | nil => rfl
          | cons a r =>
            simp at ht
            obtain ⟨rfl, hr, -⟩ := ht
            subst hr
            exact absurd rfl hne
        rw [this]; exact List.nil_prefix
      · have hpre' : d0 <+: init := prefix_concat_of_ne hpre hne
        have hsi : ∀ x ∈ init, Seg x := fun x hx => (hclean x (by simp [hx])).seg
        have hsc : Seg c := (hclean c (by simp)).seg
        rw [hN, dirname_fileUrl n hn init c hsi hsc] at h
        simp only [hi, if_false] at h
        have hqa : isAbsPath (List.replicate n 47 ++ join init) = true := by
          rcases hn with rfl | rfl <;> simp [isAbsPath, startsWith, List.replicate_succ]
        rw [normalizeUrl_fileUrl cwd none _ hqa] at h
        split at h
        · cases h
        · simp only [mkFile, Norm.file.injEq] at h
          have hnorm : Normal (n != 0) init := ⟨0, init, by simp, fun x hx => hclean x (by simp [hx]), fun _ => rfl⟩
          rw [normpath_of_normal n init hn2 hnorm (fun e => absurd e hi)] at h
          rw [← h.1, comps_replicate_append, comps_join_seg init hsi]
          exact hpre'


/-! ### classification of a string that starts with a scheme -/

/-- a syntactically valid URL scheme: a letter followed by scheme characters -/
def SchemeOK (s : Bytes) : Prop := (∃ c t, s = c :: t ∧ isAlpha c = true) ∧ ∀ x ∈ s, isSchemeChar x = true

theorem scanScheme_scheme (s r acc : Bytes) (hs : ∀ x ∈ s, isSchemeChar x = true) :
    scanScheme acc (s ++ 58 :: r) = some (acc.reverse ++ s, r) := by
  induction s generalizing acc with
  | nil => simp [scanScheme]
  | cons x t ih =>
    have hx := hs x (by simp)
    have h58 : x ≠ 58 := by intro e; subst e; revert hx; decide
    simp only [List.cons_append, scanScheme, h58, if_false, hx, if_true]
    rw [ih _ (fun y hy => hs y (by simp [hy]))]
    simp

theorem schemeChar_gt {x : Nat} (h : isSchemeChar x = true) : 32 < x ∧ x ≠ 9 ∧ x ≠ 10 ∧ x ≠ 13 := by
  unfold isSchemeChar isAlpha isDigit at h
  simp only [Bool.or_eq_true, Bool.and_eq_true, decide_eq_true_eq, beq_iff_eq] at h
  omega

/-- `urlsplit(scheme + ':' + anything).scheme == scheme.lower()` -/
theorem urlsplit_scheme (s rest : Bytes) (hs : SchemeOK s) :
    (urlsplit (s ++ 58 :: rest)).scheme = s.map lower := by
  obtain ⟨⟨c, t, rfl, hc⟩, hall⟩ := hs
  have hc32 := (schemeChar_gt (hall c (by simp))).1
  have hc0 : isC0OrSpace c = false := by unfold isC0OrSpace; simp; omega
  have hd : (c :: t ++ 58 :: rest).dropWhile isC0OrSpace = c :: t ++ 58 :: rest := by
    simp [hc0]
  have hf : (c :: t ++ 58 :: rest).filter (fun x => !(x == 9 || x == 10 || x == 13)) =
      c :: t ++ 58 :: rest.filter (fun x => !(x == 9 || x == 10 || x == 13)) := by
    rw [List.filter_append]
    congr 1
    · apply List.filter_eq_self.mpr
      intro x hx
      have := schemeChar_gt (hall x hx)
      simp; omega
  unfold urlsplit
  simp only [hd, hf]
  have := scanScheme_scheme (c :: t) (rest.filter (fun x => !(x == 9 || x == 10 || x == 13))) [] hall
  simp only [List.reverse_nil, List.nil_append] at this
  simp only [splitScheme, List.cons_append, hc, if_true]
  simp only [List.cons_append] at this
  rw [this]

/-- A string that starts with a non-local scheme and ':' is never classified as a local URL, and is
    classified as remote unless it contains a line feed (`is_remote_url` / `is_local_url`,
    urls.py:79-113) — whatever follows the colon. -/
theorem scheme_prefixed_class (s rest : Bytes) (hs : SchemeOK s) (hloc : isLocalScheme (s.map lower) = false) :
    classify (s ++ 58 :: rest) ≠ .loc ∧
      ((s ++ 58 :: rest).contains 10 = false → classify (s ++ 58 :: rest) = .remote) := by
  obtain ⟨⟨c, t, rfl, hc⟩, hall⟩ := hs
  have hc32 := (schemeChar_gt (hall c (by simp))).1
  have hsp : isSpace c = false := by unfold isSpace; simp; omega
  have hl : lstrip (c :: t ++ 58 :: rest) = c :: t ++ 58 :: rest := by simp [lstrip, hsp]
  -- strip keeps the scheme and the colon: the colon is not white space
  have hstrip : ∃ rest', strip (c :: t ++ 58 :: rest) = c :: t ++ 58 :: rest' := by
    unfold strip
    rw [hl]
    have e : (c :: t ++ 58 :: rest).reverse = rest.reverse ++ 58 :: (c :: t).reverse := by simp
    rw [e]
    have hdw : ∀ (a b : Bytes), (∃ y ys, b = y :: ys ∧ isSpace y = false) →
        ∃ a', (a ++ b).dropWhile isSpace = a' ++ b := by
      intro a b hb
      induction a with
      | nil =>
        obtain ⟨y, ys, rfl, hy⟩ := hb
        exact ⟨[], by simp [hy]⟩
      | cons z zs ih =>
        obtain ⟨a', ha'⟩ := ih
        by_cases hz : isSpace z = true
        · exact ⟨a', by simp [hz, ha']⟩
        · exact ⟨z :: zs, by simp [hz]⟩
    obtain ⟨a', ha'⟩ := hdw rest.reverse (58 :: (c :: t).reverse) ⟨58, _, rfl, by decide⟩
    rw [ha']
    exact ⟨a'.reverse, by simp⟩
  obtain ⟨rest', hst⟩ := hstrip
  have hsch : (urlsplit (strip (c :: t ++ 58 :: rest))).scheme = (c :: t).map lower := by
    rw [hst]; exact urlsplit_scheme (c :: t) rest' ⟨⟨c, t, rfl, hc⟩, hall⟩
  have h60 : startsWith (lstrip (c :: t ++ 58 :: rest)) [60] = false := by
    rw [hl]; simp [startsWith]; intro e; subst e; revert hc; decide
  unfold classify
  rw [h60, hsch, hloc]
  constructor
  · split <;> simp
  · intro h10; rw [h10]; simp


end XsVerif.Access
