import XsVerif.Model.Datatypes
import XsVerif.Model.DatatypesDate
import XsVerif.Model.DatatypesEnc
import XsVerif.Lemmas.Datatypes
import XsVerif.Lemmas.DatatypesDec
import XsVerif.Lemmas.DatatypesDateLex
namespace XsVerif.Datatypes

/-
  C02, xs:date: the text written by `str(Date)` (`dateStr`) for a decoded xs:date decodes
  (`parseDt .date`) to the same value, on the years where `iso_year` undoes the year shift.
  Core Lean only.
-/

/-- years for which `str(Date)` is judged: in XSD 1.1 years below -9999 are written without undoing the
    year shift (finding C02-F10) -/
def DateRtJudged (v11 : Bool) (y : Int) : Prop := ¬ (v11 = true ∧ y < -9999)

instance (v11 : Bool) (y : Int) : Decidable (DateRtJudged v11 y) := by
  unfold DateRtJudged; infer_instance

/-! ## `'{:0w}'.format(n)` -/

theorem natDigits_len_le (w n : Nat) (hw : 0 < w) (h : n < 10 ^ w) : (natDigits n).length ≤ w := by
  by_cases h0 : n = 0
  · subst h0; rw [natDigits_zero]; simp only [List.length_cons, List.length_nil]; omega
  · have h1 := natDigits_lb n (by omega)
    have h2 : (natDigits n).length - 1 < w :=
      (Nat.pow_lt_pow_iff_right (by omega : 1 < 10)).mp (Nat.lt_of_le_of_lt h1 h)
    omega

/-- a number below `10^w` is written with exactly `w` digits that denote it -/
theorem padNat_spec (w n : Nat) (hw : 0 < w) (h : n < 10 ^ w) :
    (padNat w n).length = w ∧ (∀ c ∈ padNat w n, isDig c = true) ∧ posVal (padNat w n) = n := by
  have hl := natDigits_len_le w n hw h
  obtain ⟨-, -, hd⟩ := natDigits_spec n
  simp only [padNat]
  refine ⟨?_, ?_, ?_⟩
  · simp only [List.length_append, List.length_replicate]; omega
  · intro c hc
    rcases List.mem_append.mp hc with hc | hc
    · rw [(List.mem_replicate.mp hc).2]; decide
    · exact hd c hc
  · rw [posVal_append, posVal_replicate_zero, posVal_natDigits]; omega

/-- `'{:02}'.format(n)` for n ≤ 99: two digits -/
theorem padNat2 (n : Nat) (h : n ≤ 99) :
    ∃ a b, padNat 2 n = [a, b] ∧ isDig a = true ∧ isDig b = true ∧ digVal a * 10 + digVal b = n := by
  obtain ⟨h1, h2, h3⟩ := padNat_spec 2 n (by omega) (by omega)
  generalize padNat 2 n = l at h1 h2 h3
  rcases l with _ | ⟨a, _ | ⟨b, _ | ⟨c, t⟩⟩⟩
  · simp at h1
  · simp at h1
  · refine ⟨a, b, rfl, h2 a (by simp), h2 b (by simp), ?_⟩
    simpa [posVal] using h3
  · simp at h1

/-- `str(int)` of a number from 10000 on: at least five digits, no leading zero -/
theorem natDigits_big (n : Nat) (h : 10000 ≤ n) :
    4 < (natDigits n).length ∧ (natDigits n).head? ≠ some '0' ∧
    (∀ c ∈ natDigits n, isDig c = true) ∧ posVal (natDigits n) = n := by
  obtain ⟨-, hne, hd⟩ := natDigits_spec n
  have hv := posVal_natDigits n
  have hlt := posVal_lt (natDigits n) hd
  rw [hv] at hlt
  refine ⟨?_, ?_, hd, hv⟩
  · exact (Nat.pow_lt_pow_iff_right (by omega : 1 < 10)).mp
      (Nat.lt_of_le_of_lt (show 10 ^ 4 ≤ n by omega) hlt)
  · cases hs : natDigits n with
    | nil => exact absurd hs hne
    | cons x r =>
      have := natDigits_head n (by omega) x r hs
      intro e
      simp only [List.head?_cons, Option.some.injEq] at e
      subst e
      simp at this

/-! ## the time zone -/

theorem tzStr_roundtrip (z : Int) (hz : z.natAbs ≤ 840) : parseTz (tzStr (some z)) = some (some z) := by
  by_cases h0 : z = 0
  · subst h0; rfl
  · obtain ⟨a, b, e1, ha, hb, hab⟩ := padNat2 (z.natAbs / 60) (by omega)
    obtain ⟨c, d, e2, hc, hd, hcd⟩ := padNat2 (z.natAbs % 60) (by omega)
    have hs : tzStr (some z) = [if z < 0 then '-' else '+', a, b, ':', c, d] := by
      simp [tzStr, h0, e1, e2]
    rw [hs]
    refine (parseTz_iff _ _).mpr (Or.inr (Or.inr ⟨_, a, b, c, d, rfl, ?_, ha, hb, hc, hd, ?_, ?_⟩))
    · by_cases hn : z < 0 <;> simp [hn]
    · rw [hab, hcd]; omega
    · rw [hab, hcd]
      by_cases hn : z < 0
      · simp only [hn, if_true]; congr 1; omega
      · simp only [hn, if_false]
        rw [if_neg (by decide)]
        congr 1; omega

/-- whatever time zone `parseTz` returns is written back in a form that `parseTz` reads as the same -/
theorem tz_roundtrip {s : Str} {tz : Tz} (h : TzLex s tz) : parseTz (tzStr tz) = some tz := by
  rcases h with ⟨-, rfl⟩ | ⟨-, rfl⟩ | ⟨sg, h1, h2, m1, m2, -, -, -, -, -, -, hr, rfl⟩
  · rfl
  · rfl
  · apply tzStr_roundtrip
    generalize digVal h1 * 10 + digVal h2 = H at hr ⊢
    generalize digVal m1 * 10 + digVal m2 = M at hr ⊢
    by_cases hs : sg = '-'
    · simp only [hs, if_true]; omega
    · simp only [hs, if_false]; omega

/-! ## the year -/

/-- a year written with `'{:04}'`, after an optional '-' -/
theorem year_small (v11 neg : Bool) (n : Nat) (y : Int) (hn : n ≤ 9999)
    (h0 : v11 = false → n ≠ 0)
    (hy : y = (if v11 = true ∧ (if neg then -(n : Int) else (n : Int)) ≤ 0
               then (if neg then -(n : Int) else (n : Int)) - 1
               else (if neg then -(n : Int) else (n : Int)))) :
    (∀ c ∈ padNat 4 n, isDig c = true) ∧ 4 ≤ (padNat 4 n).length ∧
    yearValue v11 neg (padNat 4 n) = some y := by
  obtain ⟨h1, h2, h3⟩ := padNat_spec 4 n (by omega) (by omega)
  refine ⟨h2, by omega, (yearValue_iff _ _ _ _).mpr ⟨by omega, ?_, ?_⟩⟩
  · rw [h3]; intro hv; have := h0 hv
    cases neg <;> simp <;> omega
  · rw [h3]; exact hy

/-- a year written with `str(int)`, after an optional '-' -/
theorem year_big (v11 neg : Bool) (n : Nat) (y : Int) (hn : 10000 ≤ n)
    (hy : y = (if v11 = true ∧ (if neg then -(n : Int) else (n : Int)) ≤ 0
               then (if neg then -(n : Int) else (n : Int)) - 1
               else (if neg then -(n : Int) else (n : Int)))) :
    (∀ c ∈ natDigits n, isDig c = true) ∧ 4 ≤ (natDigits n).length ∧
    yearValue v11 neg (natDigits n) = some y := by
  obtain ⟨h1, h2, h3, h4⟩ := natDigits_big n hn
  refine ⟨h3, by omega, (yearValue_iff _ _ _ _).mpr ⟨fun _ => h2, ?_, ?_⟩⟩
  · rw [h4]; intro _
    cases neg <;> simp <;> omega
  · rw [h4]; exact hy

/-- `iso_year` of a stored year is an optional '-' and a digit run that `fromstring` maps back to the
    stored year -/
theorem isoYear_parse (v11 : Bool) (y : Int) (hy0 : y ≠ 0) (hg : DateRtJudged v11 y) :
    ∃ neg ds, isoYear v11 y = (if neg then ['-'] else []) ++ ds ∧ (∀ c ∈ ds, isDig c = true) ∧
      4 ≤ ds.length ∧ yearValue v11 neg ds = some y := by
  unfold DateRtJudged at hg
  by_cases c1 : -9999 ≤ y ∧ y < -1
  · have e : isoYear v11 y =
        '-' :: padNat 4 (if v11 then y + 1 else y).natAbs := by
      have : (if v11 then y + 1 else y) < 0 := by cases v11 <;> simp <;> omega
      simp [isoYear, c1.1, c1.2, this]
    obtain ⟨k1, k2, k3⟩ := year_small v11 true (if v11 then y + 1 else y).natAbs y
      (by cases v11 <;> simp <;> omega) (by intro hv; subst hv; simp; omega)
      (by cases v11 <;> simp <;> omega)
    exact ⟨true, _, by rw [e]; rfl, k1, k2, k3⟩
  · by_cases c2 : y = -1
    · subst c2
      cases v11 with
      | true => exact ⟨false, "0000".toList, by decide, by decide, by decide, by decide⟩
      | false => exact ⟨true, "0001".toList, by decide, by decide, by decide, by decide⟩
    · by_cases c3 : 0 ≤ y ∧ y ≤ 9999
      · have e : isoYear v11 y = padNat 4 y.natAbs := by
          have : ¬ y < -1 := by omega
          simp [isoYear, c3.1, c3.2, this, c2]
        obtain ⟨k1, k2, k3⟩ := year_small v11 false y.natAbs y (by omega) (by intro _; omega)
          (by simp; omega)
        exact ⟨false, _, by rw [e]; rfl, k1, k2, k3⟩
      · have e : isoYear v11 y = intToStr y := by
          have a1 : ¬ (-9999 ≤ y ∧ y < -1) := c1
          have a3 : ¬ (0 ≤ y ∧ y ≤ 9999) := c3
          simp only [isoYear, Bool.and_eq_true, decide_eq_true_eq, a1, a3, if_false, beq_iff_eq, c2]
        by_cases hn : y < 0
        · have hv : v11 = false := by
            cases v11 with
            | false => rfl
            | true => exact absurd ⟨rfl, by omega⟩ hg
          subst hv
          obtain ⟨k1, k2, k3⟩ := year_big false true y.natAbs y (by omega) (by simp; omega)
          exact ⟨true, _, by rw [e]; simp [intToStr, hn], k1, k2, k3⟩
        · obtain ⟨k1, k2, k3⟩ := year_big v11 false y.natAbs y (by omega) (by simp; omega)
          exact ⟨false, _, by rw [e]; simp [intToStr, hn], k1, k2, k3⟩

/-! ## assembly -/

theorem daysInMonth_le (leap : Bool) (m : Nat) : daysInMonth leap m ≤ 31 := by
  unfold daysInMonth
  split
  · split <;> omega
  · split <;> omega

/-- FULL statement (false for the code, see the counterexample):
      ∀ v11 s v, parseDt .date v11 s = some v → parseDt .date v11 (dateStr v11 v) = some v
    i.e. the text written for a decoded xs:date decodes to the same value; proved with the guard: -/
theorem date_roundtrip_partial (v11 : Bool) (s : Str) (v : DtVal)
    (h : parseDt .date v11 s = some v) (hg : DateRtJudged v11 v.year) :
    parseDt .date v11 (dateStr v11 v) = some v := by
  obtain ⟨neg, ds, r1, r2, mo, r3, r4, d, r5, tz, y, -, -, -, -, -, hz, -, hm⟩ :=
    (parseDt_date_iff v11 s v).mp h
  obtain ⟨hy0, hyb, a1, a2, a3, a4, rfl⟩ := (mkDt_date_iff _ _ _ _ _ _).mp hm
  have hz' := tz_roundtrip ((parseTz_iff _ _).mp hz)
  simp only at hg
  obtain ⟨neg', ds', hiso, hdig, hlen, hyv⟩ := isoYear_parse v11 y hy0 hg
  have hd31 := Nat.le_trans a4 (daysInMonth_le _ _)
  obtain ⟨m1, m2, em, hm1, hm2, hmv⟩ := padNat2 mo (by omega)
  obtain ⟨d1, d2, ed, hd1, hd2, hdv⟩ := padNat2 d (by omega)
  refine (parseDt_date_iff v11 _ _).mpr
    ⟨neg', ds', '-' :: m1 :: m2 :: '-' :: d1 :: d2 :: tzStr tz, m1 :: m2 :: '-' :: d1 :: d2 :: tzStr tz,
     mo, '-' :: d1 :: d2 :: tzStr tz, d1 :: d2 :: tzStr tz, d, tzStr tz, tz, y, ?_,
     (expect_iff _ _ _).mpr rfl, (take2_iff _ _ _).mpr ⟨m1, m2, rfl, hm1, hm2, hmv.symm⟩,
     (expect_iff _ _ _).mpr rfl, (take2_iff _ _ _).mpr ⟨d1, d2, rfl, hd1, hd2, hdv.symm⟩,
     hz', hyv, hm⟩
  have := scanYear_of neg' ds' (m1 :: m2 :: '-' :: d1 :: d2 :: tzStr tz) hdig hlen
  simp only [dateStr, hiso, em, ed]
  simpa using this

/-- C02-F10: XSD 1.1, '-9999-01-01' decodes to year -10000, is written '-10000-01-01', which decodes to -10001 -/
theorem date_roundtrip_counterexample :
    parseDt .date true "-9999-01-01".toList = some ⟨.date, -10000, 1, 1, 0, 0, 0, 0, none⟩ ∧
    dateStr true ⟨.date, -10000, 1, 1, 0, 0, 0, 0, none⟩ = "-10000-01-01".toList ∧
    parseDt .date true "-10000-01-01".toList = some ⟨.date, -10001, 1, 1, 0, 0, 0, 0, none⟩ := by
  refine ⟨by decide, by decide, by decide⟩

/-- non-vacuity -/
example : dateStr true ⟨.date, -1, 2, 29, 0, 0, 0, 0, some (-300)⟩ = "0000-02-29-05:00".toList := by decide

/-- non-vacuity of the round trip: a leap day with a time zone, in the year written 0000 -/
example : parseDt .date true (dateStr true ⟨.date, -1, 2, 29, 0, 0, 0, 0, some (-300)⟩) =
    some ⟨.date, -1, 2, 29, 0, 0, 0, 0, some (-300)⟩ :=
  date_roundtrip_partial true "0000-02-29-05:00".toList _ (by decide) (by decide)

end XsVerif.Datatypes
