/-
  Lemmas about `Model/DatatypesPat`: the regular-expression matcher decides its language; the slot
  `context.patterns` is empty again after every decode that starts with an empty slot; the members of a union are
  decoded as on their own; the stateful decode is the plain `decode` of `Model/Datatypes` on types without patterns
  on restrictions of unions and without unions nested in unions.
-/
import XsVerif.Model.DatatypesPat
import XsVerif.Lemmas.Rx
import XsVerif.Lemmas.Datatypes

namespace XsVerif.Datatypes

theorem rxMatch_iff (r : CRx) (s : Str) : rxMatch r s = true ↔ CRx.Lang r s :=
  Rx.accepts_iff CClass.mem r s

theorem groupMatch_iff (g : List CRx) (s : Str) : groupMatch g s = true ↔ ∃ r ∈ g, CRx.Lang r s := by
  simp [groupMatch, rxMatch_iff]

theorem mkP_table (tab : PatTable) (tr : List (Nat × Str × Bool)) (id : Nat) (g : List CRx) (t : Str)
    (h : tab.lookup id = some g) : mkP tab tr id t = some true ↔ ∃ r ∈ g, CRx.Lang r t := by
  simp [mkP, h, groupMatch_iff]

/-! ### the slot -/

theorem foldItems_slot (f : Slot → Str → Out) (hf : ∀ σ w, (f σ w).2.1 = [] ∨ (f σ w).2.1 = σ) :
    ∀ (ws : List Str) (σ : Slot), (foldItems f σ ws).2 = [] ∨ (foldItems f σ ws).2 = σ
  | [], σ => by simp [foldItems]
  | w :: ws, σ => by
    simp only [foldItems]
    rcases hf σ w with h | h
    · rcases foldItems_slot f hf ws (f σ w).2.1 with h2 | h2
      · exact .inl h2
      · exact .inl (h2.trans h)
    · rcases foldItems_slot f hf ws (f σ w).2.1 with h2 | h2
      · exact .inl h2
      · exact .inr (h2.trans h)

mutual
/-- (a) a type whose primitive type is a union consumes whatever is in the slot; (b) any type leaves the slot
    empty or as it found it -/
theorem slot_inv (E : Env) (C : Conv) (chain : Bool) : (t : SType) → (σ : Slot) → (s : Str) →
    (primIsUnion t = true → (decodeS E C chain t σ s).2.1 = []) ∧
    ((decodeS E C chain t σ s).2.1 = [] ∨ (decodeS E C chain t σ s).2.1 = σ)
  | .builtin b, σ, s => by simp [decodeS, primIsUnion]
  | .restr base ws pat facets, σ, s => by
    have ih := slot_inv E C chain base
    simp only [decodeS, primIsUnion]
    cases hU : primIsUnion base with
    | true =>
      have := (ih (push chain σ pat) (normalize E.W ws s)).1 hU
      simp [this]
    | false =>
      simp only [Bool.false_eq_true, if_false, false_implies, true_and]
      exact (ih σ (normalize E.W ws s)).2
  | .list item, σ, s => by
    have ih := slot_inv E C chain item
    simp only [decodeS, primIsUnion, Bool.false_eq_true, false_implies, true_and]
    exact foldItems_slot _ (fun σ' w => (ih σ' w).2) _ σ
  | .union ms, σ, s => by
    have ih := slot_inv_all E C chain ms s
    simp [decodeS, primIsUnion, ih]
theorem slot_inv_all (E : Env) (C : Conv) (chain : Bool) : (ms : STypes) → (s : Str) →
    (decodeAllS E C chain ms [] s).2 = []
  | .nil, s => by simp [decodeAllS]
  | .cons t ts, s => by
    simp only [decodeAllS]
    rcases (slot_inv E C chain t [] s).2 with h | h <;> rw [h] <;> exact slot_inv_all E C chain ts s
end

theorem slot_empty (E : Env) (C : Conv) (chain : Bool) (t : SType) (s : Str) :
    (decodeS E C chain t [] s).2.1 = [] := by
  rcases (slot_inv E C chain t [] s).2 with h | h <;> exact h

/-- the members of a union are each decoded as on their own, from an empty slot -/
theorem decodeAllS_standalone (E : Env) (C : Conv) (chain : Bool) : (ms : STypes) → (s : Str) →
    (decodeAllS E C chain ms [] s).1 =
      ms.toList.map fun m => (m, (decodeS E C chain m [] s).1, (decodeS E C chain m [] s).2.2)
  | .nil, s => by simp [decodeAllS, STypes.toList]
  | .cons t ts, s => by
    simp only [decodeAllS, STypes.toList, List.map_cons, slot_empty E C chain t s]
    rw [decodeAllS_standalone E C chain ts s]

/-! ### union outcome -/

theorem slotErrs_nil (E : Env) (t : Str) : slotErrs E [] t = [] := by simp [slotErrs]

theorem slotErrs_single (E : Env) (p : Nat) (t : Str) : slotErrs E [p] t = patErrs E (some p) t := by
  simp only [slotErrs, List.flatMap_cons, List.flatMap_nil, List.append_nil, patErrs]
  cases h : E.P p t with
  | none => simp
  | some b => cases b <;> simp

theorem slotErrs_nil_iff (E : Env) (σ : Slot) (t : Str) :
    slotErrs E σ t = [] ↔ ∀ p ∈ σ, patErrs E (some p) t = [] := by
  unfold slotErrs
  constructor
  · intro h p hp
    split at h
    · rename_i heq
      exact (List.flatMap_eq_nil_iff.mp heq) p hp
    · simp at h
  · intro h
    have : (σ.flatMap fun p => patErrs E (some p) t) = [] := List.flatMap_eq_nil_iff.mpr h
    rw [this]

theorem firstValidM_some_iff (rs : List Tried) (x : Tried) :
    firstValidM rs = some x ↔
      ∃ pre post, rs = pre ++ x :: post ∧ (∀ y ∈ pre, y.2.1.valid = false) ∧ x.2.1.valid = true := by
  induction rs with
  | nil => simp [firstValidM]
  | cons a as ih =>
    simp only [firstValidM]
    cases ha : a.2.1.valid with
    | true =>
      simp only [if_true, Option.some.injEq]
      constructor
      · rintro rfl; exact ⟨[], as, rfl, by simp, ha⟩
      · rintro ⟨pre, post, h, hpre, hx⟩
        cases pre with
        | nil => simp at h; exact h.1
        | cons b bs =>
          simp at h
          have := hpre b (by simp)
          rw [← h.1, ha] at this; exact absurd this (by simp)
    | false =>
      simp only [Bool.false_eq_true, if_false, ih]
      constructor
      · rintro ⟨pre, post, h, hpre, hx⟩
        refine ⟨a :: pre, post, by simp [h], ?_, hx⟩
        intro y hy
        rcases List.mem_cons.mp hy with rfl | hy
        · exact ha
        · exact hpre y hy
      · rintro ⟨pre, post, h, hpre, hx⟩
        cases pre with
        | nil =>
          simp at h; rw [h.1] at ha; rw [ha] at hx; exact absurd hx (by simp)
        | cons b bs =>
          simp at h
          exact ⟨bs, post, h.2, fun y hy => hpre y (by simp [hy]), hx⟩

theorem firstNonDecodeM_invalid {rs : List Tried} {x : Tried}
    (h : firstNonDecodeM rs = some x) : x.2.1.valid = false := by
  induction rs with
  | nil => simp [firstNonDecodeM] at h
  | cons a as ih =>
    simp only [firstNonDecodeM] at h
    split at h
    · rename_i hc
      simp only [Option.some.injEq] at h; subst h
      simp only [Bool.and_eq_true, Bool.not_eq_true'] at hc
      exact hc.1
    · exact ih h

/-- the outcome of a union whose slot holds the groups `σ`: valid iff a first valid member exists and every
    group accepts the text as THAT member normalises it -/
theorem unionResS_valid_iff (E : Env) (σ : Slot) (s : Str) (rs : List Tried) :
    (unionResS E σ s rs).valid = true ↔
      ∃ x, firstValidM rs = some x ∧ slotErrs E σ (normalize E.W (wsOf x.1) s) = [] := by
  unfold unionResS
  cases hv : firstValidM rs with
  | some x =>
    obtain ⟨pre, post, -, -, hx⟩ := (firstValidM_some_iff rs x).mp hv
    have : x.2.1.errs = [] := by simpa [Res.valid] using hx
    simp [Res.valid, this]
  | none =>
    simp only [false_and, exists_false, iff_false, reduceCtorEq]
    cases hd : firstNonDecodeM rs with
    | some x =>
      have := firstNonDecodeM_invalid hd
      simp only [Res.valid, List.isEmpty_eq_false_iff] at this
      simp [Res.valid, this]
    | none => simp [Res.valid]

theorem unionResS_val (E : Env) (σ : Slot) (s : Str) (rs : List Tried) (x : Tried)
    (h : firstValidM rs = some x) : (unionResS E σ s rs).val = x.2.1.val := by
  simp [unionResS, h]

/-! ### types without unions: the stateful decode is `decode`, and the strict error class is that of the first
    error collected in lax mode -/

mutual
def unionFree : SType → Bool
  | .builtin _ => true
  | .restr base _ _ _ => unionFree base
  | .list item => unionFree item
  | .union _ => false
/-- no pattern on a restriction of a union, and the members of every union are free of unions -/
def flat : SType → Bool
  | .builtin _ => true
  | .restr base _ pat _ => flat base && (pat.isNone || !primIsUnion base)
  | .list item => flat item
  | .union ms => unionFreeAll ms
def unionFreeAll : STypes → Bool
  | .nil => true
  | .cons t ts => unionFree t && unionFreeAll ts
end

theorem unionFree_not_primIsUnion : (t : SType) → unionFree t = true → primIsUnion t = false
  | .builtin _, _ => rfl
  | .restr base _ _ _, h => by
    simp only [unionFree] at h; simp only [primIsUnion]; exact unionFree_not_primIsUnion base h
  | .list _, _ => rfl
  | .union _, h => by simp [unionFree] at h

theorem foldItems_pure (f : Slot → Str → Out) (g : Str → Res) (k : Str → Bool)
    (hf : ∀ w, f [] w = (g w, [], k w)) :
    ∀ ws : List Str, foldItems f [] ws = (ws.map fun w => (g w, k w), [])
  | [] => rfl
  | w :: ws => by simp [foldItems, hf, foldItems_pure f g k hf ws]

theorem headDecode_append {a b : List Err} (h : a ≠ []) : headDecode (a ++ b) = headDecode a := by
  cases a with
  | nil => exact absurd rfl h
  | cons x xs => cases x <;> rfl

theorem headDecode_facetErrs (E : Env) (fs : List Facet) (v : Val) : headDecode (facetErrs E fs v) = false := by
  unfold facetErrs
  cases (fs.filter fun f => !f.ok E v) <;> rfl

theorem headDecode_patErrs (E : Env) (pat : Option Nat) (t : Str) (b : List Err) (h : patErrs E pat t ≠ []) :
    headDecode (patErrs E pat t ++ b) = false := by
  unfold patErrs at h ⊢
  cases pat with
  | none => simp at h
  | some id =>
    simp only at h ⊢
    cases hp : E.P id t with
    | none => simp [headDecode]
    | some v => cases v <;> simp_all [headDecode]

theorem firstFailing_flatten (g : Str → Res) : ∀ ws : List Str,
    firstFailing (ws.map fun w => (g w, headDecode (g w).errs)) = headDecode ((ws.map fun w => (g w).errs).flatten)
  | [] => rfl
  | w :: ws => by
    simp only [List.map_cons, firstFailing, List.flatten_cons]
    cases he : (g w).errs with
    | nil => simp [Res.valid, he, firstFailing_flatten g ws]
    | cons e es =>
      have : (g w).valid = false := by simp [Res.valid, he]
      simp only [this, Bool.false_eq_true, if_false]
      rw [← he, headDecode_append (by simp [he])]

theorem decodeS_unionFree (E : Env) (C : Conv) (chain : Bool) : (t : SType) → (s : Str) → unionFree t = true →
    decodeS E C chain t [] s = (decode E C t s, [], headDecode (decode E C t s).errs)
  | .builtin b, s, _ => by simp [decodeS, decode]
  | .restr base ws pat facets, s, h => by
    simp only [unionFree] at h
    have ih := decodeS_unionFree E C chain base (normalize E.W ws s) h
    have hU := unionFree_not_primIsUnion base h
    simp only [decodeS, decode, hU, Bool.false_eq_true, if_false, ih]
    refine Prod.ext ?_ (Prod.ext rfl ?_)
    · simp only
      cases (decode E C base (normalize E.W ws s)).val <;> rfl
    · simp only
      by_cases hp : patErrs E pat (normalize E.W ws s) = []
      · simp only [hp, List.isEmpty_nil, Bool.true_and, List.nil_append]
        cases hb : (decode E C base (normalize E.W ws s)).errs with
        | cons e es => rw [← hb, headDecode_append (by simp [hb])]
        | nil =>
          simp only [List.nil_append]
          cases (decode E C base (normalize E.W ws s)).val with
          | none => rfl
          | atom a => exact (headDecode_facetErrs E facets _).symm
          | list l => exact (headDecode_facetErrs E facets _).symm
      · have he : (patErrs E pat (normalize E.W ws s)).isEmpty = false := by
          simpa [List.isEmpty_eq_false_iff] using hp
        rw [he, Bool.false_and, List.append_assoc, headDecode_patErrs E pat _ _ hp]
  | .list item, s, h => by
    simp only [unionFree] at h
    have ih := fun w => decodeS_unionFree E C chain item w h
    simp only [decodeS, decode]
    rw [foldItems_pure _ (decode E C item) (fun w => headDecode (decode E C item w).errs) ih]
    simp only [List.map_map]
    have hmap : (List.map ((fun x => x.1) ∘ fun w => (decode E C item w, headDecode (decode E C item w).errs))
        (words E.W (normalize E.W .collapse s))) = (words E.W (normalize E.W .collapse s)).map (decode E C item) := by
      apply List.map_congr_left; intro w _; rfl
    rw [hmap]
    refine Prod.ext rfl (Prod.ext rfl ?_)
    simp only
    unfold listRes
    cases hall : ((words E.W (normalize E.W .collapse s)).map (decode E C item)).all
        (fun r => (itemOf r).isSome) with
    | false => simp [headDecode]
    | true =>
      simp only [Bool.true_and, if_true]
      rw [firstFailing_flatten (decode E C item)]
      simp [List.map_map, Function.comp_def]
  | .union ms, s, h => by simp [unionFree] at h

theorem firstValidM_map (rs : List Tried) :
    (firstValidM rs).map (·.2.1) = firstValid (rs.map (·.2.1)) := by
  induction rs with
  | nil => rfl
  | cons x xs ih =>
    simp only [firstValidM, List.map_cons, firstValid]
    cases x.2.1.valid <;> simp [ih]

theorem firstNonDecodeM_map (rs : List Tried) (h : ∀ x ∈ rs, x.2.2 = headDecode x.2.1.errs) :
    (firstNonDecodeM rs).map (·.2.1) = firstNonDecode (rs.map (·.2.1)) := by
  induction rs with
  | nil => rfl
  | cons x xs ih =>
    have hx := h x (by simp)
    have ih' := ih (fun y hy => h y (by simp [hy]))
    simp only [firstNonDecodeM, List.map_cons, firstNonDecode, hx, Res.valid]
    cases he : x.2.1.errs with
    | nil => simp [ih', headDecode]
    | cons e es => cases e <;> simp [ih', headDecode]

/-- with nothing in the slot, and members whose strict error class is that of their first lax error, the union is
    the union of `Model/Datatypes` -/
theorem unionResS_nil (E : Env) (s : Str) (rs : List Tried) (h : ∀ x ∈ rs, x.2.2 = headDecode x.2.1.errs) :
    unionResS E [] s rs = unionRes (rs.map (·.2.1)) := by
  have h1 := firstValidM_map rs
  have h2 := firstNonDecodeM_map rs h
  unfold unionResS unionRes
  cases hv : firstValidM rs with
  | some x =>
    rw [hv] at h1; simp only [Option.map_some] at h1
    simp [← h1, slotErrs_nil]
  | none =>
    rw [hv] at h1; simp only [Option.map_none] at h1
    rw [← h1]
    cases hd : firstNonDecodeM rs with
    | some x =>
      rw [hd] at h2; simp only [Option.map_some] at h2
      simp [← h2, slotErrs_nil]
    | none =>
      rw [hd] at h2; simp only [Option.map_none] at h2
      simp [← h2]

theorem decodeAllS_unionFree (E : Env) (C : Conv) (chain : Bool) : (ms : STypes) → (s : Str) →
    unionFreeAll ms = true →
    (decodeAllS E C chain ms [] s).1.map (·.2.1) = decodeAll E C ms s ∧
    (∀ x ∈ (decodeAllS E C chain ms [] s).1, x.2.2 = headDecode x.2.1.errs)
  | .nil, s, _ => by simp [decodeAllS, decodeAll]
  | .cons t ts, s, h => by
    simp only [unionFreeAll, Bool.and_eq_true] at h
    have h1 := decodeS_unionFree E C chain t s h.1
    have h2 := decodeAllS_unionFree E C chain ts s h.2
    simp only [decodeAllS, decodeAll, h1, List.map_cons, h2.1, List.mem_cons, true_and]
    rintro x (rfl | hx)
    · rfl
    · exact h2.2 x hx

theorem decodeS_flat (E : Env) (C : Conv) (chain : Bool) : (t : SType) → (s : Str) → flat t = true →
    (decodeS E C chain t [] s).1 = decode E C t s
  | .builtin b, s, _ => by simp [decodeS, decode]
  | .restr base ws pat facets, s, h => by
    simp only [flat, Bool.and_eq_true, Bool.or_eq_true, Option.isNone_iff_eq_none, Bool.not_eq_true'] at h
    have ih := decodeS_flat E C chain base (normalize E.W ws s) h.1
    simp only [decodeS, decode]
    cases hU : primIsUnion base with
    | true =>
      have hp : pat = Option.none := by
        rcases h.2 with h2 | h2
        · exact h2
        · rw [hU] at h2; exact absurd h2 (by simp)
      subst hp
      simp only [push, if_true, ih, patErrs, List.nil_append]
      cases (decode E C base (normalize E.W ws s)).val <;> rfl
    | false =>
      simp only [Bool.false_eq_true, if_false, ih]
      cases (decode E C base (normalize E.W ws s)).val <;> rfl
  | .list item, s, h => by
    simp only [flat] at h
    have ih := fun w => decodeS_flat E C chain item w h
    simp only [decodeS, decode]
    have : ∀ ws : List Str, ((foldItems (fun σ' w => decodeS E C chain item σ' w) [] ws).1.map (·.1)) =
        ws.map (decode E C item) := by
      intro ws
      induction ws with
      | nil => rfl
      | cons w ws ihw =>
        simp only [foldItems, List.map_cons, slot_empty E C chain item w, ih w]
        rw [ihw]
    rw [this]
  | .union ms, s, h => by
    simp only [flat] at h
    have hm := decodeAllS_unionFree E C chain ms s h
    simp only [decodeS, decode]
    rw [unionResS_nil E s _ hm.2, hm.1]

end XsVerif.Datatypes
