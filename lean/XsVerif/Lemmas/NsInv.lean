/-
  C17 — the mapper invariant under the stacked branch of `set_xmlns_context` (helper form; the property
  theorems that use it are in Props/C17.lean).
-/
import XsVerif.Model.NsMapper
import XsVerif.Lemmas.NsMapper
import XsVerif.Lemmas.NsStack
import XsVerif.Lemmas.NsSpec
set_option linter.unusedSimpArgs false
namespace XsVerif.Props.C17
open XsVerif.NsMapper XsVerif.NsMapper.Map XsVerif.NsMapper.Stack

theorem popLoop_good (obj level : Nat) : ∀ (st : List Ctx) (r : Option (Map × Map)),
    (∀ c ∈ st, Good c.ns c.rev) → (∀ x, r = some x → Good x.1 x.2) →
    (∀ c ∈ (popLoop obj level st r).1, Good c.ns c.rev) ∧
    (∀ x, (popLoop obj level st r).2.1 = some x → Good x.1 x.2) := by
  intro st
  induction st with
  | nil => intro r _ hr; simpa [popLoop] using hr
  | cons c rest ih =>
    intro r hs hr
    unfold popLoop
    split
    · exact ⟨hs, hr⟩
    · split
      · exact ⟨hs, hr⟩
      · apply ih
        · exact fun c' hc' => hs c' (List.mem_cons_of_mem _ hc')
        · intro x hx; cases hx; exact hs c List.mem_cons_self

/-- namespaces in force after the pop phase of `set_xmlns_context` -/
def nsAfterPop (m : Mapper) (obj level : Nat) : Map :=
  match (popLoop obj level m.stack none).2.1 with
  | some x => x.1
  | none => m.ns

theorem setContext_stacked_inv_aux (v : Variant) (m : Mapper) (obj level : Nat) (decl : Xmlns)
    (hi : Inv m) (hd : NodupKeys decl)
    (hv : v = .repaired ∨ SingleRebind (nsAfterPop m obj level) decl) :
    Inv (setContext v .stacked m obj level decl).m := by
  obtain ⟨hg, hs⟩ := hi
  have hp := popLoop_good obj level m.stack none hs (by simp)
  unfold setContext
  unfold nsAfterPop at hv
  generalize popLoop obj level m.stack none = res at hp hv
  obtain ⟨stack, restored, found⟩ := res
  simp only at hp hv ⊢
  have hcur : Good (match restored with | some (n, _) => n | none => m.ns)
      (match restored with | some (_, r) => r | none => m.rev) := by
    cases restored with
    | none => exact hg
    | some x => exact hp.2 x rfl
  have hns : (match restored with | some x => x.1 | none => m.ns) =
      (match restored with | some (n, _) => n | none => m.ns) := by
    cases restored <;> rfl
  rw [hns] at hv
  cases restored with
  | none =>
    simp only at hcur hv ⊢
    cases found with
    | some x => by_cases hx : x.isEmpty = true <;> simp only [hx, if_true, if_false] <;> exact ⟨hcur, hp.1⟩
    | none =>
      simp only [show (Mode.stacked = Mode.none) = False by simp, if_false]
      by_cases hx : decl.isEmpty = true <;> simp only [hx, if_true, if_false]
      · exact ⟨hcur, hp.1⟩
      · refine ⟨⟨stacked_step_reverseOk level hcur.2 hd hv hcur.1, nodup_update hcur.2 _⟩, ?_⟩
        intro c hc
        rcases List.mem_cons.mp hc with e | e
        · subst e; exact hcur
        · exact hp.1 c e
  | some x =>
    obtain ⟨n, r⟩ := x
    simp only at hcur hv ⊢
    cases found with
    | some x => by_cases hx : x.isEmpty = true <;> simp only [hx, if_true, if_false] <;> exact ⟨hcur, hp.1⟩
    | none =>
      simp only [show (Mode.stacked = Mode.none) = False by simp, if_false]
      by_cases hx : decl.isEmpty = true <;> simp only [hx, if_true, if_false]
      · exact ⟨hcur, hp.1⟩
      · refine ⟨⟨stacked_step_reverseOk level hcur.2 hd hv hcur.1, nodup_update hcur.2 _⟩, ?_⟩
        intro c hc
        rcases List.mem_cons.mp hc with e | e
        · subst e; exact hcur
        · exact hp.1 c e

end XsVerif.Props.C17
