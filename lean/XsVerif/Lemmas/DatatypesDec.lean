import XsVerif.Model.Datatypes
import XsVerif.Lemmas.Datatypes
namespace XsVerif.Datatypes

theorem isDig_iff (c : Char) : isDig c = true ↔ 48 ≤ c.toNat ∧ c.toNat ≤ 57 := by
  simp [isDig, Char.le_def, UInt32.le_iff_toNat_le]

theorem digVal_le (c : Char) (h : isDig c = true) : digVal c ≤ 9 := by
  have := (isDig_iff c).mp h
  unfold digVal; omega

theorem char_eq_zero_iff (c : Char) : (c == '0') = true ↔ c.toNat = 48 := by
  constructor
  · intro h; have := eq_of_beq h; subst this; rfl
  · intro h
    have : c = Char.ofNat c.toNat := (Char.ofNat_toNat c).symm
    rw [h] at this; subst this; rfl

theorem digVal_zero (c : Char) (h : (c == '0') = true) : digVal c = 0 := by
  have := (char_eq_zero_iff c).mp h
  unfold digVal; omega

theorem digVal_pos (c : Char) (hd : isDig c = true) (h : (c == '0') = false) : 1 ≤ digVal c := by
  have h1 := (isDig_iff c).mp hd
  have h2 : ¬ c.toNat = 48 := fun e => by
    have := (char_eq_zero_iff c).mpr e; simp [this] at h
  unfold digVal; omega

theorem posVal_lt (s : Str) (h : ∀ c ∈ s, isDig c = true) : posVal s < 10 ^ s.length := by
  induction s with
  | nil => simp [posVal]
  | cons c cs ih =>
    have h1 := digVal_le c (h c (by simp))
    have h2 := ih (fun x hx => h x (by simp [hx]))
    simp only [posVal, List.length_cons, Nat.pow_succ]
    have : digVal c * 10 ^ cs.length ≤ 9 * 10 ^ cs.length := Nat.mul_le_mul_right _ h1
    omega

theorem posVal_append (a b : Str) : posVal (a ++ b) = posVal a * 10 ^ b.length + posVal b := by
  induction a with
  | nil => simp [posVal]
  | cons c cs ih =>
    simp only [List.cons_append, posVal, ih, List.length_append, Nat.pow_add]
    grind

theorem posVal_replicate_zero (k : Nat) : posVal (List.replicate k '0') = 0 := by
  induction k with
  | zero => rfl
  | succ k ih => simp [List.replicate_succ, posVal, ih, digVal]


/-- number of integer digits: `I` is the length of the decimal numeral of `q` (0 for 0) -/
def IntDigits (q I : Nat) : Prop := (q = 0 ∧ I = 0) ∨ (0 < I ∧ 10 ^ (I - 1) ≤ q ∧ q < 10 ^ I)

/-- Lemma A: `lstrip('0')` of a digit string leaves the numeral of its value -/
theorem dropZeros_spec (ds : Str) (h : ∀ c ∈ ds, isDig c = true) :
    IntDigits (posVal ds) (ds.dropWhile (· == '0')).length := by
  induction ds with
  | nil => left; simp [posVal]
  | cons c cs ih =>
    have hcs : ∀ x ∈ cs, isDig x = true := fun x hx => h x (by simp [hx])
    by_cases hc : (c == '0') = true
    · simp only [List.dropWhile_cons, hc, if_true, posVal, digVal_zero c hc, Nat.zero_mul, Nat.zero_add]
      exact ih hcs
    · have hc' : (c == '0') = false := by simpa using hc
      simp only [List.dropWhile_cons, hc', posVal, Bool.false_eq_true, if_false]
      right
      have h1 := digVal_pos c (h c (by simp)) hc'
      have h2 := digVal_le c (h c (by simp))
      have h3 := posVal_lt cs hcs
      refine ⟨by simp, ?_, ?_⟩
      · simp only [List.length_cons, Nat.add_sub_cancel]
        have : 1 * 10 ^ cs.length ≤ digVal c * 10 ^ cs.length := Nat.mul_le_mul_right _ h1
        omega
      · simp only [List.length_cons, Nat.pow_succ]
        have : digVal c * 10 ^ cs.length ≤ 9 * 10 ^ cs.length := Nat.mul_le_mul_right _ h2
        omega

theorem IntDigits_unique {q I J : Nat} (h1 : IntDigits q I) (h2 : IntDigits q J) : I = J := by
  rcases h1 with ⟨a, b⟩ | ⟨a, b, c⟩ <;> rcases h2 with ⟨a', b'⟩ | ⟨a', b', c'⟩
  · omega
  · subst a; have : 0 < 10 ^ (J - 1) := Nat.pow_pos (by omega); omega
  · subst a'; have : 0 < 10 ^ (I - 1) := Nat.pow_pos (by omega); omega
  · -- 10^(I-1) ≤ q < 10^J → I-1 < J
    have e1 : I - 1 < J := (Nat.pow_lt_pow_iff_right (by omega : 1 < 10)).mp (Nat.lt_of_le_of_lt b c')
    have e2 : J - 1 < I := (Nat.pow_lt_pow_iff_right (by omega : 1 < 10)).mp (Nat.lt_of_le_of_lt b' c)
    omega


/-- number of fraction digits: `F` is the least number of decimal places that writes
    `coef / 10^scale` exactly -/
def FracDigits (coef scale F : Nat) : Prop :=
  F ≤ scale ∧ 10 ^ (scale - F) ∣ coef ∧ ∀ k, k < F → ¬ 10 ^ (scale - k) ∣ coef

/-- little-endian value (of a reversed digit string) -/
def leVal : Str → Nat
  | [] => 0
  | c :: cs => digVal c + 10 * leVal cs

theorem leVal_append (a b : Str) : leVal (a ++ b) = leVal a + 10 ^ a.length * leVal b := by
  induction a with
  | nil => simp [leVal]
  | cons c cs ih =>
    simp only [List.cons_append, leVal, ih, List.length_cons, Nat.pow_succ]
    grind

theorem posVal_eq_leVal_reverse (s : Str) : posVal s = leVal s.reverse := by
  induction s with
  | nil => rfl
  | cons c cs ih =>
    simp only [posVal, List.reverse_cons, leVal_append, List.length_reverse, leVal, ih]
    grind

theorem leVal_dropZeros (rs : Str) (h : ∀ c ∈ rs, isDig c = true) :
    ∃ m, leVal rs = 10 ^ (rs.length - (rs.dropWhile (· == '0')).length) * m ∧
      (rs.dropWhile (· == '0')).length ≤ rs.length ∧
      ((rs.dropWhile (· == '0')).length = 0 ∧ m = 0 ∨ 0 < (rs.dropWhile (· == '0')).length ∧ m % 10 ≠ 0) := by
  induction rs with
  | nil => exact ⟨0, by simp [leVal]⟩
  | cons c cs ih =>
    have hcs : ∀ x ∈ cs, isDig x = true := fun x hx => h x (by simp [hx])
    by_cases hc : (c == '0') = true
    · obtain ⟨m, h1, h2, h3⟩ := ih hcs
      refine ⟨m, ?_, ?_, ?_⟩
      · simp only [List.dropWhile_cons, hc, if_true, leVal, digVal_zero c hc, Nat.zero_add, List.length_cons]
        rw [h1, show cs.length + 1 - (List.dropWhile (fun x => x == '0') cs).length
              = (cs.length - (List.dropWhile (fun x => x == '0') cs).length) + 1 by omega, Nat.pow_succ]
        grind
      · simp only [List.dropWhile_cons, hc, if_true, List.length_cons]; omega
      · simpa only [List.dropWhile_cons, hc, if_true] using h3
    · have hc' : (c == '0') = false := by simpa using hc
      have h1 := digVal_pos c (h c (by simp)) hc'
      have h2 := digVal_le c (h c (by simp))
      refine ⟨leVal (c :: cs), ?_, ?_, ?_⟩
      · simp [hc']
      · simp [hc']
      · right
        simp only [List.dropWhile_cons, hc', Bool.false_eq_true, if_false, List.length_cons, leVal]
        omega

/-- Lemma C: `rstrip('0')` of the fraction digits leaves the least number of places -/
theorem dropTrailingZeros_spec (fp : Str) (h : ∀ c ∈ fp, isDig c = true) :
    FracDigits (posVal fp) fp.length (dropTrailing (· == '0') fp).length := by
  obtain ⟨m, h1, h2, h3⟩ := leVal_dropZeros fp.reverse (fun c hc => h c (by simpa using hc))
  simp only [List.length_reverse] at h1 h2
  unfold FracDigits dropTrailing
  rw [posVal_eq_leVal_reverse, List.length_reverse]
  generalize (List.dropWhile (fun x => x == '0') fp.reverse).length = t at *
  refine ⟨h2, ⟨m, h1⟩, ?_⟩
  intro k hk hdvd
  rcases h3 with ⟨h3, -⟩ | ⟨-, h3⟩
  · omega
  · rw [h1, show fp.length - k = (fp.length - t) + (t - k) by omega, Nat.pow_add] at hdvd
    have h4 : 10 ^ (t - k) ∣ m := Nat.dvd_of_mul_dvd_mul_left (Nat.pow_pos (by omega)) hdvd
    have h5 : 10 ∣ 10 ^ (t - k) := by
      rw [show t - k = (t - k - 1) + 1 by omega, Nat.pow_succ]; exact Nat.dvd_mul_left _ _
    have := Nat.dvd_trans h5 h4
    omega


/-! ### structure of `str(int)` -/

theorem natDigitsAux_lb (fuel n : Nat) (h : n < fuel) (hn : 0 < n) :
    10 ^ ((natDigitsAux fuel n []).length - 1) ≤ n := by
  induction fuel generalizing n with
  | zero => omega
  | succ f ih =>
    simp only [natDigitsAux]
    by_cases h0 : n / 10 = 0
    · simp only [h0, if_true, List.length_cons, List.length_nil]; simp; omega
    · simp only [h0, if_false]
      rw [natDigitsAux_acc]
      have i1 := ih (n / 10) (by omega) (by omega)
      have i2 := (natDigitsAux_spec f (n / 10) (by omega)).2.1
      have i3 : 0 < (natDigitsAux f (n / 10) []).length := List.length_pos_iff.mpr i2
      simp only [List.length_append, List.length_cons, List.length_nil, Nat.add_sub_cancel]
      rw [show (natDigitsAux f (n / 10) []).length = ((natDigitsAux f (n / 10) []).length - 1) + 1 by omega,
        Nat.pow_succ]
      omega

theorem posVal_natDigits (n : Nat) : posVal (natDigits n) = n := by
  rw [← natOfDigits_eq_posVal]; exact (natDigits_spec n).1

theorem natDigits_lb (n : Nat) (hn : 0 < n) : 10 ^ ((natDigits n).length - 1) ≤ n :=
  natDigitsAux_lb (n + 1) n (by omega) hn

theorem natDigits_zero : natDigits 0 = ['0'] := by decide

/-- `str(int)` has no leading zero, except for "0" itself -/
theorem natDigits_head (n : Nat) (hn : 0 < n) (d : Char) (r : Str) (h : natDigits n = d :: r) :
    (d == '0') = false := by
  cases hd : (d == '0') with
  | false => rfl
  | true =>
    exfalso
    have h1 := posVal_natDigits n
    have h2 := natDigits_lb n hn
    have h3 : ∀ c ∈ r, isDig c = true := fun c hc => (natDigits_spec n).2.2 c (by simp [h, hc])
    have h4 := posVal_lt r h3
    rw [h] at h1 h2
    simp only [posVal, digVal_zero d hd, Nat.zero_mul, Nat.zero_add] at h1
    simp only [List.length_cons, Nat.add_sub_cancel] at h2
    omega

/-! ### splitting a digit string at a position -/

theorem posVal_take_drop (c : Str) (k : Nat) (h : ∀ x ∈ c, isDig x = true) :
    posVal (c.take k) = posVal c / 10 ^ (c.length - k) ∧ posVal (c.drop k) = posVal c % 10 ^ (c.length - k) := by
  have e : posVal c = posVal (c.take k) * 10 ^ (c.length - k) + posVal (c.drop k) := by
    conv => lhs; rw [← List.take_append_drop k c]
    rw [posVal_append, List.length_drop]
  have hlt : posVal (c.drop k) < 10 ^ (c.length - k) := by
    have := posVal_lt (c.drop k) (fun x hx => h x (List.mem_of_mem_drop hx))
    simpa [List.length_drop] using this
  have hp : 0 < 10 ^ (c.length - k) := Nat.pow_pos (by omega)
  constructor
  · rw [e, Nat.mul_comm, Nat.mul_add_div hp, Nat.div_eq_of_lt hlt, Nat.add_zero]
  · rw [e, Nat.mul_comm, Nat.mul_add_mod, Nat.mod_eq_of_lt hlt]

theorem dropWhile_snoc_neg (p : Char → Bool) (xs : Str) (y : Char) (hy : p y = false) :
    (xs ++ [y]).dropWhile p = xs.dropWhile p ++ [y] := by
  induction xs with
  | nil => simp [List.dropWhile, hy]
  | cons x xs ih =>
    by_cases hx : p x = true
    · simp [hx, ih]
    · simp [hx]

theorem dropTrailing_cons_neg (p : Char → Bool) (d : Char) (r : Str) (hd : p d = false) :
    dropTrailing p (d :: r) = d :: dropTrailing p r := by
  simp [dropTrailing, List.reverse_cons, dropWhile_snoc_neg p _ d hd]

theorem FracDigits_zero (scale : Nat) : FracDigits 0 scale 0 :=
  ⟨Nat.zero_le _, Nat.dvd_zero _, fun k hk => absurd hk (by omega)⟩

theorem FracDigits_mod {coef s F : Nat} (h : FracDigits (coef % 10 ^ s) s F) : FracDigits coef s F := by
  obtain ⟨h1, h2, h3⟩ := h
  have hd : ∀ j, j ≤ s → (10 ^ j ∣ coef % 10 ^ s ↔ 10 ^ j ∣ coef) := fun j hj =>
    Nat.dvd_mod_iff (Nat.pow_dvd_pow 10 hj)
  exact ⟨h1, (hd _ (by omega)).mp h2, fun k hk hc => h3 k hk ((hd _ (by omega)).mpr hc)⟩

/-- a value `0 < coef < 10^L` read with a larger scale `s ≥ L` needs `s - L` more places -/
theorem FracDigits_lift {coef L s F : Nat} (hL : L ≤ s) (hpos : 0 < coef) (hlt : coef < 10 ^ L)
    (h : FracDigits coef L F) : FracDigits coef s (F + (s - L)) := by
  obtain ⟨h1, h2, h3⟩ := h
  refine ⟨by omega, ?_, ?_⟩
  · rw [show s - (F + (s - L)) = L - F by omega]; exact h2
  · intro k hk hd
    by_cases hks : k < s - L
    · have h4 : 10 ^ L < 10 ^ (s - k) := Nat.pow_lt_pow_right (by omega) (by omega)
      have := Nat.le_of_dvd hpos hd
      omega
    · apply h3 (k - (s - L)) (by omega)
      rw [show L - (k - (s - L)) = s - k by omega]; exact hd


/-! ### `count_digits(Decimal)` (repaired, fix de12daf) against the arithmetic of the value -/

theorem countDigits_plain (c : Str) (coef : Nat) (hc : posVal c = coef) (hd : ∀ x ∈ c, isDig x = true) :
    IntDigits (coef / 10 ^ 0) (countDigitsRepr true (.plain c)).1 ∧
    FracDigits coef 0 (countDigitsRepr true (.plain c)).2 := by
  simp only [countDigitsRepr, Nat.pow_zero, Nat.div_one]
  exact ⟨hc ▸ dropZeros_spec c hd, Nat.le_refl _, by simp, fun k hk => absurd hk (by omega)⟩

theorem countDigits_point_long (c : Str) (coef s : Nat) (hc : posVal c = coef)
    (hd : ∀ x ∈ c, isDig x = true) (hs : s < c.length) :
    IntDigits (coef / 10 ^ s) (countDigitsRepr true (.point (c.take (c.length - s)) (c.drop (c.length - s)))).1 ∧
    FracDigits coef s (countDigitsRepr true (.point (c.take (c.length - s)) (c.drop (c.length - s)))).2 := by
  obtain ⟨e1, e2⟩ := posVal_take_drop c (c.length - s) hd
  rw [show c.length - (c.length - s) = s by omega, hc] at e1 e2
  simp only [countDigitsRepr]
  constructor
  · rw [← e1]; exact dropZeros_spec _ (fun x hx => hd x (List.mem_of_mem_take hx))
  · have := dropTrailingZeros_spec (c.drop (c.length - s)) (fun x hx => hd x (List.mem_of_mem_drop hx))
    rw [e2, List.length_drop, show c.length - (c.length - s) = s by omega] at this
    exact FracDigits_mod this

theorem countDigits_point_short (c : Str) (coef s : Nat) (hc : posVal c = coef)
    (hd : ∀ x ∈ c, isDig x = true) (hs : c.length ≤ s) :
    IntDigits (coef / 10 ^ s) (countDigitsRepr true (.point ['0'] (List.replicate (s - c.length) '0' ++ c))).1 ∧
    FracDigits coef s (countDigitsRepr true (.point ['0'] (List.replicate (s - c.length) '0' ++ c))).2 := by
  have hlt : coef < 10 ^ s :=
    Nat.lt_of_lt_of_le (hc ▸ posVal_lt c hd) (Nat.pow_le_pow_right (by omega) hs)
  simp only [countDigitsRepr]
  constructor
  · left; exact ⟨Nat.div_eq_of_lt hlt, by decide⟩
  · have := dropTrailingZeros_spec (List.replicate (s - c.length) '0' ++ c) (by
      intro x hx
      rcases List.mem_append.mp hx with hx | hx
      · rw [(List.mem_replicate.mp hx).2]; decide
      · exact hd x hx)
    rw [posVal_append, posVal_replicate_zero, Nat.zero_mul, Nat.zero_add, hc, List.length_append,
      List.length_replicate, show s - c.length + c.length = s by omega] at this
    exact this

theorem countDigits_sci (d : Char) (r : Str) (coef s : Nat) (hc : posVal (d :: r) = coef)
    (hdg : ∀ x ∈ d :: r, isDig x = true) (hs : (d :: r).length + 6 ≤ s)
    (hlead : 0 < coef → (d == '0') = false) (hzero : coef = 0 → d = '0' ∧ r = []) :
    IntDigits (coef / 10 ^ s) (countDigitsRepr true (.sci d r (s - (d :: r).length + 1))).1 ∧
    FracDigits coef s (countDigitsRepr true (.sci d r (s - (d :: r).length + 1))).2 := by
  have hlt : coef < 10 ^ (d :: r).length := hc ▸ posVal_lt _ hdg
  have hlt' : coef < 10 ^ s := Nat.lt_of_lt_of_le hlt (Nat.pow_le_pow_right (by omega) (by omega))
  have hint : IntDigits (coef / 10 ^ s) 0 := Or.inl ⟨Nat.div_eq_of_lt hlt', rfl⟩
  by_cases h0 : coef = 0
  · obtain ⟨rfl, rfl⟩ := hzero h0
    subst h0
    simp only [countDigitsRepr]
    exact ⟨hint, FracDigits_zero s⟩
  · have hpos : 0 < coef := by omega
    have hd0 := hlead hpos
    have hC := dropTrailingZeros_spec (d :: r) hdg
    rw [dropTrailing_cons_neg _ d r hd0, hc] at hC
    have hL := FracDigits_lift (s := s) (by omega) hpos hlt hC
    simp only [List.length_cons] at hL hs ⊢
    have key : (countDigitsRepr true (.sci d r (s - (r.length + 1) + 1))) =
        (0, (dropTrailing (· == '0') r).length + 1 + (s - (r.length + 1))) := by
      simp only [countDigitsRepr, hd0, Bool.false_eq_true, if_false, Bool.true_and]
      cases r with
      | nil => simp [dropTrailing]; omega
      | cons x xs =>
        simp only [List.isEmpty_cons, Bool.false_eq_true, if_false]
        rw [if_neg (by simp)]
        congr 1; omega
    rw [key]
    exact ⟨hint, hL⟩

/-- `count_digits(str(Decimal))` returns (digits of the integer part, least number of fraction digits) of
    the value `coef / 10^scale`, whatever shape `str(Decimal)` takes -/
theorem countDigitsDec_spec (d : Dec) :
    IntDigits (d.coef / 10 ^ d.scale) (countDigitsDec true d).1 ∧
    FracDigits d.coef d.scale (countDigitsDec true d).2 := by
  have hc := posVal_natDigits d.coef
  obtain ⟨-, hne, hd⟩ := natDigits_spec d.coef
  unfold countDigitsDec decRepr
  by_cases h1 : d.scale = 0
  · rw [if_pos h1, h1]; exact countDigits_plain _ _ hc hd
  · rw [if_neg h1]
    by_cases h2 : (natDigits d.coef).length + 6 > d.scale
    · rw [if_pos h2]
      by_cases h3 : (natDigits d.coef).length > d.scale
      · rw [if_pos h3]; exact countDigits_point_long _ _ _ hc hd h3
      · rw [if_neg h3]; exact countDigits_point_short _ _ _ hc hd (by omega)
    · rw [if_neg h2]
      cases hcs : natDigits d.coef with
      | nil => exact absurd hcs hne
      | cons x r =>
        simp only
        rw [hcs] at hc hd h2
        have := countDigits_sci x r d.coef d.scale hc hd (by omega)
          (fun hp => natDigits_head d.coef hp x r hcs)
          (fun hz => by rw [hz, natDigits_zero] at hcs; simp at hcs; exact ⟨hcs.1.symm, hcs.2⟩)
        exact this


/-! ### the digit facets in XSD terms: |value| = i / 10^m -/

theorem frac_le_iff {coef s F n : Nat} (h : FracDigits coef s F) :
    F ≤ n ↔ ∃ i m, m ≤ n ∧ coef * 10 ^ m = i * 10 ^ s := by
  obtain ⟨h1, ⟨i, h2⟩, h3⟩ := h
  constructor
  · intro hn
    refine ⟨i, F, hn, ?_⟩
    rw [h2, show s = (s - F) + F by omega, Nat.pow_add, show s - F + F - F = s - F by omega]
    grind
  · rintro ⟨j, m, hm, he⟩
    apply Decidable.byContradiction
    intro hc
    have hmF : m < F := by omega
    apply h3 m hmF
    refine ⟨j, ?_⟩
    have hp : 0 < 10 ^ m := Nat.pow_pos (by omega)
    apply Nat.eq_of_mul_eq_mul_right hp
    rw [he, show s = (s - m) + m by omega, Nat.pow_add, show s - m + m - m = s - m by omega]
    grind

theorem total_le_iff {coef s I F n : Nat} (hI : IntDigits (coef / 10 ^ s) I) (hF : FracDigits coef s F) :
    I + F ≤ n ↔ ∃ i m, m ≤ n ∧ i < 10 ^ n ∧ coef * 10 ^ m = i * 10 ^ s := by
  constructor
  · intro hn
    obtain ⟨h1, ⟨i, h2⟩, h3⟩ := hF
    have hs : 10 ^ s = 10 ^ (s - F) * 10 ^ F := by rw [← Nat.pow_add]; congr 1; omega
    refine ⟨i, F, by omega, ?_, ?_⟩
    · have hq : coef / 10 ^ s = i / 10 ^ F := by
        rw [h2, hs, Nat.mul_div_mul_left _ _ (Nat.pow_pos (by omega))]
      have hlt : i < 10 ^ (I + F) := by
        rcases hI with ⟨a, b⟩ | ⟨a, b, c⟩
        · rw [hq] at a
          have := (Nat.div_eq_zero_iff.mp a)
          rcases this with h | h
          · have : 0 < 10 ^ F := Nat.pow_pos (by omega)
            omega
          · subst b; simpa using h
        · rw [hq] at c
          rw [Nat.pow_add]
          exact (Nat.div_lt_iff_lt_mul (Nat.pow_pos (by omega))).mp c
      exact Nat.lt_of_lt_of_le hlt (Nat.pow_le_pow_right (by omega) hn)
    · rw [h2, hs]; grind
  · rintro ⟨i, m, hm, hi, he⟩
    have hFm : F ≤ m := (frac_le_iff hF).mpr ⟨i, m, Nat.le_refl _, he⟩
    rcases hI with ⟨a, b⟩ | ⟨a, b, c⟩
    · omega
    · have h1 : 10 ^ (I - 1) * 10 ^ s ≤ coef := (Nat.le_div_iff_mul_le (Nat.pow_pos (by omega))).mp b
      have h2 : 10 ^ (I - 1) * 10 ^ s * 10 ^ m ≤ coef * 10 ^ m := Nat.mul_le_mul_right _ h1
      rw [he] at h2
      have h3 : 10 ^ (I - 1) * 10 ^ m * 10 ^ s ≤ i * 10 ^ s := by
        calc 10 ^ (I - 1) * 10 ^ m * 10 ^ s = 10 ^ (I - 1) * 10 ^ s * 10 ^ m := by grind
          _ ≤ i * 10 ^ s := h2
      have h4 : 10 ^ (I - 1) * 10 ^ m ≤ i := Nat.le_of_mul_le_mul_right h3 (Nat.pow_pos (by omega))
      rw [← Nat.pow_add] at h4
      have h5 : I - 1 + m < n := (Nat.pow_lt_pow_iff_right (by omega : 1 < 10)).mp (Nat.lt_of_le_of_lt h4 hi)
      omega


/-! ### lexical space of xs:decimal -/

/-- the unsigned part of an xs:decimal literal: `digits+ ('.' digits*)? | '.' digits+`, split into
    integer digits `ip` and fraction digits `fp` -/
def DecBody (r ip fp : Str) : Prop :=
  (∀ c ∈ ip, isDig c = true) ∧ (∀ c ∈ fp, isDig c = true) ∧
  ((r = ip ∧ fp = [] ∧ ip ≠ []) ∨ (r = ip ++ '.' :: fp ∧ (ip ≠ [] ∨ fp ≠ [])))

theorem takeWhile_eq_self' {p : Char → Bool} {a : Str} (h : ∀ c ∈ a, p c = true) :
    a.takeWhile p = a ∧ a.dropWhile p = [] := by
  induction a with
  | nil => simp
  | cons x xs ih =>
    have hx := h x (by simp)
    have := ih (fun c hc => h c (by simp [hc]))
    simp [hx, this]

theorem takeWhile_stop {p : Char → Bool} {a : Str} {x : Char} {b : Str} (h : ∀ c ∈ a, p c = true)
    (hx : p x = false) : (a ++ x :: b).takeWhile p = a ∧ (a ++ x :: b).dropWhile p = x :: b := by
  induction a with
  | nil => simp [hx]
  | cons y ys ih =>
    have hy := h y (by simp)
    have := ih (fun c hc => h c (by simp [hc]))
    simp [hy, this]

theorem mem_takeWhile_sat {p : Char → Bool} {a : Str} : ∀ c ∈ a.takeWhile p, p c = true := by
  induction a with
  | nil => simp
  | cons x xs ih =>
    intro c hc
    by_cases hx : p x = true
    · simp only [List.takeWhile_cons, hx, if_true, List.mem_cons] at hc
      rcases hc with rfl | hc
      · exact hx
      · exact ih c hc
    · simp [hx] at hc

theorem allDigits_iff (s : Str) : allDigits s = true ↔ ∀ c ∈ s, isDig c = true := by
  simp [allDigits]

theorem parseDec_of_split {s r : Str} {neg : Bool} (h : splitSign s = (neg, r)) (d : Dec) :
    parseDec s = some d ↔ ∃ ip fp, DecBody r ip fp ∧ d = ⟨neg, posVal (ip ++ fp), fp.length⟩ := by
  unfold parseDec
  rw [h]
  simp only
  have hsplit := List.takeWhile_append_dropWhile (p := isDig) (l := r)
  have hip : ∀ c ∈ r.takeWhile isDig, isDig c = true := mem_takeWhile_sat
  constructor
  · intro hp
    split at hp
    · rename_i hdrop
      split at hp
      · cases hp
      · rename_i hne
        simp only [Option.some.injEq] at hp
        refine ⟨r.takeWhile isDig, [], ⟨hip, by simp, Or.inl ⟨?_, rfl, ?_⟩⟩, ?_⟩
        · rw [hdrop, List.append_nil] at hsplit; exact hsplit.symm
        · intro e; simp [e] at hne
        · rw [← hp, natOfDigits_eq_posVal]; simp
    · rename_i fp hdrop
      split at hp
      · rename_i hc
        simp only [Bool.and_eq_true, Bool.not_eq_true', Bool.and_eq_false_iff] at hc
        simp only [Option.some.injEq] at hp
        refine ⟨r.takeWhile isDig, fp, ⟨hip, (allDigits_iff fp).mp hc.1, Or.inr ⟨?_, ?_⟩⟩, ?_⟩
        · rw [hdrop] at hsplit; exact hsplit.symm
        · rcases hc.2 with h1 | h1
          · left; intro e; simp [e] at h1
          · right; intro e; simp [e] at h1
        · rw [← hp, natOfDigits_eq_posVal]
      · cases hp
    · cases hp
  · rintro ⟨ip, fp, ⟨h1, h2, h3⟩, rfl⟩
    rcases h3 with ⟨rfl, rfl, hne⟩ | ⟨rfl, hne⟩
    · obtain ⟨e1, e2⟩ := takeWhile_eq_self' h1
      rw [e1, e2]
      simp only [List.isEmpty_iff, hne, if_false, natOfDigits_eq_posVal, List.append_nil, List.length_nil]
    · obtain ⟨e1, e2⟩ := takeWhile_stop (x := '.') (b := fp) h1 (by decide)
      rw [e1, e2]
      simp only
      have hc : (allDigits fp && !(ip.isEmpty && fp.isEmpty)) = true := by
        simp only [Bool.and_eq_true, Bool.not_eq_true', Bool.and_eq_false_iff]
        refine ⟨(allDigits_iff fp).mpr h2, ?_⟩
        rcases hne with h | h
        · left; cases ip <;> simp_all
        · right; cases fp <;> simp_all
      rw [if_pos hc, natOfDigits_eq_posVal]

/-- lexical space and value of xs:decimal (XSD Part 2 §3.2.3): optional sign, then `DecBody`; the value
    is  ±(ip ++ fp as a numeral) / 10^|fp| -/
def DecLex (s : Str) (d : Dec) : Prop :=
  ∃ (sg r ip fp : Str), s = sg ++ r ∧ (sg = [] ∨ sg = ['+'] ∨ sg = ['-']) ∧ DecBody r ip fp ∧
    d = ⟨decide (sg = ['-']), posVal (ip ++ fp), fp.length⟩

theorem DecBody_head {r ip fp : Str} (h : DecBody r ip fp) (c : Char) (hc : c = '-' ∨ c = '+') (t : Str) :
    r ≠ c :: t := by
  intro e
  obtain ⟨h1, h2, h3⟩ := h
  have hnd : isDig c = false := by rcases hc with rfl | rfl <;> decide
  have hnp : c ≠ '.' := by rcases hc with rfl | rfl <;> decide
  rcases h3 with ⟨rfl, -, hne⟩ | ⟨rfl, -⟩
  · subst e; have := h1 c (by simp); simp [hnd] at this
  · cases ip with
    | nil => simp at e; exact hnp e.1.symm
    | cons x xs =>
      simp at e
      have := h1 x (by simp); rw [e.1] at this; simp [hnd] at this

theorem parseDec_iff' (s : Str) (d : Dec) : parseDec s = some d ↔ DecLex s d := by
  unfold DecLex
  rcases splitSign_cases s with ⟨r, rfl, h⟩ | ⟨r, rfl, h⟩ | ⟨h1, h2, h⟩
  · rw [parseDec_of_split h]
    constructor
    · rintro ⟨ip, fp, hb, rfl⟩
      exact ⟨['-'], r, ip, fp, rfl, by simp, hb, by simp⟩
    · rintro ⟨sg, r', ip, fp, hs, hsg, hb, rfl⟩
      rcases hsg with rfl | rfl | rfl
      · exact absurd hs.symm (DecBody_head hb '-' (by simp) r)
      · simp at hs
      · simp at hs; subst hs; exact ⟨ip, fp, hb, by simp⟩
  · rw [parseDec_of_split h]
    constructor
    · rintro ⟨ip, fp, hb, rfl⟩
      exact ⟨['+'], r, ip, fp, rfl, by simp, hb, by simp⟩
    · rintro ⟨sg, r', ip, fp, hs, hsg, hb, rfl⟩
      rcases hsg with rfl | rfl | rfl
      · exact absurd hs.symm (DecBody_head hb '+' (by simp) r)
      · simp at hs; subst hs; exact ⟨ip, fp, hb, by simp⟩
      · simp at hs
  · rw [parseDec_of_split h]
    constructor
    · rintro ⟨ip, fp, hb, rfl⟩
      exact ⟨[], s, ip, fp, rfl, by simp, hb, by simp⟩
    · rintro ⟨sg, r', ip, fp, hs, hsg, hb, rfl⟩
      rcases hsg with rfl | rfl | rfl
      · simp at hs; subst hs; exact ⟨ip, fp, hb, by simp⟩
      · exact absurd hs (h2 r')
      · exact absurd hs (h1 r')

end XsVerif.Datatypes
