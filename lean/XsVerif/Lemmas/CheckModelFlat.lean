/-
  The flat fragment of C15: `choice(e1 … en){1,1}` of plain element particles (XSD 1.0, no substitution
  groups).  On this fragment the pinned `check_model` is exact: it accepts iff UPA and EDC hold.
-/
import XsVerif.Lemmas.Upa
import XsVerif.Lemmas.CheckModel

set_option linter.unusedSectionVars false

namespace XsVerif.CM
open XsVerif.Wildcard XsVerif.Rx

/-- a flat item: element particle (id, name, lo, hi) -/
structure FItem where
  id : Nat
  name : QN
  lo : Nat
  hi : Option Nat
  deriving Repr, DecidableEq

def FItem.leaf (it : FItem) : Leaf := .elem it.id [it.name]
def FItem.particle (it : FItem) : Particle := .leaf it.leaf it.lo it.hi

def mkParticles : List FItem → Particles
  | [] => .nil
  | it :: rest => .cons it.particle (mkParticles rest)

/-- `choice(items){lo,hi}` with root id `r` -/
def flatChoice (r lo : Nat) (hi : Option Nat) (items : List FItem) : Particle :=
  .group r .choice lo hi (mkParticles items)

theorem leaves_mkParticles (items : List FItem) : (mkParticles items).leaves = items.map FItem.leaf := by
  induction items with
  | nil => rfl
  | cons it rest ih => simp [mkParticles, Particles.leaves, FItem.particle, Particle.leaves, ih]

theorem leafPaths_mkParticles (path : List Nat) (items : List FItem) :
    (mkParticles items).leafPaths path = (items.filter fun it => it.hi != some 0).map fun it => (it.id, path) := by
  induction items with
  | nil => rfl
  | cons it rest ih =>
    simp only [mkParticles, Particles.leafPaths, FItem.particle, Particle.maxIsZero, Particle.leafPaths, ih,
      List.filter_cons]
    by_cases h : it.hi = some 0 <;> simp [h, bne, FItem.leaf, Leaf.id]
end XsVerif.CM

namespace XsVerif.CM
open XsVerif.Wildcard XsVerif.Rx

/-- what the theorem assumes about the context of a flat choice of plain element particles
    (either XSD version, elements without substitution groups): the lookups of the port return the data of the
    items -/
structure FlatCtx (M : Ctx) (r : Nat) (items : List FItem) : Prop where
  rootChoice : (M.node r).kind = .choice
  elem : ∀ it ∈ items, M.isElem it.id = true
  name : ∀ it ∈ items, (M.info it.id).name = it.name
  plain : ∀ it ∈ items, (M.info it.id).sgHead = none
  nosubs : ∀ it ∈ items, (M.info it.id).subs = []
  ids : items.Pairwise fun a b => a.id ≠ b.id

variable {M : Ctx} {r : Nat} {items : List FItem}

def entryOf (M : Ctx) (r : Nat) (it : FItem) : Entry := ⟨M.key it.id, it.id, [r]⟩

theorem FlatCtx.key (h : FlatCtx M r items) {it : FItem} (hit : it ∈ items) : M.key it.id = some it.name := by
  rw [key_elem M (h.elem it hit), h.name it hit]

theorem FlatCtx.notAny (h : FlatCtx M r items) {it : FItem} (hit : it ∈ items) : M.isAny it.id = false := by
  have := h.elem it hit
  simp only [Ctx.isElem, beq_iff_eq] at this
  simp [Ctx.isAny, this]

theorem FlatCtx.overlap (h : FlatCtx M r items) {it jt : FItem} (hit : it ∈ items) (hjt : jt ∈ items) :
    M.overlap jt.id it.id = (jt.name == it.name) := by
  cases hv : M.v11 <;>
    simp [Ctx.overlap, h.elem it hit, h.elem jt hjt, Ctx.overlapEE, hv, h.name it hit, h.name jt hjt,
      h.plain it hit, h.plain jt hjt, h.nosubs it hit, h.nosubs jt hjt]

theorem FlatCtx.consistent_ne (h : FlatCtx M r items) {it jt : FItem} (hit : it ∈ items) (hjt : jt ∈ items)
    (hne : jt.name ≠ it.name) : M.consistent it.id jt.id = true := by
  cases hv : M.v11 <;>
    simp [Ctx.consistent, h.elem it hit, h.elem jt hjt, hv, h.name it hit, h.name jt hjt, Ne.symm hne,
      h.nosubs it hit, h.nosubs jt hjt]

/-- no earlier particle has the name of `it`: the inner loop raises nothing -/
theorem against_flat_none (h : FlatCtx M r items) {it : FItem} (hit : it ∈ items) :
    ∀ (prev : List FItem) (acc : Acc), (∀ jt ∈ prev, jt ∈ items ∧ jt.name ≠ it.name) →
      M.against it.id [r] (prev.map (entryOf M r)) acc = (acc, none) := by
  intro prev
  induction prev with
  | nil => intro acc _; simp [Ctx.against]
  | cons jt rest ih =>
    intro acc hp
    obtain ⟨hjt, hne⟩ := hp jt (by simp)
    simp only [List.map_cons]
    unfold Ctx.against
    simp only [entryOf, h.consistent_ne hit hjt hne, h.overlap hit hjt]
    simp only [beq_eq_false_iff_ne.mpr hne, Bool.not_false, Bool.or_true, Bool.not_true,
      Bool.false_eq_true, if_false, if_true]
    exact ih acc (fun kt hk => hp kt (by simp [hk]))

/-- an earlier, different particle of the same group has the name of `it`: the inner loop raises -/
theorem against_flat_some (h : FlatCtx M r items) {it : FItem} (hit : it ∈ items) :
    ∀ (prev : List FItem) (acc : Acc), (∀ jt ∈ prev, jt ∈ items ∧ jt.id ≠ it.id) →
      (∃ jt ∈ prev, jt.name = it.name) →
      (M.against it.id [r] (prev.map (entryOf M r)) acc).2 ≠ none := by
  intro prev
  induction prev with
  | nil => intro acc _ ⟨jt, hjt, _⟩; cases hjt
  | cons jt rest ih =>
    intro acc hp hex
    obtain ⟨hjt, hid⟩ := hp jt (by simp)
    simp only [List.map_cons]
    unfold Ctx.against
    by_cases hn : jt.name = it.name
    · by_cases hc : M.consistent it.id jt.id = true
      · have hov : M.overlap jt.id it.id = true := by rw [h.overlap hit hjt]; simp [hn]
        have ha1 : M.isAny it.id = false := h.notAny hit
        have ha2 : M.isAny jt.id = false := h.notAny hjt
        have hs1 : M.stage1 it.id [r] jt.id [r] acc = .error (.sameGroup jt.id it.id) := by
          simp [Ctx.stage1, h.rootChoice, ha1, ha2]
        simp [entryOf, hc, hov, hid, Ctx.upaStep, hs1]
      · simp [entryOf, hc]
    · have hex' : ∃ kt ∈ rest, kt.name = it.name := by
        obtain ⟨kt, hk, hkn⟩ := hex
        rcases List.mem_cons.mp hk with rfl | hk
        · exact absurd hkn hn
        · exact ⟨kt, hk, hkn⟩
      simp only [entryOf, h.consistent_ne hit hjt hn, h.overlap hit hjt]
      simp only [beq_eq_false_iff_ne.mpr hn, Bool.not_false, Bool.or_true, Bool.not_true,
        Bool.false_eq_true, if_false, if_true]
      exact ih acc (fun kt hk => hp kt (by simp [hk])) hex'

theorem dictSet_fresh (h : FlatCtx M r items) {it : FItem} (hit : it ∈ items) (prev : List FItem)
    (hp : ∀ jt ∈ prev, jt ∈ items ∧ jt.name ≠ it.name) :
    dictSet (prev.map (entryOf M r)) (entryOf M r it) = (prev ++ [it]).map (entryOf M r) := by
  unfold dictSet
  have hany : ((prev.map (entryOf M r)).any fun x => x.key == (entryOf M r it).key) = false := by
    rw [List.any_eq_false]
    intro x hx
    obtain ⟨jt, hjt, rfl⟩ := List.mem_map.mp hx
    obtain ⟨hj, hne⟩ := hp jt hjt
    simp [entryOf, h.key hj, h.key hit, hne]
  simp [hany]

theorem outer_flat (h : FlatCtx M r items) : ∀ (vis prev : List FItem) (acc : Acc),
    (∀ jt ∈ prev ++ vis, jt ∈ items) → (prev ++ vis).Pairwise (fun a b => a.id ≠ b.id) →
    prev.Pairwise (fun a b => a.name ≠ b.name) →
    ((M.outer (vis.map fun it => (it.id, [r])) (prev.map (entryOf M r)) acc).err = none ↔
      (prev ++ vis).Pairwise (fun a b => a.name ≠ b.name)) := by
  intro vis
  induction vis with
  | nil => intro prev acc _ _ hpn; simpa [Ctx.outer] using hpn
  | cons it rest ih =>
    intro prev acc hmem hid hpn
    have hit : it ∈ items := hmem it (by simp)
    have hprev : ∀ jt ∈ prev, jt ∈ items ∧ jt.id ≠ it.id := by
      intro jt hjt
      exact ⟨hmem jt (by simp [hjt]), (List.pairwise_append.mp hid).2.2 jt hjt it (by simp)⟩
    simp only [List.map_cons]
    unfold Ctx.outer
    by_cases hex : ∃ jt ∈ prev, jt.name = it.name
    · have hne := against_flat_some h hit prev acc hprev hex
      have hrhs : ¬ (prev ++ it :: rest).Pairwise (fun a b => a.name ≠ b.name) := by
        intro hpw
        obtain ⟨jt, hjt, hn⟩ := hex
        exact (List.pairwise_append.mp hpw).2.2 jt hjt it (by simp) hn
      cases hag : M.against it.id [r] (prev.map (entryOf M r)) acc with
      | mk acc' o =>
        cases o with
        | none => rw [hag] at hne; exact absurd rfl hne
        | some err => simp [hrhs]
    · have hp' : ∀ jt ∈ prev, jt ∈ items ∧ jt.name ≠ it.name := by
        intro jt hjt
        exact ⟨(hprev jt hjt).1, fun hn => hex ⟨jt, hjt, hn⟩⟩
      rw [against_flat_none h hit prev acc hp']
      simp only []
      have hd := dictSet_fresh h hit prev hp'
      simp only [entryOf] at hd
      rw [hd]
      have hassoc : prev ++ [it] ++ rest = prev ++ it :: rest := by simp
      have := ih (prev ++ [it]) acc (by rw [hassoc]; exact hmem) (by rw [hassoc]; exact hid)
        (List.pairwise_append.mpr ⟨hpn, by simp, fun a ha b hb => by
          simp only [List.mem_singleton] at hb; subst hb; exact (hp' a ha).2⟩)
      rw [hassoc] at this
      exact this

end XsVerif.CM

/-! ### S side of the flat fragment -/

namespace XsVerif.CM
open XsVerif.Wildcard XsVerif.Rx

def live (items : List FItem) : List FItem := items.filter fun it => it.hi != some 0

theorem liveLeaves_mkParticles (items : List FItem) :
    (mkParticles items).liveLeaves = (live items).map FItem.leaf := by
  induction items with
  | nil => rfl
  | cons it rest ih =>
    simp only [mkParticles, Particles.liveLeaves, FItem.particle, Particle.liveLeaves, ih, live, List.filter_cons]
    by_cases h : it.hi = some 0 <;> simp [h, bne]

theorem liveLeaves_flatChoice (r lo : Nat) {hi : Option Nat} (hhi : hi ≠ some 0) (items : List FItem) :
    (flatChoice r lo hi items).liveLeaves = (live items).map FItem.leaf := by
  simp [flatChoice, Particle.liveLeaves, liveLeaves_mkParticles, hhi]

theorem pairwise_forall {α : Type} {R : α → α → Prop} (hs : ∀ a b, R a b → R b a) :
    ∀ {l : List α}, l.Pairwise R → ∀ a ∈ l, ∀ b ∈ l, a ≠ b → R a b := by
  intro l
  induction l with
  | nil => intro _ a ha; cases ha
  | cons x t ih =>
    intro hp a ha b hb hne
    obtain ⟨hx, ht⟩ := List.pairwise_cons.mp hp
    rcases List.mem_cons.mp ha with ha | ha
    · rcases List.mem_cons.mp hb with hb | hb
      · exact absurd (ha.trans hb.symm) hne
      · rw [ha]; exact hx b hb
    · rcases List.mem_cons.mp hb with hb | hb
      · rw [hb]; exact hs _ _ (hx a ha)
      · exact ih ht a ha b hb hne

/-- a live item with `lo ≤ hi` has a word that starts with its own attributed symbol -/
theorem lang_item (it : FItem) (h0 : it.hi ≠ some 0) (hle : loLeHi it.lo it.hi = true) :
    Lang mm it.particle.toRx ((it.name, it.id) :: List.replicate (it.lo - 1) (it.name, it.id)) := by
  simp only [FItem.particle, Particle.toRx, Lang]
  refine ⟨List.replicate ((it.lo - 1) + 1) [(it.name, it.id)], ?_, by simp; omega, ?_, ?_⟩
  · rw [List.flatten_replicate_singleton, List.replicate_succ]
  · cases hh : it.hi with
    | none => simp [leHi]
    | some k =>
      simp only [hh, loLeHi, decide_eq_true_eq] at hle
      have : k ≠ 0 := fun hk => h0 (by rw [hh, hk])
      simp only [leHi, List.length_replicate]
      omega
  · intro x hx
    rw [(List.mem_replicate.mp hx).2]
    exact ⟨(it.name, it.id), rfl, by simp [mm, FItem.leaf, Leaf.id, Leaf.matches]⟩

theorem lang_toChoice {items : List FItem} {it : FItem} (hit : it ∈ items) {w : List ASym}
    (h : Lang mm it.particle.toRx w) : Lang mm (mkParticles items).toChoice w := by
  induction items with
  | nil => cases hit
  | cons jt rest ih =>
    simp only [mkParticles, Particles.toChoice, Lang]
    rcases List.mem_cons.mp hit with rfl | hit
    · exact .inl h
    · exact .inr (ih hit)

/-- a word of one member, repeated as often as the root needs, is a word of the model -/
theorem lang_flatChoice {r lo : Nat} {hi : Option Nat} (hhi : hi ≠ some 0) (hle : loLeHi lo hi = true)
    {items : List FItem} {it : FItem} (hit : it ∈ items) {w : List ASym}
    (h : Lang mm it.particle.toRx w) :
    Lang mm (flatChoice r lo hi items).toRx (w ++ (List.replicate (lo - 1) w).flatten) := by
  simp only [flatChoice, Particle.toRx, Lang]
  refine ⟨List.replicate ((lo - 1) + 1) w, by simp [List.replicate_succ], by simp; omega, ?_, ?_⟩
  · cases hh : hi with
    | none => simp [leHi]
    | some k =>
      simp only [hh, loLeHi, decide_eq_true_eq] at hle
      have : k ≠ 0 := fun hk => hhi (by rw [hh, hk])
      simp only [leHi, List.length_replicate]
      omega
  · intro x hx
    rw [(List.mem_replicate.mp hx).2]
    exact lang_toChoice hit h

theorem visited_flatChoice (M : Ctx) (r lo : Nat) {hi : Option Nat} (hhi : hi ≠ some 0) (items : List FItem) :
    M.visited (flatChoice r lo hi items) = (live items).map fun it => (it.id, [r]) := by
  simp [Ctx.visited, flatChoice, Particle.maxIsZero, Particle.leafPaths, leafPaths_mkParticles, live, hhi]

/-- M on the flat fragment: accepted iff the live items have pairwise different names -/
theorem accepts_flat {M : Ctx} {r : Nat} {items : List FItem} (h : FlatCtx M r items) (lo : Nat)
    {hi : Option Nat} (hhi : hi ≠ some 0) :
    M.accepts (flatChoice r lo hi items) = true ↔ (live items).Pairwise (fun a b => a.name ≠ b.name) := by
  have hsub : (live items).Sublist items := List.filter_sublist
  have := outer_flat h (live items) [] {} (fun jt hjt => hsub.subset (by simpa using hjt))
    (by simpa using h.ids.sublist hsub) List.Pairwise.nil
  simpa [Ctx.accepts, Ctx.checkModel, visited_flatChoice M r lo hhi, Option.isNone_iff_eq_none] using this

/-- every symbol of a word of one item carries the item's name -/
theorem names_item (it : FItem) {w : List ASym} (h : Lang mm it.particle.toRx w) : ∀ c ∈ w, c.1 = it.name := by
  intro c hc
  obtain ⟨l, hl, hm⟩ := lang_syms mm _ w h c hc
  simp only [FItem.particle, Particle.toRx, Rx.leaves, List.mem_singleton] at hl
  subst hl
  simp only [mm, FItem.leaf, Leaf.matches, Bool.and_eq_true, List.contains_cons, List.contains_nil,
    Bool.or_false, beq_iff_eq] at hm
  exact hm.2

/-- S on the flat fragment: two different live items with the same name are a conflict after the
    empty prefix (both attributed symbols start a word of the model, all of whose names are that name) -/
theorem conflict_flat {r lo : Nat} {hi : Option Nat} (hhi : hi ≠ some 0) (hle : loLeHi lo hi = true)
    {items : List FItem} {it jt : FItem} (hit : it ∈ live items) (hjt : jt ∈ live items)
    (hle1 : loLeHi it.lo it.hi = true) (hle2 : loLeHi jt.lo jt.hi = true) (hn : it.name = jt.name) :
    ∃ v1 v2 : List ASym, (∀ c ∈ v1, c.1 = it.name) ∧ (∀ c ∈ v2, c.1 = it.name) ∧
      Lang mm (flatChoice r lo hi items).toRx ((it.name, it.id) :: v1) ∧
      Lang mm (flatChoice r lo hi items).toRx ((it.name, jt.id) :: v2) := by
  obtain ⟨hi1, hl1⟩ := List.mem_filter.mp hit
  obtain ⟨hi2, hl2⟩ := List.mem_filter.mp hjt
  have w1 := lang_item it (by simpa [bne] using hl1) hle1
  have w2 := lang_item jt (by simpa [bne] using hl2) hle2
  have n1 := names_item it w1
  have n2 := names_item jt w2
  have k1 := lang_flatChoice (r := r) hhi hle hi1 w1
  have k2 := lang_flatChoice (r := r) hhi hle hi2 w2
  rw [← hn] at k2 n2
  refine ⟨_, _, ?_, ?_, by simpa using k1, by simpa using k2⟩
  · intro c hc
    rcases List.mem_append.mp hc with hc | hc
    · exact n1 c (by simp [hc])
    · obtain ⟨x, hx, hcx⟩ := List.mem_flatten.mp hc
      rw [(List.mem_replicate.mp hx).2] at hcx
      exact n1 c hcx
  · intro c hc
    rcases List.mem_append.mp hc with hc | hc
    · exact n2 c (by simp [hc])
    · obtain ⟨x, hx, hcx⟩ := List.mem_flatten.mp hc
      rw [(List.mem_replicate.mp hx).2] at hcx
      exact n2 c hcx

end XsVerif.CM
