/-
  Helper lemmas for the path evaluators of Model/PathEval.lean (C20).  Plain Lean core.
-/
import XsVerif.Model.PathEval

namespace XsVerif.PathEval
open XsVerif.Lazy XsVerif.SchemaPaths
set_option linter.unusedSimpArgs false
set_option linter.unusedVariables false

/-! ### list plumbing -/

theorem mem_pick {α : Type} (p : Option Nat) (l : List α) (x : α) (h : x ∈ pick p l) : x ∈ l := by
  cases p with
  | none => simpa [pick] using h
  | some k =>
    cases k with
    | zero => simp [pick] at h
    | succ k =>
      simp only [pick] at h
      exact List.mem_of_mem_drop (List.mem_of_mem_take h)

theorem mem_pickS (p : Option Nat) (l : List Decl) (x : Decl) (h : x ∈ pickS p l) : x ∈ l := by
  cases p with
  | none => simpa [pickS] using h
  | some k =>
    simp only [pickS] at h
    split at h
    · exact h
    · exact mem_pick _ _ _ h

theorem mem_dedupC (l : List CNode) (y : CNode) (h : y ∈ dedupC l) : y ∈ l := by
  induction l with
  | nil => simp [dedupC] at h
  | cons x xs ih =>
    simp only [dedupC, List.mem_cons, List.mem_filter] at h
    rcases h with h | ⟨h, _⟩
    · exact List.mem_cons.mpr (Or.inl h)
    · exact List.mem_cons.mpr (Or.inr (ih h))

theorem mem_insertC (x y : CNode) (l : List CNode) (h : y ∈ insertC x l) : y = x ∨ y ∈ l := by
  induction l with
  | nil => simp [insertC] at h; exact Or.inl h
  | cons z zs ih =>
    simp only [insertC] at h
    split at h
    · simp only [List.mem_cons] at h
      rcases h with h | h | h
      · exact Or.inl h
      · exact Or.inr (List.mem_cons.mpr (Or.inl h))
      · exact Or.inr (List.mem_cons.mpr (Or.inr h))
    · simp only [List.mem_cons] at h
      rcases h with h | h
      · exact Or.inr (List.mem_cons.mpr (Or.inl h))
      · rcases ih h with h | h
        · exact Or.inl h
        · exact Or.inr (List.mem_cons.mpr (Or.inr h))

theorem mem_sortC (l : List CNode) (y : CNode) (h : y ∈ sortC l) : y ∈ l := by
  induction l with
  | nil => simp [sortC] at h
  | cons x xs ih =>
    simp only [sortC, List.foldr_cons] at h
    rcases mem_insertC x y _ h with h | h
    · exact List.mem_cons.mpr (Or.inl h)
    · exact List.mem_cons.mpr (Or.inr (ih h))

/-! ### chains of the instance evaluator -/

mutual
theorem dosT_chain (ch : List String) (t : Tree) : ∀ c ∈ dosT ch t, ∃ mid, c.1 = ch ++ mid := by
  cases t with
  | node i tg ds cs =>
    intro c hc
    simp only [dosT, List.mem_cons] at hc
    rcases hc with hc | hc
    · exact ⟨[], by simp [hc]⟩
    · exact dosF_chain ch cs c hc
theorem dosF_chain (ch : List String) (ts : List Tree) : ∀ c ∈ dosF ch ts, ∃ mid, c.1 = ch ++ mid := by
  cases ts with
  | nil => intro c hc; simp [dosF] at hc
  | cons t ts =>
    intro c hc
    simp only [dosF, List.mem_append] at hc
    rcases hc with hc | hc
    · obtain ⟨mid, hm⟩ := dosT_chain (ch ++ [t.tag]) t c hc
      exact ⟨t.tag :: mid, by simp [hm]⟩
    · exact dosF_chain ch ts c hc
end

theorem kidsSel_chain (s : Step) (c x : CNode) (h : x ∈ kidsSel s c) :
    ∃ tg, x.1 = c.1 ++ [tg] ∧ nameOk s tg = true := by
  simp only [kidsSel, List.mem_map] at h
  obtain ⟨k, hk, hx⟩ := h
  have hk' := mem_pick _ _ _ hk
  simp only [List.mem_filter] at hk'
  exact ⟨k.tag, by simp [← hx], hk'.2⟩

/-- one step: the new chain is the old one, then (for `//`) any tags, then one tag that passes the name test -/
theorem stepI_chain (s : Step) (ctx : List CNode) (x : CNode) (h : x ∈ stepI s ctx) :
    ∃ c ∈ ctx, ∃ mid tg, x.1 = c.1 ++ mid ++ [tg] ∧ nameOk s tg = true ∧ (s.desc = false → mid = []) := by
  have h' := mem_dedupC _ _ h
  simp only [List.mem_flatMap] at h'
  obtain ⟨c, hc, v, hv, hx⟩ := h'
  obtain ⟨tg, hxt, hn⟩ := kidsSel_chain s v x hx
  refine ⟨c, hc, ?_⟩
  by_cases hd : s.desc = true
  · simp only [visit, hd, if_true] at hv
    obtain ⟨mid, hm⟩ := dosT_chain c.1 c.2 v hv
    exact ⟨mid, tg, by simp [hxt, hm], hn, by simp [hd]⟩
  · simp only [visit, hd] at hv
    simp only [Bool.false_eq_true, if_false, List.mem_singleton] at hv
    exact ⟨[], tg, by simp [hxt, hv], hn, fun _ => rfl⟩

/-! ### the pattern reading -/

theorem matchesB_desc_skip (s : Step) (ss : List Step) (hd : s.desc = true) :
    ∀ (mid rest : List String), matchesB (s :: ss) rest = true → matchesB (s :: ss) (mid ++ rest) = true
  | [], rest, h => by simpa using h
  | m :: mid, rest, h => by
    have ih := matchesB_desc_skip s ss hd mid rest h
    simp only [List.cons_append, matchesB, hd, Bool.true_and, ih, Bool.or_true]

theorem matchesB_step (s : Step) (ss : List Step) (mid : List String) (tg : String) (suf : List String)
    (hn : nameOk s tg = true) (hm : s.desc = false → mid = []) (hs : matchesB ss suf = true) :
    matchesB (s :: ss) (mid ++ [tg] ++ suf) = true := by
  have base : matchesB (s :: ss) (tg :: suf) = true := by
    simp only [matchesB, hn, hs, Bool.and_self, Bool.true_or]
  by_cases hd : s.desc = true
  · have := matchesB_desc_skip s ss hd mid (tg :: suf) base
    simpa using this
  · have : mid = [] := hm (by simpa using hd)
    subst this
    simpa using base

/-- every chain selected from a context extends a context chain by a suffix that matches the remaining steps -/
theorem selFrom_chain : ∀ (ss : List Step) (ctx : List CNode) (x : CNode), x ∈ selFrom ctx ss →
    ∃ c ∈ ctx, ∃ suf, x.1 = c.1 ++ suf ∧ matchesB ss suf = true
  | [], ctx, x, h => by
    simp only [selFrom] at h
    exact ⟨x, h, [], by simp, by simp [matchesB]⟩
  | s :: ss, ctx, x, h => by
    simp only [selFrom] at h
    obtain ⟨c1, hc1, suf, hx, hs⟩ := selFrom_chain ss (stepI s ctx) x h
    obtain ⟨c, hc, mid, tg, hc1x, hn, hm⟩ := stepI_chain s ctx c1 hc1
    refine ⟨c, hc, mid ++ [tg] ++ suf, by simp [hx, hc1x], matchesB_step s ss mid tg suf hn hm hs⟩

theorem docKids_chain (s : Step) (t : Tree) (x : CNode) (h : x ∈ docKids s t) :
    ∃ tg, x.1 = [tg] ∧ nameOk s tg = true := by
  simp only [docKids, List.mem_map] at h
  obtain ⟨k, hk, hx⟩ := h
  have hk' := mem_pick _ _ _ hk
  simp only [List.mem_filter] at hk'
  exact ⟨k.tag, by simp [← hx], hk'.2⟩

theorem firstAbs_chain (s : Step) (t : Tree) (x : CNode) (h : x ∈ firstAbs s t) :
    ∃ mid tg, x.1 = mid ++ [tg] ∧ nameOk s tg = true ∧ (s.desc = false → mid = []) := by
  by_cases hd : s.desc = true
  · simp only [firstAbs, hd, if_true] at h
    have h' := mem_dedupC _ _ (mem_sortC _ _ h)
    simp only [List.mem_append, List.mem_flatMap] at h'
    rcases h' with h' | ⟨v, hv, hx⟩
    · obtain ⟨tg, h1, h2⟩ := docKids_chain s t x h'
      exact ⟨[], tg, by simp [h1], h2, fun _ => rfl⟩
    · obtain ⟨mid, hm⟩ := dosT_chain [t.tag] t v hv
      obtain ⟨tg, hxt, hn⟩ := kidsSel_chain s v x hx
      exact ⟨[t.tag] ++ mid, tg, by simp [hxt, hm], hn, by simp [hd]⟩
  · simp only [firstAbs, hd] at h
    simp only [Bool.false_eq_true, if_false] at h
    obtain ⟨tg, h1, h2⟩ := docKids_chain s t x h
    exact ⟨[], tg, by simp [h1], h2, fun _ => rfl⟩

/-! ### schema side -/

/-- same name and same type -/
def Same (d g : Decl) : Prop := d.name = g.name ∧ d.ty = g.ty

theorem mem_dedupS (l : List Decl) (y : Decl) (h : y ∈ dedup l) : y ∈ l := by
  induction l with
  | nil => simp [dedup] at h
  | cons x xs ih =>
    simp only [dedup, List.mem_cons, List.mem_filter] at h
    rcases h with h | ⟨h, _⟩
    · exact List.mem_cons.mpr (Or.inl h)
    · exact List.mem_cons.mpr (Or.inr (ih h))

theorem gov_snoc (S : Schema) : ∀ (ch : List String) (n : String), ch ≠ [] →
    gov S (ch ++ [n]) = (gov S ch).bind fun g => (S.kids g).find? (fun c => c.name == some n) := by
  intro ch n hne
  cases ch with
  | nil => exact absurd rfl hne
  | cons r ns =>
    simp only [List.cons_append, gov]
    cases hr : globalGet S r with
    | none => simp
    | some g0 =>
      simp only [Option.bind]
      -- govFrom along ns ++ [n]
      have key : ∀ (ns : List String) (g : Decl), govFrom S g (ns ++ [n]) =
          (govFrom S g ns).bind fun g => (S.kids g).find? (fun c => c.name == some n) := by
        intro ns
        induction ns with
        | nil =>
          intro g
          simp only [List.nil_append, govFrom, Option.bind]
          cases (S.kids g).find? (fun c => c.name == some n) <;> rfl
        | cons m ms ih =>
          intro g
          simp only [List.cons_append, govFrom]
          cases (S.kids g).find? (fun c => c.name == some m) with
          | none => simp
          | some c => exact ih c
      simpa [Option.bind] using key ns g0

theorem matchesB_nil_right : ∀ (p : List Step), matchesB p [] = true → p = []
  | [], _ => rfl
  | _ :: _, h => by simp [matchesB] at h

/-- appending one child step and one tag that passes its name test -/
theorem matchesB_snoc (s : Step) (n : String) (hn : nameOk s n = true) :
    ∀ (p : List Step) (ch : List String), matchesB p ch = true → matchesB (p ++ [s]) (ch ++ [n]) = true
  | [], [], _ => by simp [matchesB, hn]
  | [], _ :: _, h => by simp [matchesB] at h
  | _ :: _, [], h => by simp [matchesB] at h
  | q :: qs, tg :: tgs, h => by
    simp only [matchesB, Bool.or_eq_true, Bool.and_eq_true] at h
    simp only [List.cons_append, matchesB, Bool.or_eq_true, Bool.and_eq_true]
    rcases h with ⟨h1, h2⟩ | ⟨h1, h2⟩
    · exact Or.inl ⟨h1, matchesB_snoc s n hn qs tgs h2⟩
    · exact Or.inr ⟨h1, by simpa using matchesB_snoc s n hn (q :: qs) tgs h2⟩

end XsVerif.PathEval
