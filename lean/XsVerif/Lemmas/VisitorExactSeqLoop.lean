/-
  C01 (deepening): the child loop of `XsdGroup.raw_decode` (port: `childStep`, `stopFirst`,
  `childErrors`) over a flat `sequence` with occurrence 1..1, simulated by the run automaton
  `runSeq` — for every word, with the fuel of the port never exhausted.
-/
import XsVerif.Lemmas.VisitorExactSeq

namespace XsVerif.CM
open XsVerif.Wildcard

/-! ### the run automaton of a flat sequence (specification side, no fuel, no counters array) -/

/-- consume the occurrences of one leaf: `c` occurrences so far, `k` decides the rest of the word -/
def runLeaf (l : LeafSpec) (k : List QN → Bool) : Nat → List QN → Bool
  | c, [] => decide (l.lo ≤ c) && k []
  | c, q :: w =>
    if l.names.contains q && l.hi != some 0 then
      (if ltHi (c + 1) l.hi then runLeaf l k (c + 1) w else k w)
    else decide (l.lo ≤ c) && k (q :: w)

def runSeq : List LeafSpec → List QN → Bool
  | [], w => w.isEmpty
  | l :: rest, w => runLeaf l (runSeq rest) 0 w

/-! ### the child loop, cut into pieces -/

def loopFrom (A : Arena) (n root i0 : Nat) (w : List QN) (L : LoopSt) : LoopSt :=
  (w.zipIdx i0).foldl (fun L (x : QN × Nat) => childStep A {} n root x.2 x.1 (4 * A.size + 8) L) L

/-- (no error at all, fuel exhausted) at the end of the child loop -/
def finishOk (A : Arena) (L : LoopSt) : Bool × Bool :=
  match L.s.element with
  | none => (L.errors.isEmpty, L.fuelOut || L.s.fuelOut)
  | some _ => (L.errors.isEmpty && (stopFirst A {} (4 * A.size + 8) L.s).1.isNone,
               L.fuelOut || L.s.fuelOut || (stopFirst A {} (4 * A.size + 8) L.s).2)

def res (A : Arena) (n root i0 : Nat) (w : List QN) (L : LoopSt) : Bool × Bool :=
  finishOk A (loopFrom A n root i0 w L)

theorem res_nil (A : Arena) (n root i0 : Nat) (L : LoopSt) : res A n root i0 [] L = finishOk A L := rfl

theorem res_cons (A : Arena) (n root i0 : Nat) (q : QN) (w : List QN) (L : LoopSt) :
    res A n root i0 (q :: w) L = res A n root (i0 + 1) w (childStep A {} n root i0 q (4 * A.size + 8) L) := by
  simp [res, loopFrom, List.zipIdx_cons]

/-- `childErrors` in terms of the pieces -/
theorem childErrors_res (A : Arena) (n root : Nat) (w : List QN)
    (hne : ((A.node root).kind == .choice && (A.node root).content.isEmpty && (A.node root).lo != 0) = false) :
    verdict A n root w = (res A n root 0 w { s := ocFix {} (init A n root) }).1 ∧
    (childErrors A n root w).fuelOut = (res A n root 0 w { s := ocFix {} (init A n root) }).2 := by
  unfold verdict childErrors res finishOk loopFrom
  simp only [hne, Bool.false_eq_true, if_false]
  generalize List.foldl _ _ _ = L'
  cases h : L'.s.element with
  | none => simp
  | some e =>
    simp only
    rcases h2 : stopFirst A {} (4 * A.size + 8) L'.s with ⟨a, b⟩
    cases a <;> simp

/-! ### dead loop states: the model has ended -/

theorem childStep_none (A : Arena) (n root i : Nat) (q : QN) (f : Nat) (L : LoopSt) (h : L.s.element = none) :
    ∃ t, childStep A {} n root i q (f + 1) L = { L with errors := L.errors ++ t, broken := true } ∧
      (L.broken = false → t ≠ []) := by
  rw [childStep]
  simp only [h]
  split
  · exact ⟨_, rfl, fun _ => by simp⟩
  · split
    · rename_i hb
      refine ⟨[], ?_, fun h => by rw [h] at hb; cases hb⟩
      cases L; simp_all
    · exact ⟨_, rfl, fun _ => by simp⟩

theorem res_dead (A : Arena) (n root : Nat) : ∀ (w : List QN) (i0 : Nat) (L : LoopSt), L.s.element = none →
    L.fuelOut = false → L.s.fuelOut = false → (L.errors = [] → L.broken = false) →
    res A n root i0 w L = (L.errors.isEmpty && w.isEmpty, false) := by
  intro w
  induction w with
  | nil =>
    intro i0 L h1 h2 h3 _
    simp [res_nil, finishOk, h1, h2, h3]
  | cons q w ih =>
    intro i0 L h1 h2 h3 h4
    rw [res_cons]
    obtain ⟨t, e, ht⟩ := childStep_none A n root i0 q (4 * A.size + 7) L h1
    rw [show 4 * A.size + 8 = 4 * A.size + 7 + 1 from rfl, e,
      ih (i0 + 1) { L with errors := L.errors ++ t, broken := true } h1 h2 h3]
    · simp only [List.isEmpty_cons, Bool.and_false]
      by_cases he : L.errors = []
      · have := ht (h4 he)
        cases t with
        | nil => exact absurd rfl this
        | cons a b => simp
      · cases hL : L.errors with
        | nil => exact absurd hL he
        | cons a b => simp
    · intro h
      have := (List.append_eq_nil_iff.mp h)
      exact absurd this.2 (ht (h4 this.1))

/-! ### the simulation -/

section
variable {A : Arena} {n root : Nat} {ls : List LeafSpec} {F : FlatA A n root .seq 1 (some 1) ls}
variable {j c : Nat} {l : LeafSpec} {m : Bool} {s : St}

theorem advanceO_none (A : Arena) (s : St) (b : Bool) : advanceO A {} s b = advance A s b := rfl
theorem visitorMatchO_none (A : Arena) (s : St) (q : QN) : visitorMatchO A {} s q = (visitorMatch A s q, s) := rfl

theorem Inv.visitorMatch (I : Inv F j l c m s) (q : QN) :
    visitorMatch A s q = (l.names.contains q && l.hi != some 0) := by
  unfold CM.visitorMatch
  simp only [I.elem, F.leaf_node l I.mem, LeafSpec.node, leafMatches]
  cases h : l.hi == some 0 <;> simp [bne, h]

theorem ltHi_of (hc : c = 0 ∨ ltHi c l.hi = true) (h0 : (l.hi != some 0) = true) : ltHi c l.hi = true := by
  rcases hc with rfl | h
  · cases hh : l.hi with
    | none => rfl
    | some v =>
      rw [hh] at h0
      simp only [ltHi, decide_eq_true_eq]
      have : v ≠ 0 := by intro e; subst e; simp at h0
      omega
  · exact h

theorem lo_le_of_over (hok : l.okRange = true) (h : ltHi (c + 1) l.hi = false) : l.lo ≤ c + 1 := by
  unfold LeafSpec.okRange Rx.loLeHi at hok
  cases hh : l.hi with
  | none => rw [hh] at h; cases h
  | some v =>
    rw [hh] at h hok
    simp only [ltHi, decide_eq_false_iff_not, Nat.not_lt] at h
    simp only [decide_eq_true_eq] at hok
    omega

theorem Inv.adv_match_stay (I : Inv F j l c m s) (hc : ltHi c l.hi = true) (h : ltHi (c + 1) l.hi = true) :
    advance A s true = .done { s with cnt := s.cnt.set l.id (s.cnt.get l.id + 1), mtch := true } [] := by
  apply F.advance_match_stay_seq s I.group I.elem
  rw [F.isOver_leaf I.mem, Cnt.get_set_self I.sized _ _ (F.ids_lt l I.mem), I.cur, h]; rfl

theorem Inv.adv_match_over (I : Inv F j l c m s) (h : ltHi (c + 1) l.hi = false) :
    advance A s true = afterStop A (stopItem A (depthFuel A + 4)
      { s with cnt := s.cnt.set l.id (s.cnt.get l.id + 1), mtch := true } l.id) := by
  apply F.advance_match_over_seq s I.group I.elem
  rw [F.isOver_leaf I.mem, Cnt.get_set_self I.sized _ _ (F.ids_lt l I.mem), I.cur, h]; rfl

theorem drop_of_none {α : Type} {l : List α} {j : Nat} (h : l[j]? = none) : l.drop j = [] := by
  rw [List.drop_eq_nil_iff]; exact List.getElem?_eq_none_iff.mp h

theorem drop_of_some {α : Type} {l : List α} {j : Nat} {x : α} (h : l[j]? = some x) : l.drop j = x :: l.drop (j + 1) := by
  have := (List.getElem?_eq_some_iff.mp h)
  obtain ⟨hlt, rfl⟩ := this
  exact List.drop_eq_getElem_cons hlt

/-- `model.stop()` consumed up to its first error -/
theorem stopFirst_sim : ∀ (d : Nat) (j c : Nat) (l : LeafSpec) (m : Bool) (s : St) (_ : Inv F j l c m s) (fuel : Nat),
    ls.length - j ≤ d → d + 1 ≤ fuel →
    (stopFirst A {} fuel s).2 = false ∧
      (stopFirst A {} fuel s).1.isNone = runLeaf l (runSeq (ls.drop (j + 1))) c [] := by
  intro d
  induction d with
  | zero =>
    intro j c l m s I fuel hd _
    have := (List.getElem?_eq_some_iff.mp I.hl).1
    omega
  | succ d ih =>
    intro j c l m s I fuel hd hf
    obtain ⟨f, rfl⟩ : ∃ f, fuel = f + 1 := ⟨fuel - 1, by omega⟩
    rw [stopFirst]
    simp only [I.elem, advanceO_none, FlatA.advance_nomatch s I.elem, runLeaf]
    cases h2 : ls[j + 1]? with
    | some l2 =>
      obtain ⟨s', e, hfo, hI⟩ := I.afterStop_next h2
      rw [e]
      simp only
      by_cases hlo : l.lo ≤ c
      · rw [errs0_ok hlo]
        simp only [hfo, Bool.false_eq_true, if_false]
        have := ih (j + 1) 0 l2 m s' (hI hlo) f (by omega) (by omega)
        rw [this.1, this.2, drop_of_some h2, runSeq]
        simp [hlo]
      · have hlt : c < l.lo := by omega
        have hne := errs0_err hlt
        cases he : errs0 l c with
        | nil => exact absurd he hne
        | cons a b => simp [hfo, hlo]
    | none =>
      obtain ⟨s', errs, e, hel, hfo, h1, h3⟩ := I.afterStop_end h2
      rw [e]
      simp only
      by_cases hlo : l.lo ≤ c
      · rw [h1 hlo]
        simp only [hfo, Bool.false_eq_true, if_false]
        obtain ⟨f', rfl⟩ : ∃ f', f = f' + 1 := ⟨f - 1, by omega⟩
        rw [stopFirst]
        simp [hel, drop_of_none h2, runSeq, hlo]
      · have hlt : c < l.lo := by omega
        have hne := h3 hlt
        cases he : errs with
        | nil => exact absurd he hne
        | cons a b => simp [hfo, hlo]

theorem res_cleared (A : Arena) (n root i0 : Nat) (w : List QN) (L : LoopSt) (s' : St) (e : ChildErr)
    (hfo : L.fuelOut = false) :
    res A n root i0 w { L with s := ocFix {} (clear n root s'), errors := L.errors ++ [e], broken := true } =
      (false, false) := by
  refine (res_dead A n root w i0
    { L with s := ocFix {} (clear n root s'), errors := L.errors ++ [e], broken := true } rfl hfo rfl
    (by intro h; simp at h)).trans ?_
  simp

/-- one child, possibly skipping emptiable elements of the sequence -/
theorem childStep_sim (hok : ∀ l ∈ ls, l.okRange = true) (q : QN) (w : List QN) (i0 i1 : Nat)
    (ihw : ∀ (j c : Nat) (l : LeafSpec) (m : Bool) (s : St), Inv F j l c m s → (c = 0 ∨ ltHi c l.hi = true) →
      ∀ (L : LoopSt), L.s = s → L.errors = [] → L.broken = false → L.fuelOut = false →
      res A n root i1 w L = (runLeaf l (runSeq (ls.drop (j + 1))) c w, false)) :
    ∀ (d : Nat) (j c : Nat) (l : LeafSpec) (m : Bool) (s : St), Inv F j l c m s → (c = 0 ∨ ltHi c l.hi = true) →
      ∀ (fuel : Nat) (L : LoopSt), L.s = s → L.errors = [] → L.broken = false → L.fuelOut = false →
      ls.length - j ≤ d → d + 1 ≤ fuel →
      res A n root i1 w (childStep A {} n root i0 q fuel L) =
        (runLeaf l (runSeq (ls.drop (j + 1))) c (q :: w), false) := by
  intro d
  induction d with
  | zero =>
    intro j c l m s I _ fuel L _ _ _ _ hd _
    have := (List.getElem?_eq_some_iff.mp I.hl).1
    omega
  | succ d ih =>
    intro j c l m s I hc fuel L hLs hLe hLb hLf hd hf
    obtain ⟨f, rfl⟩ : ∃ f, fuel = f + 1 := ⟨fuel - 1, by omega⟩
    subst hLs
    rw [childStep]
    simp only [I.elem, visitorMatchO_none, advanceO_none, I.visitorMatch q, runLeaf, hLe, List.nil_append]
    by_cases hm : (l.names.contains q && l.hi != some 0) = true
    · simp only [hm, if_true]
      have hc' : ltHi c l.hi = true := ltHi_of hc (by simp only [Bool.and_eq_true] at hm; exact hm.2)
      by_cases hst : ltHi (c + 1) l.hi = true
      · simp only [hst, if_true, I.adv_match_stay hc' hst, List.map_nil]
        exact ihw j (c + 1) l true _ (I.incr hc') (.inr hst)
          { L with s := { L.s with cnt := L.s.cnt.set l.id (L.s.cnt.get l.id + 1), mtch := true }, errors := [] }
          rfl rfl hLb hLf
      · simp only [Bool.not_eq_true] at hst
        simp only [hst, Bool.false_eq_true, if_false, I.adv_match_over hst]
        have I1 := I.incr hc'
        have hlo := lo_le_of_over (hok l I.mem) hst
        cases h2 : ls[j + 1]? with
        | some l2 =>
          obtain ⟨s', e, hfo, hI⟩ := I1.afterStop_next h2
          rw [e, errs0_ok hlo]
          simp only [List.map_nil]
          refine (ihw (j + 1) 0 l2 true s' (hI hlo) (.inl rfl) { L with s := s', errors := [] } rfl rfl hLb hLf).trans ?_
          rw [drop_of_some h2, runSeq]
        | none =>
          obtain ⟨s', errs, e, hel, hfo, h1, _⟩ := I1.afterStop_end h2
          rw [e, h1 hlo]
          simp only [List.map_nil]
          refine (res_dead A n root w i1 { L with s := s', errors := [] } hel hLf hfo (fun _ => hLb)).trans ?_
          rw [drop_of_none h2, runSeq]
          simp
    · simp only [hm, Bool.false_eq_true, if_false, FlatA.advance_nomatch L.s I.elem]
      cases h2 : ls[j + 1]? with
      | some l2 =>
        obtain ⟨s', e, hfo, hI⟩ := I.afterStop_next h2
        rw [e]
        simp only
        by_cases hlo : l.lo ≤ c
        · rw [errs0_ok hlo]
          simp only
          refine (ih (j + 1) 0 l2 m s' (hI hlo) (.inl rfl) f { L with s := s', errors := [] } rfl rfl hLb hLf (by omega) (by omega)).trans ?_
          rw [drop_of_some h2, runSeq]
          simp [hlo]
        · have hlt : c < l.lo := by omega
          have hne := errs0_err hlt
          cases he : errs0 l c with
          | nil => exact absurd he hne
          | cons a b =>
            simp only
            have := res_cleared A n root i1 w L s' ⟨i0, a.particle, a.occurs⟩ hLf
            rw [hLe] at this
            refine this.trans ?_
            simp [hlo]
      | none =>
        obtain ⟨s', errs, e, hel, hfo, h1, h3⟩ := I.afterStop_end h2
        rw [e]
        simp only
        by_cases hlo : l.lo ≤ c
        · rw [h1 hlo]
          simp only
          obtain ⟨f', rfl⟩ : ∃ f', f = f' + 1 := ⟨f - 1, by omega⟩
          obtain ⟨t, e2, ht⟩ := childStep_none A n root i0 q f' { L with s := s', errors := [] } hel
          have htne := ht hLb
          rw [e2]
          refine (res_dead A n root w i1 { L with s := s', errors := [] ++ t, broken := true } hel hLf hfo
            (by intro h; exact absurd h (by simpa using htne))).trans ?_
          cases t with
          | nil => exact absurd rfl htne
          | cons a b => simp [drop_of_none h2, runSeq]
        · have hlt : c < l.lo := by omega
          have hne := h3 hlt
          cases he : errs with
          | nil => exact absurd he hne
          | cons a b =>
            simp only
            have := res_cleared A n root i1 w L s' ⟨i0, a.particle, a.occurs⟩ hLf
            rw [hLe] at this
            refine this.trans ?_
            simp [hlo]

/-- the whole child loop from a state of the visit -/
theorem seq_sim (hok : ∀ l ∈ ls, l.okRange = true) (hlen : ls.length + 1 ≤ n) :
    ∀ (w : List QN) (i0 : Nat) (j c : Nat) (l : LeafSpec) (m : Bool) (s : St), Inv F j l c m s →
      (c = 0 ∨ ltHi c l.hi = true) →
      ∀ (L : LoopSt), L.s = s → L.errors = [] → L.broken = false → L.fuelOut = false →
      res A n root i0 w L = (runLeaf l (runSeq (ls.drop (j + 1))) c w, false) := by
  intro w
  induction w with
  | nil =>
    intro i0 j c l m s I _ L hLs hLe _ hLf
    subst hLs
    have hsz : A.size = n := F.size
    obtain ⟨h1, h2⟩ := stopFirst_sim (ls.length - j) j c l m L.s I (4 * A.size + 8) (Nat.le_refl _) (by omega)
    simp only [res_nil, finishOk, I.elem, hLe, hLf, I.fo, h1, h2]
    simp
  | cons q w ih =>
    intro i0 j c l m s I hc L hLs hLe hLb hLf
    rw [res_cons]
    have hsz : A.size = n := F.size
    exact childStep_sim hok q w i0 (i0 + 1) (ih (i0 + 1)) (ls.length - j) j c l m s I hc _ L hLs hLe hLb hLf
      (Nat.le_refl _) (by omega)

end
end XsVerif.CM
