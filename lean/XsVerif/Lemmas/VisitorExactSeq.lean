/-
  C01 (deepening): the ModelVisitor port on a flat `sequence` of element leaves — one lemma per
  function of the port (nextItem, start/init, stopItem, seqTail, advLoop, advance, visitorMatch,
  childStep, stopFirst), then the simulation with the run automaton `runSeq`.
-/
import XsVerif.Lemmas.VisitorExactBase
import XsVerif.Props.C01

namespace XsVerif.CM
open XsVerif.Wildcard

/-- visitor state with an empty `_groups` stack -/
abbrev flatSt (root idx : Nat) (m : Bool) (e : Option Nat) (c : Cnt) : St :=
  { stack := [], group := root, idx := idx, mtch := m, element := e, cnt := c }

def ltHi (c : Nat) : Option Nat → Bool
  | none => true
  | some h => c < h

section
variable {A : Arena} {n root glo : Nat} {ghi : Option Nat} {k : NKind} {ls : List LeafSpec}

theorem nodup_map_inj : ∀ (ls : List LeafSpec), (ls.map (·.id)).Nodup → ∀ {l l' : LeafSpec}, l ∈ ls → l' ∈ ls →
    l.id = l'.id → l = l' := by
  intro ls
  induction ls with
  | nil => intro _ l l' h; simp at h
  | cons a t ih =>
    intro nd l l' hl hl' h
    simp only [List.map_cons, List.nodup_cons, List.mem_map, not_exists, not_and] at nd
    rcases List.mem_cons.mp hl with h1 | h1 <;> rcases List.mem_cons.mp hl' with h2 | h2
    · rw [h1, h2]
    · subst h1; exact absurd h.symm (nd.1 l' h2)
    · subst h2; exact absurd h (nd.1 l h1)
    · exact ih nd.2 h1 h2 h

theorem FlatA.root_isGroup (F : FlatA A n root k glo ghi ls) (hk : k = .seq ∨ k = .choice ∨ k = .all) :
    (A.node root).isGroup = true := by
  rw [F.root_node]; rcases hk with h | h | h <;> subst h <;> rfl

theorem FlatA.leaf_isGroup (F : FlatA A n root k glo ghi ls) {l : LeafSpec} (hl : l ∈ ls) :
    (A.node l.id).isGroup = false := by
  rw [F.leaf_node l hl]; rfl

theorem FlatA.id_ne_root (F : FlatA A n root k glo ghi ls) {l : LeafSpec} (hl : l ∈ ls) : l.id ≠ root := by
  have := (List.nodup_cons.mp F.nodup).1
  intro h; apply this; rw [← h]; exact List.mem_map.mpr ⟨l, hl, rfl⟩

theorem FlatA.id_inj (F : FlatA A n root k glo ghi ls) {l l' : LeafSpec} (hl : l ∈ ls) (hl' : l' ∈ ls)
    (h : l.id = l'.id) : l = l' := by
  have nd := (List.nodup_cons.mp F.nodup).2
  exact nodup_map_inj ls nd hl hl' h

theorem FlatA.emptiable_leaf (F : FlatA A n root k glo ghi ls) {l : LeafSpec} (hl : l ∈ ls) :
    emptiable A l.id = (l.lo == 0) := by
  unfold emptiable depthFuel isEmptiable
  simp [F.leaf_node l hl, LeafSpec.node]

theorem FlatA.isMissing_leaf (F : FlatA A n root k glo ghi ls) {l : LeafSpec} (hl : l ∈ ls) (c : Cnt) :
    isMissing A c l.id = decide (l.lo > c.get l.id) := by
  unfold isMissing
  simp [F.leaf_node l hl, LeafSpec.node, Node.isGroup]

theorem FlatA.isOver_leaf (F : FlatA A n root k glo ghi ls) {l : LeafSpec} (hl : l ∈ ls) (c : Cnt) :
    isOver A c l.id = !ltHi (c.get l.id) l.hi := by
  unfold isOver ltHi
  rw [F.leaf_node l hl]
  cases h : l.hi <;> simp [LeafSpec.node, h]
  rename_i v
  by_cases h2 : c.get l.id < v <;> simp [h2] <;> omega

theorem FlatA.oidOf_leaf (F : FlatA A n root k glo ghi ls) {l : LeafSpec} (hl : l ∈ ls) (c : Cnt) :
    oidOf A c l.id = 0 := by
  unfold oidOf; simp [F.leaf_isGroup hl]

theorem FlatA.emptiable_root_seq (F : FlatA A n root .seq glo ghi ls) :
    emptiable A root = (glo == 0 || ls.all (fun l => l.lo == 0)) := by
  unfold emptiable depthFuel isEmptiable
  simp only [F.root_node]
  have : ∀ l ∈ ls, isEmptiable A (A.size + 1) l.id = (l.lo == 0) := by
    intro l hl
    unfold isEmptiable
    simp [F.leaf_node l hl, LeafSpec.node]
  have hall : (ls.map (·.id)).all (isEmptiable A (A.size + 1)) = ls.all (fun l => l.lo == 0) := by
    rw [Bool.eq_iff_iff]
    simp only [List.all_eq_true, List.mem_map, forall_exists_index, and_imp, forall_apply_eq_imp_iff₂]
    constructor
    · intro h l hl; rw [← this l hl]; exact h l hl
    · intro h l hl; rw [this l hl]; exact h l hl
  rw [hall]
  cases ls with
  | nil => simp
  | cons a t => simp

/-! #### nextItem, init -/

theorem FlatA.nextItem_seq (F : FlatA A n root .seq glo ghi ls) (hg : ghi ≠ some 0) (s : St) (hs : s.group = root) :
    nextItem A s = match ls[s.idx]? with
      | none => (none, s.idx)
      | some l => (some l.id, s.idx + 1) := by
  unfold nextItem
  simp only [hs, F.root_node]
  have : (ghi == some 0) = false := by simpa using hg
  simp only [this]
  cases h : ls[s.idx]? <;> simp [h]

theorem FlatA.stopItem_root (F : FlatA A n root k glo ghi ls) (hk : k = .seq ∨ k = .choice ∨ k = .all)
    (f : Nat) (s : St) (hs : s.stack = []) :
    stopItem A (f + 1) s root = .error s := by
  unfold stopItem
  simp [F.root_isGroup hk, hs]

/-! #### stopItem, seqTail -/

theorem St.with_mtch_true (s : St) (h : s.mtch = true) : { s with mtch := true } = s := by
  cases s; simp_all

/-- `stop_item` of a leaf of a flat sequence -/
theorem FlatA.stopItem_leaf_seq (F : FlatA A n root .seq glo ghi ls) {l : LeafSpec} (hl : l ∈ ls) (f : Nat) (s : St)
    (hs : s.group = root) (hst : s.stack = []) :
    stopItem A (f + 2) s l.id =
      if s.mtch || s.cnt.get l.id != 0 then
        .ok (seqTail A { s with mtch := true } l.id, l.id, s.cnt.get l.id,
          decide (l.lo > (seqTail A { s with mtch := true } l.id).cnt.get l.id))
      else if l.lo == 0 then .ok (s, l.id, s.cnt.get l.id, false)
      else if isMissing A s.cnt root then .ok (s, l.id, s.cnt.get l.id, true)
      else .error s := by
  rw [stopItem]
  by_cases hm : s.mtch = true
  · rw [St.with_mtch_true s hm]
    simp only [F.leaf_isGroup hl, Bool.false_eq_true, if_false, hs, F.root_node]
    simp only [hm, if_true, Bool.true_or, F.isMissing_leaf hl]
  · simp only [F.leaf_isGroup hl, Bool.false_eq_true, if_false, hs, F.root_node]
    simp only [Bool.not_eq_true] at hm
    simp only [hm, Bool.false_eq_true, if_false, Bool.false_or]
    by_cases hc : s.cnt.get l.id = 0
    · simp only [hc, bne_self_eq_false, Bool.false_eq_true, if_false, F.emptiable_leaf hl, hst, List.isEmpty_nil,
        Bool.not_true]
      by_cases hlo : l.lo = 0
      · simp [hlo]
      · have : (l.lo == 0) = false := by simpa using hlo
        simp only [this, Bool.false_eq_true, if_false]
        split
        · rfl
        · have := F.stopItem_root (.inl rfl) f s hst
          rw [← hs] at this ⊢
          rw [this]
    · have : (s.cnt.get l.id != 0) = true := by simpa using hc
      simp only [this, if_true, F.isMissing_leaf hl]

theorem FlatA.getLast_ids (F : FlatA A n root k glo ghi ls) {l : LeafSpec} (hl : l ∈ ls) :
    ((ls.map (·.id)).getLast? == some l.id) = decide (ls.getLast? = some l) := by
  rw [List.getLast?_map]
  cases h : ls.getLast? with
  | none => simp
  | some x =>
    have hx : x ∈ ls := List.mem_of_getLast? h
    by_cases hxl : x = l
    · subst hxl; simp
    · have : x.id ≠ l.id := fun e => hxl (F.id_inj hx hl e)
      simp [hxl, this]

theorem FlatA.seqTail_notLast (F : FlatA A n root .seq glo ghi ls) {l : LeafSpec} (hl : l ∈ ls) (s : St)
    (hs : s.group = root) (h : ls.getLast? ≠ some l) : seqTail A s l.id = s := by
  unfold seqTail
  simp only [hs, F.root_node, F.getLast_ids hl, h, decide_false, Bool.false_eq_true, if_false]

theorem seqTail_d1 (c d : Nat) (hc : c ≠ 0) (hd : c ≤ d) :
    (if ((c / d) == 0) = true then 1 else c / d) = 1 := by
  rcases Nat.lt_or_eq_of_le hd with h1 | h1
  · simp [Nat.div_eq_of_lt h1]
  · subst h1; simp [Nat.div_self (Nat.pos_of_ne_zero hc)]

theorem one_le_or_div (a b : Nat) : 1 ≤ (if (a / b == 0) = true then 1 else a / b) := by
  split
  · exact Nat.le_refl 1
  · rename_i h; simp only [beq_iff_eq] at h; exact Nat.pos_of_ne_zero h

theorem FlatA.seqTail_last (F : FlatA A n root .seq glo ghi ls) {l : LeafSpec} (hl : l ∈ ls) (s : St)
    (hs : s.group = root) (h : ls.getLast? = some l)
    (hnz : ∃ l' ∈ ls, s.cnt.get l'.id ≠ 0) (hb : ∀ l' ∈ ls, Rx.leHi (s.cnt.get l'.id) l'.hi) :
    ∃ b, 1 ≤ b ∧ seqTail A s l.id =
      { s with cnt := (s.cnt.set root (s.cnt.get root + 1)).setOid root (s.cnt.getOid root + b) } := by
  unfold seqTail
  simp only [hs, F.root_node, F.getLast_ids hl, h, decide_true, if_true]
  split
  · rename_i hnone
    exfalso
    obtain ⟨l', hl', hne⟩ := hnz
    obtain ⟨i, hi, hget⟩ := List.getElem_of_mem (List.mem_map.mpr ⟨l', hl', rfl⟩ : l'.id ∈ ls.map (·.id))
    have := List.find?_eq_none.mp hnone (l'.id, i)
      (by simp only [List.mem_zipIdx_iff_getElem?, ← hget]; exact List.getElem?_eq_getElem hi)
    simp at this
    exact hne this
  · rename_i i2 k hsome
    have hp := List.find?_some hsome
    have hmem := List.mem_of_find?_eq_some hsome
    have hmem2 : i2 ∈ ls.map (·.id) := by
      have := List.mem_zipIdx hmem
      simp at this
      rw [this.2]; exact List.mem_map.mpr ⟨_, List.getElem_mem _, rfl⟩
    obtain ⟨l2, hl2, rfl⟩ := List.mem_map.mp hmem2
    simp only [F.oidOf_leaf hl2, F.leaf_node l2 hl2, LeafSpec.node]
    have hc : s.cnt.get l2.id ≠ 0 := by simpa using hp
    simp only [bne_self_eq_false, Bool.false_eq_true, if_false]
    split
    · exact ⟨1, Nat.le_refl 1, rfl⟩
    · refine ⟨_, one_le_or_div (s.cnt.get l2.id) (if (l2.lo == 0) = true then 1 else l2.lo), ?_⟩
      have hb2 := hb l2 hl2
      revert hb2
      cases l2.hi with
      | none => intro _; simp only; rw [seqTail_d1 _ _ hc (Nat.le_refl _)]
      | some h => cases h with
        | zero => intro _; simp only; rw [seqTail_d1 _ _ hc (Nat.le_refl _)]
        | succ h => intro hb2; simp only; rw [seqTail_d1 _ _ hc hb2]

/-! #### onEnded, advLoop, advance -/

theorem FlatA.isOver_root (F : FlatA A n root k glo ghi ls) (c : Cnt) :
    isOver A c root = !ltHi (c.get root) ghi := by
  unfold isOver ltHi; rw [F.root_node]
  cases ghi <;> simp
  rename_i v
  by_cases h2 : c.get root < v <;> simp [h2] <;> omega

theorem FlatA.isExceeded_root (F : FlatA A n root k glo ghi ls) (c : Cnt) :
    isExceeded A c root = !decide (Rx.leHi (c.get root) ghi) := by
  unfold isExceeded; rw [F.root_node]
  cases ghi with
  | none =>
    have : Rx.leHi (c.get root) none := trivial
    simp [this]
  | some v =>
    simp only [Rx.leHi]
    by_cases h2 : v < c.get root
    · have : ¬ c.get root ≤ v := by omega
      simp [h2, this]
    · have : c.get root ≤ v := by omega
      simp [h2, this]

theorem FlatA.stopItem_root' (F : FlatA A n root k glo ghi ls) (hk : k = .seq ∨ k = .choice ∨ k = .all)
    (s : St) (hs : s.stack = []) : stopItem A (depthFuel A + 4) s root = .error s :=
  F.stopItem_root hk (A.size + 5) s hs

theorem FlatA.onEnded_notAll (F : FlatA A n root k glo ghi ls) (hk : k ≠ .all) (s : St) (hs : s.group = root)
    (errs : List Err) :
    onEnded A s errs = .ended { s with element := none }
      (errs ++ if isMissing A s.cnt root || isExceeded A s.cnt root then [⟨root, s.cnt.get root⟩] else []) := by
  unfold onEnded
  have : ((A.node root).kind == NKind.all) = false := by rw [F.root_node]; simpa using hk
  simp only [hs, this, Bool.false_eq_true, if_false]
  split <;> simp

theorem FlatA.advLoop_over (F : FlatA A n root k glo ghi ls) (hk : k = .seq ∨ k = .choice ∨ k = .all)
    (f : Nat) (s : St) (hs : s.group = root) (hst : s.stack = []) (errs : List Err)
    (hover : isOver A s.cnt root = true) : advLoop A (f + 1) s errs = onEnded A s errs := by
  rw [advLoop]
  have : unwindOver A (depthFuel A + 4) s = .error s := by
    show unwindOver A ((A.size + 5) + 1) s = _
    rw [unwindOver]
    simp only [hs, hover, if_true, F.stopItem_root' hk s hst]
  simp only [this]

theorem unwindOver_notOver (A : Arena) (f : Nat) (s : St) (h : isOver A s.cnt s.group = false) :
    unwindOver A (f + 1) s = .ok s := by
  rw [unwindOver]; simp [h]

theorem FlatA.advLoop_next_seq (F : FlatA A n root .seq glo ghi ls) (hg : ghi ≠ some 0)
    (f : Nat) (s : St) (hs : s.group = root) (errs : List Err)
    (hno : isOver A s.cnt root = false) {l : LeafSpec} (hl : ls[s.idx]? = some l) :
    advLoop A (f + 1) s errs =
      .done { s with idx := s.idx + 1, element := some l.id, cnt := s.cnt.set l.id 0 } errs := by
  rw [advLoop]
  have hu : unwindOver A (depthFuel A + 4) s = .ok s :=
    unwindOver_notOver A (A.size + 5) s (by rw [hs]; exact hno)
  have hmem : l ∈ ls := List.mem_of_getElem? hl
  simp only [hu, F.nextItem_seq hg s hs, hl, F.leaf_isGroup hmem, Bool.false_eq_true, if_false, hs, F.root_node]
  simp

theorem FlatA.advLoop_end_seq (F : FlatA A n root .seq glo ghi ls) (hg : ghi ≠ some 0)
    (f : Nat) (s : St) (hs : s.group = root) (hst : s.stack = []) (errs : List Err)
    (hno : isOver A s.cnt root = false) (hl : ls[s.idx]? = none) :
    advLoop A (f + 1) s errs =
      if s.mtch then advLoop A f { s with idx := 0, mtch := false } errs else onEnded A s errs := by
  obtain ⟨stack, group, idx, mtch, element, cnt, fo, am⟩ := s
  simp only at hs hst hno hl
  subst hs hst
  rw [advLoop]
  have hu : unwindOver A (depthFuel A + 4) ⟨[], group, idx, mtch, element, cnt, fo, am⟩ = .ok _ :=
    unwindOver_notOver A (A.size + 5) _ hno
  have hn := F.nextItem_seq hg ⟨[], group, idx, mtch, element, cnt, fo, am⟩ rfl
  simp only [hl] at hn
  simp only [hu, hn]
  split
  · rfl
  · have hk : ((A.node group).kind == NKind.all) = false := by rw [F.root_node]; rfl
    simp only [hk, Bool.false_eq_true, if_false]
    rw [F.stopItem_root' (.inl rfl) _ rfl]

/-- what `advance` does with the outcome of its first `stop_item` -/
def afterStop (A : Arena) : StopRes → Step
  | .error se => onEnded A se []
  | .ok (s2, it, io, r) => advLoop A (8 * A.size + 16) s2 (if r then [⟨it, io⟩] else [])

theorem FlatA.advance_match_stay_seq (F : FlatA A n root .seq glo ghi ls) (s : St) (hs : s.group = root)
    {l : LeafSpec} (he : s.element = some l.id)
    (hlt : isOver A (s.cnt.set l.id (s.cnt.get l.id + 1)) l.id = false) :
    advance A s true = .done { s with cnt := s.cnt.set l.id (s.cnt.get l.id + 1), mtch := true } [] := by
  unfold advance
  simp only [he, hs, F.root_node]
  simp [hlt]

theorem FlatA.advance_match_over_seq (F : FlatA A n root .seq glo ghi ls) (s : St) (hs : s.group = root)
    {l : LeafSpec} (he : s.element = some l.id)
    (hlt : isOver A (s.cnt.set l.id (s.cnt.get l.id + 1)) l.id = true) :
    advance A s true = afterStop A
      (stopItem A (depthFuel A + 4) { s with cnt := s.cnt.set l.id (s.cnt.get l.id + 1), mtch := true } l.id) := by
  obtain ⟨stack, group, idx, mtch, element, cnt, fo, am⟩ := s
  simp only at hs he hlt
  subst hs he
  unfold advance
  simp only [F.root_node]
  simp only [afterStop]
  simp [hlt]
  rfl

theorem FlatA.advance_nomatch (s : St) {e : Nat} (he : s.element = some e) :
    advance A s false = afterStop A (stopItem A (depthFuel A + 4) s e) := by
  unfold advance
  simp [he, afterStop]
  rfl

theorem FlatA.isMissing_root (F : FlatA A n root k glo ghi ls) (hk : k = .seq ∨ k = .choice ∨ k = .all) (c : Cnt) :
    isMissing A c root =
      (if (if c.getOid root != 0 then c.getOid root else c.get root) == 0 then !emptiable A root
       else decide (glo > (if c.getOid root != 0 then c.getOid root else c.get root))) := by
  unfold isMissing
  simp only [F.root_isGroup hk, if_true]
  rw [F.root_node]

end

/-! #### the invariant of a visit of a flat `sequence` with occurrence 1..1 -/

section
variable {A : Arena} {n root : Nat} {ls : List LeafSpec}

structure Inv (F : FlatA A n root .seq 1 (some 1) ls) (j : Nat) (l : LeafSpec) (c : Nat) (m : Bool) (s : St) : Prop where
  hl : ls[j]? = some l
  stack : s.stack = []
  group : s.group = root
  idx : s.idx = j + 1
  mtch : s.mtch = m
  elem : s.element = some l.id
  fo : s.fuelOut = false
  sized : s.cnt.Sized n
  cur : s.cnt.get l.id = c
  root0 : s.cnt.get root = 0
  oid0 : s.cnt.getOid root = 0
  bound : ∀ l' ∈ ls, Rx.leHi (s.cnt.get l'.id) l'.hi
  later : ∀ i l', j < i → ls[i]? = some l' → s.cnt.get l'.id = 0
  mfalse : m = false → c = 0 ∧ ∀ l' ∈ ls.take j, l'.lo = 0
  mtrue : m = true → ∃ l' ∈ ls, s.cnt.get l'.id ≠ 0

theorem leHi_succ_of_ltHi {c : Nat} {hi : Option Nat} (h : ltHi c hi = true) : Rx.leHi (c + 1) hi := by
  cases hi with
  | none => trivial
  | some v => simp only [ltHi, decide_eq_true_eq] at h; exact h

theorem mem_drop_of_getElem? {α : Type} {l : List α} {j : Nat} {x : α} (h : l[j]? = some x) : x ∈ l.drop j := by
  have : (l.drop j)[0]? = some x := by simpa using h
  exact List.mem_of_getElem? this

variable {k : NKind} {glo : Nat} {ghi : Option Nat} in
theorem take_succ_of_getElem? {α : Type} {l : List α} {j : Nat} {x : α} (h : l[j]? = some x) :
    l.take (j + 1) = l.take j ++ [x] := by
  rw [List.take_add_one, h]; rfl

theorem FlatA.idx_inj (F : FlatA A n root k glo ghi ls) {i j : Nat} {l l' : LeafSpec} (hi : ls[i]? = some l)
    (hj : ls[j]? = some l') (h : l.id = l'.id) : i = j := by
  have nd := (List.nodup_cons.mp F.nodup).2
  have hlt : i < (ls.map (·.id)).length := by
    have := (List.getElem?_eq_some_iff.mp hi).1
    simpa using this
  refine (List.getElem?_inj hlt nd).mp ?_
  simp [List.getElem?_map, hi, hj, h]

variable {F : FlatA A n root .seq 1 (some 1) ls} {j c : Nat} {l : LeafSpec} {m : Bool} {s : St}

theorem Inv.mem (I : Inv F j l c m s) : l ∈ ls := List.mem_of_getElem? I.hl

/-- the state after counting one more occurrence of the current element -/
theorem Inv.incr (I : Inv F j l c m s) (h : ltHi c l.hi = true) :
    Inv F j l (c + 1) true { s with cnt := s.cnt.set l.id (s.cnt.get l.id + 1), mtch := true } := by
  have hid := F.ids_lt l I.mem
  · have hget : ∀ x, x ≠ l.id → (s.cnt.set l.id (s.cnt.get l.id + 1)).get x = s.cnt.get x :=
      fun x hx => Cnt.get_set_ne I.sized _ _ _ hid (Ne.symm hx)
    refine { hl := I.hl, stack := I.stack, group := I.group, idx := I.idx, mtch := rfl, elem := I.elem, fo := I.fo,
             sized := Cnt.sized_set I.sized _ _, cur := ?_, root0 := ?_, oid0 := I.oid0, bound := ?_, later := ?_,
             mfalse := by simp, mtrue := ?_ }
    · show (s.cnt.set l.id (s.cnt.get l.id + 1)).get l.id = c + 1
      rw [Cnt.get_set_self I.sized _ _ hid, I.cur]
    · show (s.cnt.set l.id (s.cnt.get l.id + 1)).get root = 0
      rw [hget _ (F.id_ne_root I.mem).symm, I.root0]
    · intro l' hl'
      show Rx.leHi ((s.cnt.set l.id (s.cnt.get l.id + 1)).get l'.id) l'.hi
      by_cases e : l'.id = l.id
      · have := F.id_inj hl' I.mem e
        subst this
        rw [Cnt.get_set_self I.sized _ _ hid, I.cur]
        cases hh : l'.hi with
        | none => trivial
        | some v => rw [hh] at h; simp only [ltHi, decide_eq_true_eq] at h; simp only [Rx.leHi]; omega
      · rw [hget _ e]; exact I.bound l' hl'
    · intro i l' hi hl'
      show (s.cnt.set l.id (s.cnt.get l.id + 1)).get l'.id = 0
      by_cases e : l'.id = l.id
      · have := F.idx_inj hl' I.hl e
        omega
      · rw [hget _ e]; exact I.later i l' hi hl'
    · intro _
      refine ⟨l, I.mem, ?_⟩
      show (s.cnt.set l.id (s.cnt.get l.id + 1)).get l.id ≠ 0
      rw [Cnt.get_set_self I.sized _ _ hid]; omega


def Step.errs : Step → List Err | .done _ e => e | .ended _ e => e
def Step.st : Step → St | .done s _ => s | .ended s _ => s

theorem onEnded_errs (A : Arena) (s : St) (errs : List Err) : ∃ t, (onEnded A s errs).errs = errs ++ t := by
  unfold onEnded
  simp only
  split
  · exact ⟨_, rfl⟩
  · split
    · exact ⟨_, rfl⟩
    · exact ⟨[], by simp [Step.errs]⟩

/-- `advance`'s main loop never drops an error it was given -/
theorem advLoop_errs (A : Arena) : ∀ (f : Nat) (s : St) (errs : List Err), ∃ t, (advLoop A f s errs).errs = errs ++ t := by
  intro f
  induction f with
  | zero => intro s errs; exact ⟨[], by simp [advLoop, Step.errs]⟩
  | succ f ih =>
    intro s errs
    rw [advLoop]
    simp only
    repeat' split
    all_goals first
      | exact onEnded_errs A _ errs
      | exact ih _ _
      | (rename_i s' item io r _ _
         obtain ⟨t, ht⟩ := ih s' (errs ++ [⟨item, io⟩])
         exact ⟨_, by rw [ht, List.append_assoc]⟩)
      | (refine ⟨[], ?_⟩; simp [Step.errs]; done)

theorem Cnt.get_set_same {c : Cnt} {n : Nat} (h : c.Sized n) (i x : Nat) (hi : i < n) (h0 : c.get i = 0) :
    (c.set i 0).get x = c.get x := by
  rw [Cnt.get_set h i 0 x hi]
  split
  · rename_i e; rw [← e, h0]
  · rfl

/-- the state after the visitor moved to the next element of the sequence -/
theorem Inv.next (I : Inv F j l c m s) (hlo : m = false → l.lo ≤ c) {l2 : LeafSpec} (h2 : ls[j + 1]? = some l2) :
    Inv F (j + 1) l2 0 m { s with idx := s.idx + 1, element := some l2.id, cnt := s.cnt.set l2.id 0 } := by
  have hm2 : l2 ∈ ls := List.mem_of_getElem? h2
  have hid := F.ids_lt l2 hm2
  have h0 : s.cnt.get l2.id = 0 := I.later (j + 1) l2 (Nat.lt_succ_self j) h2
  have hget : ∀ x, (s.cnt.set l2.id 0).get x = s.cnt.get x := fun x => Cnt.get_set_same I.sized _ x hid h0
  refine { hl := h2, stack := I.stack, group := I.group, idx := ?_, mtch := I.mtch, elem := rfl, fo := I.fo,
           sized := Cnt.sized_set I.sized _ _, cur := ?_, root0 := ?_, oid0 := I.oid0, bound := ?_, later := ?_,
           mfalse := ?_, mtrue := ?_ }
  · show s.idx + 1 = j + 1 + 1
    rw [I.idx]
  · show (s.cnt.set l2.id 0).get l2.id = 0
    rw [hget, h0]
  · show (s.cnt.set l2.id 0).get root = 0
    rw [hget, I.root0]
  · intro l' hl'
    show Rx.leHi ((s.cnt.set l2.id 0).get l'.id) l'.hi
    rw [hget]; exact I.bound l' hl'
  · intro i l' hi hl'
    show (s.cnt.set l2.id 0).get l'.id = 0
    rw [hget]; exact I.later i l' (by omega) hl'
  · intro hm
    refine ⟨rfl, ?_⟩
    intro l' hl'
    rw [take_succ_of_getElem? I.hl] at hl'
    rcases List.mem_append.mp hl' with h | h
    · exact (I.mfalse hm).2 l' h
    · simp only [List.mem_singleton] at h
      subst h
      have := hlo hm
      have := (I.mfalse hm).1
      omega
  · intro hm
    obtain ⟨l', hl', hne⟩ := I.mtrue hm
    exact ⟨l', hl', by show (s.cnt.set l2.id 0).get l'.id ≠ 0; rw [hget]; exact hne⟩


theorem Inv.notOver_root (I : Inv F j l c m s) : isOver A s.cnt root = false := by
  rw [F.isOver_root, I.root0]; rfl

theorem Inv.last_iff (I : Inv F j l c m s) : ls.getLast? = some l ↔ ls[j + 1]? = none := by
  have hj := (List.getElem?_eq_some_iff.mp I.hl).1
  rw [List.getLast?_eq_getElem?]
  constructor
  · intro h
    have := F.idx_inj h I.hl rfl
    rw [List.getElem?_eq_none_iff]; omega
  · intro h
    rw [List.getElem?_eq_none_iff] at h
    have : ls.length - 1 = j := by omega
    rw [this]; exact I.hl

/-- `stop_item` on the current element -/
theorem Inv.stop (I : Inv F j l c m s) :
    ∃ s2, stopItem A (depthFuel A + 4) s l.id = .ok (s2, l.id, c, decide (l.lo > c)) ∧
      ((ls[j + 1]? ≠ none ∨ m = false) → s2 = s) ∧
      (ls[j + 1]? = none → m = true → ∃ b, 1 ≤ b ∧ s2 = { s with cnt := (s.cnt.set root 1).setOid root b }) := by
  show ∃ s2, stopItem A ((A.size + 4) + 2) s l.id = _ ∧ _
  rw [F.stopItem_leaf_seq I.mem _ s I.group I.stack, I.cur, I.mtch]
  cases m with
  | true =>
    have hmt : s.mtch = true := I.mtch
    simp only [Bool.true_or, if_true, St.with_mtch_true s hmt]
    by_cases hlast : ls[j + 1]? = none
    · obtain ⟨b, hb, e⟩ := F.seqTail_last I.mem s I.group (I.last_iff.mpr hlast) (I.mtrue rfl) I.bound
      rw [I.root0, I.oid0] at e
      have hcur : (seqTail A s l.id).cnt.get l.id = c := by
        rw [e]
        show ((s.cnt.set root (0 + 1)).setOid root (0 + b)).get l.id = c
        rw [Cnt.get_setOid, Cnt.get_set_ne I.sized _ _ _ F.root_lt (F.id_ne_root I.mem).symm, I.cur]
      refine ⟨_, by rw [hcur], ?_, ?_⟩
      · rintro (h | h)
        · exact absurd hlast h
        · cases h
      · intro _ _
        exact ⟨b, hb, by rw [e]; simp [hmt]⟩
    · have e := F.seqTail_notLast I.mem s I.group (fun h => hlast (I.last_iff.mp h))
      rw [e, I.cur]
      exact ⟨s, rfl, fun _ => rfl, fun h => absurd h hlast⟩
  | false =>
    have hc0 : c = 0 := (I.mfalse rfl).1
    subst hc0
    simp only [Bool.false_or, bne_self_eq_false, Bool.false_eq_true, if_false]
    by_cases hlo : l.lo = 0
    · simp only [hlo, beq_self_eq_true, if_true]
      exact ⟨s, by simp, fun _ => rfl, fun _ h => by cases h⟩
    · have hlo' : (l.lo == 0) = false := by simpa using hlo
      have hmiss : isMissing A s.cnt root = true := by
        rw [F.isMissing_root (.inl rfl), I.oid0, I.root0, F.emptiable_root_seq]
        simp only [bne_self_eq_false, Bool.false_eq_true, if_false, beq_self_eq_true, if_true]
        have : ls.all (fun l => l.lo == 0) = false := by
          rw [List.all_eq_false]
          exact ⟨l, I.mem, by simpa using hlo⟩
        simp [this]
      simp only [hlo', Bool.false_eq_true, if_false, hmiss, if_true]
      refine ⟨s, ?_, fun _ => rfl, fun _ h => by cases h⟩
      have : decide (l.lo > 0) = true := by simpa using Nat.pos_of_ne_zero hlo
      rw [this]


/-- the first error of `advance`, if any: the current element is missing -/
def errs0 (l : LeafSpec) (c : Nat) : List Err := if decide (l.lo > c) = true then [⟨l.id, c⟩] else []

theorem errs0_ok {l : LeafSpec} {c : Nat} (h : l.lo ≤ c) : errs0 l c = [] := by
  have : decide (l.lo > c) = false := by simpa using h
  simp [errs0, this]

theorem errs0_err {l : LeafSpec} {c : Nat} (h : c < l.lo) : errs0 l c ≠ [] := by
  have : decide (l.lo > c) = true := by simpa using h
  simp [errs0, this]

theorem Inv.afterStop_next (I : Inv F j l c m s) {l2 : LeafSpec} (h2 : ls[j + 1]? = some l2) :
    ∃ s', afterStop A (stopItem A (depthFuel A + 4) s l.id) = .done s' (errs0 l c) ∧ s'.fuelOut = false ∧
      (l.lo ≤ c → Inv F (j + 1) l2 0 m s') := by
  obtain ⟨s2, e, hs2, _⟩ := I.stop
  have := hs2 (.inl (by rw [h2]; simp))
  subst this
  rw [e]
  simp only [afterStop]
  refine ⟨_, ?_, ?_, fun hlo => I.next (fun _ => hlo) h2⟩
  · show advLoop A ((8 * A.size + 15) + 1) s2 _ = _
    rw [F.advLoop_next_seq (by simp) _ s2 I.group _ I.notOver_root (by rw [I.idx]; exact h2)]
    rfl
  · exact I.fo

theorem leafs_all_zero (I : Inv F j l c false s) (hlo : l.lo ≤ c) (h2 : ls[j + 1]? = none) :
    ls.all (fun l => l.lo == 0) = true := by
  have hlen : ls.length ≤ j + 1 := List.getElem?_eq_none_iff.mp h2
  have : ls = ls.take j ++ [l] := by
    rw [← take_succ_of_getElem? I.hl, List.take_of_length_le hlen]
  rw [this, List.all_append]
  have h0 := I.mfalse rfl
  simp only [Bool.and_eq_true, List.all_eq_true, beq_iff_eq, List.mem_singleton, forall_eq]
  exact ⟨h0.2, by omega⟩

theorem Inv.afterStop_end (I : Inv F j l c m s) (h2 : ls[j + 1]? = none) :
    ∃ s' errs, afterStop A (stopItem A (depthFuel A + 4) s l.id) = .ended s' errs ∧ s'.element = none ∧
      s'.fuelOut = false ∧ (l.lo ≤ c → errs = []) ∧ (c < l.lo → errs ≠ []) := by
  obtain ⟨s2, e, hs2, hs2'⟩ := I.stop
  rw [e]
  simp only [afterStop]
  have hfo : s2.fuelOut = false := by
    cases m with
    | false => rw [hs2 (.inr rfl)]; exact I.fo
    | true => obtain ⟨b, hb, rfl⟩ := hs2' h2 rfl; exact I.fo
  have hgrp : s2.group = root := by
    cases m with
    | false => rw [hs2 (.inr rfl)]; exact I.group
    | true => obtain ⟨b, hb, rfl⟩ := hs2' h2 rfl; exact I.group
  have key : ∃ t, advLoop A ((8 * A.size + 15) + 1) s2 (errs0 l c) = .ended { s2 with element := none } (errs0 l c ++ t) ∧
      (l.lo ≤ c → t = []) := by
    cases m with
    | false =>
      have := hs2 (.inr rfl)
      subst this
      rw [F.advLoop_end_seq (by simp) _ s2 I.group I.stack _ I.notOver_root (by rw [I.idx]; exact h2),
        if_neg (by rw [I.mtch]; simp)]
      rw [F.onEnded_notAll (by simp) s2 I.group]
      refine ⟨_, rfl, ?_⟩
      intro hlo
      rw [F.isMissing_root (.inl rfl), I.oid0, I.root0, F.emptiable_root_seq,
        F.isExceeded_root, I.root0, leafs_all_zero I hlo h2]
      have : Rx.leHi 0 (some 1) := Nat.zero_le 1
      simp [this]
    | true =>
      obtain ⟨b, hb, rfl⟩ := hs2' h2 rfl
      have hr : ((s.cnt.set root 1).setOid root b).get root = 1 := by
        rw [Cnt.get_setOid, Cnt.get_set_self I.sized _ _ F.root_lt]
      have ho : ((s.cnt.set root 1).setOid root b).getOid root = b := by
        rw [Cnt.getOid_setOid (Cnt.sized_set I.sized _ _) _ _ _ F.root_lt]; simp
      rw [F.advLoop_over (.inl rfl) _ { s with cnt := (s.cnt.set root 1).setOid root b } I.group I.stack _
        (by rw [F.isOver_root]; simp only [hr]; rfl)]
      rw [F.onEnded_notAll (by simp) { s with cnt := (s.cnt.set root 1).setOid root b } I.group]
      refine ⟨_, rfl, ?_⟩
      intro _
      rw [F.isMissing_root (.inl rfl), F.isExceeded_root]
      simp only [hr, ho]
      have h1 : Rx.leHi 1 (some 1) := Nat.le_refl 1
      have h2 : (b != 0) = true := by simp; omega
      have h3 : (b == 0) = false := by simp; omega
      simp [h1, h2, h3]
      omega
  obtain ⟨t, ht, ht0⟩ := key
  refine ⟨{ s2 with element := none }, errs0 l c ++ t, ht, rfl, hfo, ?_, ?_⟩
  · intro hlo; rw [errs0_ok hlo, ht0 hlo]; rfl
  · intro hlo h
    exact errs0_err hlo (List.append_eq_nil_iff.mp h).1

end
end XsVerif.CM
